/-
Props.C07 — Byte sequences behave as a flat zero-extended byte array.

Model: `Model.ByteVec` (halmos/bytevec.py, branch for branch).  Spec: `Spec.Bytes` (flat arrays of byte symbols).

Part A — each `ByteVec` method refines the corresponding flat-array operation and preserves the layout
invariant `WF` (`_well_formed`: contiguous, non-empty chunks, lengths sum to `length`).  These theorems are
generic in the chunk operations `O` (any `Lawful O`), so they cover a single call of either model variant.

Part B — histories on a pool of named objects.  For the non-aliasing variant (`run false`) every history is
observationally equal to the same history on independent flat arrays (`history_refines`), an operation changes
only its target (`step_frame`), and a copy and its original evolve independently (`copy_independent`).
For the aliasing variant (`run true` = bytevec.py:584-586 as it stands: an aligned `set_slice` keeps the value
*object* as a chunk) the refinement is **false**: `history_refines_alias_cex`, `copy_independent_alias_cex`;
the harness replays the witnesses on the real code.

Excluded inputs (stated, not silently dropped): an object passed whole as the value of its own `append` /
`set_slice` (`Op.selfData`; both sides answer `unsupported`), and negative offsets (Python raises `IndexError`;
offsets are `Nat` here) — the harness checks the latter directly.
-/
import HalmosVerif.Lemmas.ByteVecPool

namespace HalmosVerif.Props.C07
open HalmosVerif.Spec HalmosVerif.Model.BV HalmosVerif.Model.BV.BVec

/-! ## Part A: the methods -/

section
variable {C : Type} (O : ChunkOps C)

/-- `length` is the number of bytes of the flattened content. -/
theorem refines_length (hO : Lawful O) (bv : BVec C) (h : WF O bv) :
    bv.length = (flatten O bv).length :=
  (WF.length_eq hO h).symm

/-- `append` -/
theorem refines_append (hO : Lawful O) (bv : BVec C) (c : C) (h : WF O bv) :
    WF O (append O bv c) ∧ flatten O (append O bv c) = Flat.append (flatten O bv) (O.bytes c) :=
  append_spec O hO bv c h

/-- `set_byte`: a one-byte value is written (with zero back-fill past the end); anything else is rejected. -/
theorem refines_set_byte (hO : Lawful O) (bv : BVec C) (off : Nat) (v : C) (h : WF O bv) :
    (O.len v = 1 → ∃ bv', setByte O bv off v = .ok bv' ∧ WF O bv' ∧
        flatten O bv' = Flat.write (flatten O bv) off (O.bytes v)) ∧
    (O.len v ≠ 1 → setByte O bv off v = .error .assertion) :=
  ⟨fun hv => setByte_spec O hO bv off v h hv, fun hv => setByte_err O bv off v hv⟩

/-- `set_slice`: empty range = no-op; reversed range or wrong value length = `ValueError`; otherwise the write
    (aligned fast path, back-fill past the end, and the general splitting path alike). -/
theorem refines_set_slice (hO : Lawful O) (bv : BVec C) (s e : Nat) (v : Value C) (h : WF O bv) (hv : v.WF O) :
    (s = e → setSlice O bv s e v = .ok bv) ∧
    (s > e → setSlice O bv s e v = .error .valueError) ∧
    (s < e → e - s ≠ v.len O → setSlice O bv s e v = .error .valueError) ∧
    (s < e → e - s = v.len O → ∃ bv', setSlice O bv s e v = .ok bv' ∧ WF O bv' ∧
        flatten O bv' = Flat.write (flatten O bv) s (v.bytes O)) :=
  ⟨fun he => he ▸ setSlice_noop O bv s v, setSlice_err_order O bv s e v, setSlice_err_len O bv s e v,
   fun h1 h2 => setSlice_spec O hO bv s e v h hv h1 h2⟩

/-- `set_word` -/
theorem refines_set_word (hO : Lawful O) (bv : BVec C) (off : Nat) (w : C) (h : WF O bv) :
    (O.len w = 32 → ∃ bv', setWord O bv off w = .ok bv' ∧ WF O bv' ∧
        flatten O bv' = Flat.write (flatten O bv) off (O.bytes w)) ∧
    (O.len w ≠ 32 → setWord O bv off w = .error .valueError) := by
  constructor
  · intro hw
    exact setSlice_spec O hO bv off (off + 32) (.one w) h trivial (by omega) (by simp [Value.len, hw])
  · intro hw
    exact setSlice_err_len O bv off (off + 32) (.one w) (by omega) (by simp [Value.len]; omega)

/-- the size after a write is the highest offset written -/
theorem length_after_write (f : Flat) (s : Nat) (d : List Byte) (hd : d ≠ []) :
    (Flat.write f s d).length = max f.length (s + d.length) := by
  by_cases h : s ≤ f.length
  · rw [Flat.write_of_le f s d hd h]; simp; omega
  · rw [Flat.write_past f s d hd (by omega)]; simp [Flat.zeros]; omega

/-- `slice`: zero-extended read, for every `start`, `stop` (also beyond the end, also `stop ≤ start`) -/
theorem refines_slice (hO : Lawful O) (bv : BVec C) (s e : Nat) (h : WF O bv) :
    WF O (slice O bv s e) ∧ flatten O (slice O bv s e) = Flat.read (flatten O bv) s e :=
  slice_spec O hO bv s e h

/-- `get_byte`: zero beyond the end -/
theorem refines_get_byte (hO : Lawful O) (bv : BVec C) (off : Nat) (h : WF O bv) :
    getByte O bv off = Flat.get (flatten O bv) off :=
  getByte_spec O hO bv off h

/-- `get_word` -/
theorem refines_get_word (hO : Lawful O) (bv : BVec C) (off : Nat) (h : WF O bv) :
    getWord O bv off = Flat.word (flatten O bv) off :=
  getWord_spec O hO bv off h

/-- `concretize` (needs no well-formedness of the source: it re-appends every chunk) -/
theorem refines_concretize (hO : Lawful O) (bv : BVec C) (σ : String → Option (List Nat)) :
    WF O (concretize O bv σ) ∧ flatten O (concretize O bv σ) = Flat.subst σ (flatten O bv) :=
  concretize_spec O hO bv σ

/-- reads beyond the end are zero -/
theorem read_past_end (f : Flat) (s e : Nat) (h : f.length ≤ s) : f.read s e = Flat.zeros (e - s) := by
  apply List.ext_getElem
  · simp [Flat.read, Flat.zeros]
  · intro i h1 h2
    simp only [Flat.read, List.getElem_map, List.getElem_range, Flat.get, Flat.zeros, List.getElem_replicate]
    rw [List.getD_eq_getElem?_getD, List.getElem?_eq_none (by omega)]
    rfl

end

/-- the chunk operations of concrete/symbolic leaf chunks are lawful -/
theorem leaf_chunks_lawful : Lawful leafOps := leafOps_lawful

/-- a well-formed mixed object: `[01 02][x[1..3]]` -/
def sampleBV : BVec Leaf := ⟨[(0, .conc [1, 2] 0 2), (2, .symb "x" 4 1 3)], 5⟩

example : WF leafOps sampleBV := by simp [WF, Contig, total, leafOps, Piece.len, sampleBV]
example : flatten leafOps sampleBV = [.lit 1, .lit 2, .sym "x" 1, .sym "x" 2, .sym "x" 3] := by decide
-- set_byte inside the symbolic chunk splits it; past the end back-fills zeros
example : (setByte leafOps sampleBV 3 (.conc [0xee] 0 1)).toOption.map (flatten leafOps)
    = some [.lit 1, .lit 2, .sym "x" 1, .lit 0xee, .sym "x" 3] := by decide
example : (setByte leafOps sampleBV 7 (.conc [0xee] 0 1)).toOption.map (flatten leafOps)
    = some [.lit 1, .lit 2, .sym "x" 1, .sym "x" 2, .sym "x" 3, .lit 0, .lit 0, .lit 0xee] := by decide
-- set_slice straddling both chunks and growing the object (general path), and an aligned one
example : (setSlice leafOps sampleBV 1 7 (.one (.symb "y" 6 0 6))).toOption.map (fun b => (flatten leafOps b, b.length))
    = some ([.lit 1, .sym "y" 0, .sym "y" 1, .sym "y" 2, .sym "y" 3, .sym "y" 4, .sym "y" 5], 7) := by decide
example : (setSlice leafOps sampleBV 0 2 (.one (.conc [9, 8] 0 2))).toOption.map (fun b => b.chunks.length)
    = some 2 := by decide
example : (match setSlice leafOps sampleBV 1 3 (.one (.conc [9] 0 1)) with
    | .error .valueError => true | _ => false) = true := by decide
-- slice beyond the end is zero-extended
example : flatten leafOps (slice leafOps sampleBV 4 8) = [.sym "x" 3, .lit 0, .lit 0, .lit 0] := by decide
example : getByte leafOps sampleBV 9 = Byte.zero := by decide

/-! ## Part B: histories on a pool of objects -/

/-- One operation: same reply, and the refinement relation (which includes `WF` of every object) is kept. -/
theorem step_refines {p : Pure.Pool} {q : FlatPool.Pool} (h : Inv p q) (op : Op) :
    (Pure.step p op).2 = (FlatPool.step q op).2 ∧ Inv (Pure.step p op).1 (FlatPool.step q op).1 := by
  unfold Pure.step FlatPool.step
  by_cases hs : op.selfData = true
  · rw [if_pos hs, if_pos hs]; exact ⟨rfl, h⟩
  · rw [if_neg hs, if_neg hs]
    have L := leafOps_lawful
    cases op with
    | new a => exact ⟨rfl, inv_set h a _ _ (wf_empty _) rfl⟩
    | append a d =>
      have hd := dataValue_spec h d
      have := appendValue_spec leafOps L (p a) (Pure.dataValue p d) (h a).1
      refine ⟨rfl, inv_set h a _ _ this.1 ?_⟩
      rw [flatten_eq, this.2, hd.2, ← flatten_eq, (h a).2]; rfl
    | setByte a off x =>
      simp only
      by_cases hx : x.len ≠ 1
      · rw [if_pos hx, setByte_err leafOps _ _ _ hx]; exact ⟨rfl, h⟩
      · rw [if_neg hx]
        obtain ⟨bv', e, hw, hf⟩ := setByte_spec leafOps L (p a) off x (h a).1 (by change x.len = 1; omega)
        rw [e]
        refine ⟨rfl, inv_set h a _ _ hw ?_⟩
        rw [flatten_eq, hf, ← flatten_eq, (h a).2]; rfl
    | setSlice a s e d =>
      simp only
      have hd := dataValue_spec h d
      have hl := dataValue_len h d
      by_cases h1 : s = e
      · subst h1
        rw [if_pos rfl, setSlice_noop]
        exact ⟨rfl, inv_set_left h a⟩
      · rw [if_neg h1]
        by_cases h2 : s > e
        · rw [if_pos h2, setSlice_err_order leafOps _ _ _ _ h2]; exact ⟨rfl, h⟩
        · rw [if_neg h2]
          by_cases h3 : e - s ≠ (FlatPool.dataBytes q d).length
          · rw [if_pos h3, setSlice_err_len leafOps _ _ _ _ (by omega) (by rw [hl]; exact h3)]
            exact ⟨rfl, h⟩
          · rw [if_neg h3]
            obtain ⟨bv', e', hw, hf⟩ := setSlice_spec leafOps L (p a) s e _ (h a).1 hd.1 (by omega)
              (by rw [hl]; simpa using h3)
            rw [e']
            refine ⟨rfl, inv_set h a _ _ hw ?_⟩
            rw [flatten_eq, hf, hd.2, ← flatten_eq, (h a).2]
    | setWord a off x =>
      simp only
      by_cases hx : x.len ≠ 32
      · rw [if_pos hx]
        have := setSlice_err_len leafOps (p a) off (off + 32) (.one x) (by omega)
          (by simp only [Value.len]; show off + 32 - off ≠ x.len; omega)
        unfold setWord
        rw [this]; exact ⟨rfl, h⟩
      · rw [if_neg hx]
        obtain ⟨bv', e', hw, hf⟩ := setSlice_spec leafOps L (p a) off (off + 32) (.one x) (h a).1 trivial
          (by omega) (by simp only [Value.len]; show off + 32 - off = x.len; omega)
        unfold setWord
        rw [e']
        refine ⟨rfl, inv_set h a _ _ hw ?_⟩
        rw [flatten_eq, hf, ← flatten_eq, (h a).2]; rfl
    | copy a b => exact ⟨rfl, inv_set h b _ _ (h a).1 (h a).2⟩
    | slice a s e b =>
      have := slice_spec leafOps L (p a) s e (h a).1
      have hf : flatten leafOps (slice leafOps (p a) s e) = (q a).read s e := by
        rw [flatten_eq, this.2, ← flatten_eq, (h a).2]
      simp only
      rw [hf]
      exact ⟨rfl, inv_set h b _ _ this.1 hf⟩
    | concretize a σ b =>
      have := concretize_spec leafOps L (p a) (FlatPool.substOf σ)
      refine ⟨rfl, inv_set h b _ _ this.1 ?_⟩
      rw [flatten_eq, this.2, ← flatten_eq, (h a).2]
    | getByte a off =>
      simp only
      rw [getByte_spec leafOps L (p a) off (h a).1, ← flatten_eq, (h a).2]
      exact ⟨rfl, h⟩
    | getWord a off =>
      simp only
      rw [getWord_spec leafOps L (p a) off (h a).1, ← flatten_eq, (h a).2]
      exact ⟨rfl, h⟩
    | unwrap a => simp only; rw [(h a).2]; exact ⟨rfl, h⟩
    | len a =>
      simp only
      rw [← (h a).2, flatten_eq, WF.length_eq L (h a).1]
      exact ⟨rfl, h⟩

/-- `_well_formed` is an invariant of every operation on every object of the pool. -/
theorem wf_preserved (p : Pure.Pool) (h : ∀ a, WF leafOps (p a)) (op : Op) :
    ∀ a, WF leafOps ((Pure.step p op).1 a) := by
  have hinv : Inv p (fun a => flatten leafOps (p a)) := fun a => ⟨h a, rfl⟩
  intro a
  exact ((step_refines hinv op).2 a).1

theorem run_refines {p : Pure.Pool} {q : FlatPool.Pool} (h : Inv p q) (ops : List Op) :
    Pure.run p ops = FlatPool.run q ops := by
  induction ops generalizing p q with
  | nil => rfl
  | cons op rest ih =>
    have := step_refines h op
    simp only [Pure.run, FlatPool.run]
    rw [this.1, ih this.2]

/-- **Every history** of appends, byte/word/slice writes (concrete, symbolic, mixed, from other objects, from
    overlapping slices of the same object), copies, slices, concretisations and reads on any number of objects
    gives exactly the replies of the same history on independent flat zero-extended arrays. -/
theorem history_refines (ops : List Op) : run false ops = FlatPool.run FlatPool.init ops := by
  simp only [run]
  exact run_refines inv_init ops

/-- the state after any history is well formed and flattens to the flat arrays' state -/
theorem exec_refines {p : Pure.Pool} {q : FlatPool.Pool} (h : Inv p q) (ops : List Op) :
    ∃ q', Inv (Pure.exec p ops) q' := by
  induction ops generalizing p q with
  | nil => exact ⟨q, h⟩
  | cons op rest ih => exact ih (step_refines h op).2

/-- the 3-operation witness (after two appends that set the stage): `a[0:5] = b; b[1:3] = "$$"; read a` -/
def aliasWitness : List Op :=
  [ .append "a" (.raw (.conc [1, 2, 3, 4, 5] 0 5)),
    .append "b" (.raw (.conc [0xaa, 0xbb, 0xcc, 0xdd, 0xee] 0 5)),
    .setSlice "a" 0 5 (.obj "b"),
    .setSlice "b" 1 3 (.raw (.conc [0x24, 0x24] 0 2)),
    .unwrap "a" ]

example : run false aliasWitness
    = [.unit, .unit, .unit, .unit, .bytes [.lit 0xaa, .lit 0xbb, .lit 0xcc, .lit 0xdd, .lit 0xee]] := by decide

/-- The aliasing variant (bytevec.py as it stands) does **not** refine the flat arrays: the full statement
    `∀ ops, run true ops = FlatPool.run FlatPool.init ops` is false. -/
theorem history_refines_alias_cex :
    ¬ ∀ ops : List Op, run true ops = FlatPool.run FlatPool.init ops := by
  intro h
  have := h aliasWitness
  revert this
  decide

example : run true aliasWitness
    = [.unit, .unit, .unit, .unit, .bytes [.lit 0xaa, .lit 0x24, .lit 0x24, .lit 0xdd, .lit 0xee]] := by decide

/-- An operation changes only the object it targets. -/
theorem step_frame (p : Pure.Pool) (op : Op) (x : String) (h : op.target ≠ some x) :
    (Pure.step p op).1 x = p x := by
  unfold Pure.step
  by_cases hs : op.selfData = true
  · rw [if_pos hs]
  · rw [if_neg hs]
    have hset : ∀ (a : String) (v : BVec Leaf), a ≠ x → Pure.set p a v x = p x := by
      intro a v hax; simp [Pure.set, Ne.symm hax]
    have hupd : ∀ (a : String) (r : Except Err (BVec Leaf)), a ≠ x → (Pure.upd p a r).1 x = p x := by
      intro a r hax; cases r <;> simp [Pure.upd, hset a _ hax]
    cases op <;> simp only [Op.target, ne_eq, Option.some.injEq] at h <;>
      first
        | rfl
        | exact hset _ _ h
        | exact hupd _ _ h

theorem exec_frame (p : Pure.Pool) (ops : List Op) (x : String) (h : ∀ op ∈ ops, op.target ≠ some x) :
    Pure.exec p ops x = p x := by
  induction ops generalizing p with
  | nil => rfl
  | cons op rest ih =>
    simp only [Pure.exec]
    rw [ih _ (fun o ho => h o (by simp [ho])), step_frame p op x (h op (by simp))]

/-- A copy and its original evolve independently: after `b := a.copy()` (or `deepcopy(State)`), no history
    that does not write `b` changes `b` (it still is `a` at the time of the copy), and no history that does not
    write `a` changes `a` — whatever is done to the other one. -/
theorem copy_independent (p : Pure.Pool) (a b : String) (hab : a ≠ b) (ops : List Op) :
    ((∀ op ∈ ops, op.target ≠ some b) → Pure.exec (Pure.step p (.copy a b)).1 ops b = p a) ∧
    ((∀ op ∈ ops, op.target ≠ some a) → Pure.exec (Pure.step p (.copy a b)).1 ops a = p a) := by
  constructor
  · intro h
    rw [exec_frame _ ops b h]
    simp [Pure.step, Op.selfData, Pure.set]
  · intro h
    rw [exec_frame _ ops a h]
    simp [Pure.step, Op.selfData, Pure.set, hab]

/-- history in which the copy `c` of `a` is read after the *value object* `b` was modified -/
def copyWitness : List Op :=
  [ .append "a" (.raw (.conc [1, 2, 3, 4, 5] 0 5)),
    .append "b" (.raw (.conc [0xaa, 0xbb, 0xcc, 0xdd, 0xee] 0 5)),
    .setSlice "a" 0 5 (.obj "b"),
    .copy "a" "c",
    .setSlice "b" 1 3 (.raw (.conc [0x24, 0x24] 0 2)),
    .unwrap "c" ]

example : (∀ op ∈ copyWitness.drop 4, op.target ≠ some "c") := by decide
example : run false copyWitness = FlatPool.run FlatPool.init copyWitness := by decide

/-- In the aliasing variant a copy is not independent either: `c = a.copy()` still changes when `b` does. -/
theorem copy_independent_alias_cex :
    ¬ ∀ ops : List Op, run true ops = FlatPool.run FlatPool.init ops := by
  intro h
  have := h copyWitness
  revert this
  decide

end HalmosVerif.Props.C07
