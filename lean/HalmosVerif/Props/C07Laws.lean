/-
Props.C07Laws — the memory laws, stated outright on the byte-sequence model (corollaries of the C07 refinement
theorems plus one law of the flat spec):

* `flat_get_write`        read-over-write on the flat spec: a byte inside the written range is the written byte,
                          a byte outside it (before, after, or in the zero back-fill gap) is what it was (zero
                          beyond the old end);
* `get_after_set_slice`   the same law for the chunked `ByteVec`: after a successful `set_slice(s, e, v)`,
                          `get_byte(i)` is `v`'s byte `i - s` for `s ≤ i < e` and the old `get_byte(i)` otherwise —
                          whatever the chunk layout (aligned fast path, splitting path, back-fill past the end);
* `get_after_set_word`, `get_after_set_byte`  ditto for `set_word` / MSTORE and `set_byte` / MSTORE8;
* `slice_after_set_slice` reading back exactly the written range returns the written bytes;
* `get_after_append`     `append` keeps every existing byte and places the new ones right after the old end;
* `length_after_set_slice` the size after a successful write is `max size e` (what MSIZE is computed from).
-/
import HalmosVerif.Props.C07

namespace HalmosVerif.Props.C07Laws
open HalmosVerif.Spec HalmosVerif.Model.BV HalmosVerif.Model.BV.BVec HalmosVerif.Props.C07

/-- **read-over-write** on the flat spec, for every offset (inside, before, after, in the back-fill gap) -/
theorem flat_get_write (f : Flat) (s : Nat) (d : List Byte) (i : Nat) :
    (Flat.write f s d).get i = if s ≤ i ∧ i < s + d.length then d.getD (i - s) Byte.zero else f.get i := by
  unfold Flat.write
  by_cases hd : d = []
  · subst hd
    have : ¬ (s ≤ i ∧ i < s + ([] : List Byte).length) := by simp
    rw [if_pos rfl, if_neg this]
  · have hlen : 0 < d.length := List.length_pos_iff.2 hd
    simp only [hd, if_false, Flat.get, Flat.zeros, List.getD_eq_getElem?_getD]
    by_cases h1 : i < s
    · have : ¬ (s ≤ i ∧ i < s + d.length) := by omega
      rw [if_neg this]
      rw [List.append_assoc, List.getElem?_append_left (by simp; omega)]
      simp only [List.getElem?_take, h1, if_true, List.getElem?_append]
      split
      · rfl
      · rw [List.getElem?_eq_none (by omega : f.length ≤ i)]
        simp only [List.getElem?_replicate]; split <;> rfl
    · by_cases h2 : i < s + d.length
      · rw [if_pos ⟨by omega, h2⟩]
        rw [List.append_assoc, List.getElem?_append_right (by simp; omega)]
        have hl : (List.take s (f ++ List.replicate (s - f.length) Byte.zero)).length = s := by simp; omega
        rw [hl, List.getElem?_append_left (by omega)]
      · have : ¬ (s ≤ i ∧ i < s + d.length) := by omega
        rw [if_neg this]
        have hl : (List.take s (f ++ List.replicate (s - f.length) Byte.zero) ++ d).length = s + d.length := by
          simp; omega
        rw [List.getElem?_append_right (by omega), hl, List.getElem?_drop]
        have : s + d.length + (i - (s + d.length)) = i := by omega
        rw [this, List.getElem?_append]
        split
        · rfl
        · rw [List.getElem?_eq_none (by omega : f.length ≤ i)]
          have : ¬ (i - f.length < s - f.length) := by omega
          simp [this]

section
variable {C : Type} (O : ChunkOps C)

/-- **get_after_set_slice.** -/
theorem get_after_set_slice (hO : Lawful O) (bv bv' : BVec C) (s e : Nat) (v : Value C) (h : WF O bv) (hv : v.WF O)
    (hse : s < e) (hlen : e - s = v.len O) (hok : setSlice O bv s e v = .ok bv') (i : Nat) :
    getByte O bv' i = if s ≤ i ∧ i < e then (v.bytes O).getD (i - s) Byte.zero else getByte O bv i := by
  obtain ⟨bv'', hok', hwf', hfl⟩ := (refines_set_slice O hO bv s e v h hv).2.2.2 hse hlen
  rw [hok] at hok'
  cases hok'
  rw [refines_get_byte O hO bv' i hwf', refines_get_byte O hO bv i h, hfl, flat_get_write]
  have hl : (v.bytes O).length = e - s := by rw [BVec.Value.bytes_len O hO v hv, hlen]
  have : (s ≤ i ∧ i < s + (v.bytes O).length) ↔ (s ≤ i ∧ i < e) := by rw [hl]; omega
  simp only [this]

/-- **slice_after_set_slice.** reading back the written range gives the written bytes -/
theorem slice_after_set_slice (hO : Lawful O) (bv bv' : BVec C) (s e : Nat) (v : Value C) (h : WF O bv) (hv : v.WF O)
    (hse : s < e) (hlen : e - s = v.len O) (hok : setSlice O bv s e v = .ok bv') :
    flatten O (slice O bv' s e) = v.bytes O := by
  obtain ⟨bv'', hok', hwf', hfl⟩ := (refines_set_slice O hO bv s e v h hv).2.2.2 hse hlen
  rw [hok] at hok'
  cases hok'
  rw [(refines_slice O hO bv' s e hwf').2, hfl]
  have hl : (v.bytes O).length = e - s := by rw [BVec.Value.bytes_len O hO v hv, hlen]
  apply List.ext_getElem
  · simp [Flat.read, hl]
  · intro k h1 h2
    simp only [Flat.read, List.getElem_map, List.getElem_range, flat_get_write]
    have hk : k < e - s := by simpa [Flat.read] using h1
    rw [if_pos ⟨by omega, by omega⟩]
    have : s + k - s = k := by omega
    rw [this, List.getD_eq_getElem?_getD, List.getElem?_eq_getElem h2]; rfl

/-- **length_after_set_slice.** the size after a successful write is the highest offset written so far -/
theorem length_after_set_slice (hO : Lawful O) (bv bv' : BVec C) (s e : Nat) (v : Value C) (h : WF O bv) (hv : v.WF O)
    (hse : s < e) (hlen : e - s = v.len O) (hok : setSlice O bv s e v = .ok bv') :
    bv'.length = max bv.length e := by
  obtain ⟨bv'', hok', hwf', hfl⟩ := (refines_set_slice O hO bv s e v h hv).2.2.2 hse hlen
  rw [hok] at hok'
  cases hok'
  have hl : (v.bytes O).length = e - s := by rw [BVec.Value.bytes_len O hO v hv, hlen]
  have hne : v.bytes O ≠ [] := by intro h0; rw [h0] at hl; simp at hl; omega
  rw [refines_length O hO bv' hwf', hfl, length_after_write _ _ _ hne, ← refines_length O hO bv h, hl]
  omega

/-- **get_after_append.** `append` leaves every existing byte in place and puts the new bytes right after the old end -/
theorem get_after_append (hO : Lawful O) (bv : BVec C) (c : C) (h : WF O bv) (i : Nat) :
    getByte O (append O bv c) i =
      if i < bv.length then getByte O bv i else (O.bytes c).getD (i - bv.length) Byte.zero := by
  obtain ⟨hwf', hfl⟩ := refines_append O hO bv c h
  rw [refines_get_byte O hO _ i hwf', refines_get_byte O hO bv i h, hfl, refines_length O hO bv h]
  simp only [Flat.append, Flat.get, List.getD_eq_getElem?_getD, List.getElem?_append]
  split <;> rfl

/-- **get_after_set_byte.** MSTORE8-style one-byte write, then any one-byte read (also past the old end: the gap is zero) -/
theorem get_after_set_byte (hO : Lawful O) (bv bv' : BVec C) (off : Nat) (v : C) (h : WF O bv) (hv : O.len v = 1)
    (hok : setByte O bv off v = .ok bv') (i : Nat) :
    getByte O bv' i = if i = off then (O.bytes v).getD 0 Byte.zero else getByte O bv i := by
  obtain ⟨bv'', hok', hwf', hfl⟩ := (refines_set_byte O hO bv off v h).1 hv
  rw [hok] at hok'
  cases hok'
  rw [refines_get_byte O hO bv' i hwf', refines_get_byte O hO bv i h, hfl, flat_get_write, hO.bytes_len v, hv]
  by_cases hi : i = off
  · subst hi; simp
  · have : ¬ (off ≤ i ∧ i < off + 1) := by omega
    rw [if_neg this, if_neg hi]

/-- **get_after_set_word.** MSTORE-style 32-byte write, then any one-byte read -/
theorem get_after_set_word (hO : Lawful O) (bv bv' : BVec C) (off : Nat) (w : C) (h : WF O bv) (hw : O.len w = 32)
    (hok : setWord O bv off w = .ok bv') (i : Nat) :
    getByte O bv' i = if off ≤ i ∧ i < off + 32 then (O.bytes w).getD (i - off) Byte.zero else getByte O bv i := by
  obtain ⟨bv'', hok', hwf', hfl⟩ := (refines_set_word O hO bv off w h).1 hw
  rw [hok] at hok'
  cases hok'
  rw [refines_get_byte O hO bv' i hwf', refines_get_byte O hO bv i h, hfl, flat_get_write, hO.bytes_len w, hw]

end

/-! ### non-vacuity: the hypotheses are met on the sample object of Props.C07 (general splitting path, growing write) -/

example : (setSlice leafOps sampleBV 1 7 (.one (.symb "y" 6 0 6))).toOption.map
      (fun b => (getByte leafOps b 0, getByte leafOps b 3, getByte leafOps b 9))
    = some (.lit 1, .sym "y" 2, Byte.zero) := by decide

end HalmosVerif.Props.C07Laws
