/-
Props.C08 — storage reads return the last write to the same slot; no aliasing (sevm.py `SolidityStorage`,
`GenericStorage`, `StorageData`, `Exec.select`, transient storage), over the model `Model/Storage.lean`.

Hypotheses (`Lemmas/Storage.lean`): `HashIdeal D H` (what halmos assumes of keccak on the hashes it has seen), `Good`
(small slots / offsets, in-range keys), `Gram` (the term is inside the layout grammar; outside it `decode` raises and
the path is stuck = fail-safe), `W256` (the width part of `Gram`), `OffLt` (offsets below 2^256, part of `Good`).

  1. `eval_toTerm`                 the value of the location term is the slot of the flat EVM
  2. `decodeS_toTerm`, `decodeS_toTerm_normalizeM`, `decodeS_literal`, `keyStructure_toTerm`   the decoder on the grammar
  3. `slot_eq_imp_decoded_eq`, `decoded_eq_imp_slot_eq`, `decode_faithful`, `decode_cross_shape_cex`, `evalFlat`
  4. `select_sound`                `Exec.select` means `Select(array, key)`
  5. `load_after_store`, `load_returns_last_write`, `load_unwritten_zero`   (Solidity layout, any history)
  6. `transient_fresh`, `fresh_load_zero`
  7. `decodeG_toTerm`, `decodeG_faithful_partial`, `decodeG_cross_shape_cex`, `load_after_store_generic`   (generic layout)
-/
import HalmosVerif.Lemmas.StorageGenericEx
import HalmosVerif.Lemmas.StorageNorm

namespace HalmosVerif.Props.C08
open HalmosVerif.Model HalmosVerif.Model.Storage HalmosVerif.Lemmas.Storage

/-! ### 1. the location term evaluates to the slot -/

theorem eval_toTerm (env : Env) (ℓ : Loc) (h : W256 ℓ) : ℓ.toTerm.eval env = ℓ.slotOf env :=
  HalmosVerif.Lemmas.Storage.eval_toTerm env h

theorem eval_toTerm_gram (env : Env) (rl : Nat → Option LTerm) (ℓ : Loc) (h : Gram rl ℓ) :
    ℓ.toTerm.eval env = ℓ.slotOf env :=
  HalmosVerif.Lemmas.Storage.eval_toTerm env h.w256

example : W256 exMap ∧ W256 exArrArr ∧ exMap.toTerm.eval exEnv = 3 * 2 ^ 64 + 2 := by
  refine ⟨by simp [exMap, W256, OffW, LTerm.width], by simp [exArrArr, W256, OffW, LTerm.width], ?_⟩
  rw [eval_toTerm _ _ (by simp [exMap, W256, OffW, LTerm.width]), exMap_slot]

/-! ### 2. the decoder on the layout grammar -/

theorem decodeS_toTerm (rl : Nat → Option LTerm) (ℓ : Loc) (fuel : Nat) (hg : Gram rl ℓ) (hf : ℓ.depth ≤ fuel) :
    decodeS rl id fuel ℓ.toTerm = .ok ℓ.flat :=
  HalmosVerif.Lemmas.Storage.decodeS_toTerm rl ℓ fuel hg hf

/-- a constant that the keccak registry knows is decoded as the term it stands for -/
theorem decodeS_literal (rl : Nat → Option LTerm) (w v fuel : Nat) (t : LTerm) (h : rl v = some t) :
    decodeS rl id (fuel + 1) (.lit w v) = decodeS rl id fuel t :=
  decodeS_lit_some rl w v fuel t h

theorem keyStructure_toTerm (conc : LTerm → Option Nat) (rl : Nat → Option LTerm) (ℓ : Loc) (fuel : Nat)
    (hg : Gram rl ℓ) (hf : ℓ.depth ≤ fuel) :
    keyStructure conc (decodeS rl id fuel) ℓ.toTerm =
      .ok ((ℓ.root, ℓ.flat.length - 1, widthSum ℓ.flat.tail), ℓ.flat.tail) :=
  HalmosVerif.Lemmas.Storage.keyStructure_toTerm conc rl ℓ fuel hg hf

/-- the atoms allowed as offsets -/
theorem offOK_atoms (rl : Nat → Option LTerm) (form : OffForm) :
    (∀ i, OffOK rl (.sym 256 i) form) ∧ (∀ v, rl v = none → OffOK rl (.lit 256 v) form) :=
  ⟨fun i => offOK_sym rl i form, fun v h => offOK_lit rl v form h⟩

example : Gram (fun _ => none) exMap ∧ Gram (fun _ => none) exArrArr ∧ exMap.depth ≤ 3 ∧ exArrArr.depth ≤ 5 ∧
    decodeS (fun _ => none) id 3 exMap.toTerm = .ok [.lit 256 5, .lit 256 1, .add [zero256, .lit 256 2]] := by
  have g1 : Gram (fun _ => none) exMap := by simp [exMap, Gram, LTerm.width, offOK_lit]
  have g2 : Gram (fun _ => none) exArrArr := by simp [exArrArr, Gram, offOK_lit]
  exact ⟨g1, g2, by decide, by decide, decodeS_toTerm _ _ _ g1 (by decide)⟩

example : decodeS (fun v => if v = 77 then some exMap.toTerm else none) id 4 (.lit 256 77) = .ok exMap.flat := by
  rw [decodeS_literal _ _ _ _ exMap.toTerm (by simp)]
  exact decodeS_toTerm _ _ _ (by simp [exMap, Gram, LTerm.width, offOK_lit]) (by decide)

/-- packed (8-bit) key through the third branch of `decode`, `off + hash` through the sort-by-length rule, nested in an
array element: the decoder evaluates -/
example : decodeS (fun _ => none) id 5
      (Loc.mapping (.lit 8 1) (.array (.slot 5) (.sym 256 0) .left) (.sym 256 1) .left).toTerm
    = .ok [.lit 256 5, .add [zero256, .sym 256 0], .lit 8 1, .add [zero256, .sym 256 1]] := rfl

/-- the same with the model's `normalizeM` (left-nesting of n-ary concatenations, what the driver uses as `norm`) instead
of `id`: it is the identity on every term shape of `Loc.toTerm` (`NormOK`); `GramN normalizeM` asks of the offsets that
`decodeS rl normalizeM` returns them unchanged (free symbols and unregistered literals do: `offOKN_normalizeM_*`); keys are
never normalised by the decoder, so there is no condition on them. -/
theorem decodeS_toTerm_normalizeM (rl : Nat → Option LTerm) (ℓ : Loc) (fuel : Nat) (hg : GramN normalizeM rl ℓ)
    (hf : ℓ.depth ≤ fuel) : decodeS rl normalizeM fuel ℓ.toTerm = .ok ℓ.flat :=
  decodeS_toTerm_norm normOK_normalizeM rl ℓ fuel hg hf

example : GramN normalizeM (fun _ => none) exMap ∧
    decodeS (fun _ => none) normalizeM 3 exMap.toTerm = .ok [.lit 256 5, .lit 256 1, .add [zero256, .lit 256 2]] := by
  have g : GramN normalizeM (fun _ => none) exMap := by simp [exMap, GramN, LTerm.width, offOKN_normalizeM_lit]
  exact ⟨g, decodeS_toTerm_normalizeM _ _ _ g (by decide)⟩

/-! ### 3. the decoded tuple is faithful (same shape) -/

theorem slot_eq_imp_decoded_eq {env : Env} {D} (hH : HashIdeal D env.H) (ℓ₁ ℓ₂ : Loc)
    (g1 : Good env D ℓ₁) (g2 : Good env D ℓ₂) (h : ℓ₁.slotOf env = ℓ₂.slotOf env) :
    ℓ₁.root = ℓ₂.root ∧ ℓ₁.dkeys env = ℓ₂.dkeys env :=
  HalmosVerif.Lemmas.Storage.slot_eq_imp_decoded_eq hH ℓ₁ ℓ₂ g1 g2 h

theorem decoded_eq_imp_slot_eq {env : Env} (ℓ₁ ℓ₂ : Loc) (hs : ℓ₁.shape = ℓ₂.shape) (hr : ℓ₁.root = ℓ₂.root)
    (hd : ℓ₁.dkeys env = ℓ₂.dkeys env) : ℓ₁.slotOf env = ℓ₂.slotOf env :=
  HalmosVerif.Lemmas.Storage.decoded_eq_imp_slot_eq ℓ₁ ℓ₂ hs hr hd

theorem decode_faithful {env : Env} {D} (hH : HashIdeal D env.H) (ℓ₁ ℓ₂ : Loc)
    (g1 : Good env D ℓ₁) (g2 : Good env D ℓ₂) (hs : ℓ₁.shape = ℓ₂.shape) :
    ℓ₁.slotOf env = ℓ₂.slotOf env ↔ (ℓ₁.root = ℓ₂.root ∧ ℓ₁.dkeys env = ℓ₂.dkeys env) :=
  ⟨slot_eq_imp_decoded_eq hH ℓ₁ ℓ₂ g1 g2, fun h => decoded_eq_imp_slot_eq ℓ₁ ℓ₂ hs h.1 h.2⟩

example : HashIdeal exD exEnv.H ∧ Good exEnv exD exMap ∧ Good exEnv exD exArrArr := ⟨exHashIdeal, exMap_good, exArrArr_good⟩

/-- the decoded tuple forgets the shape: `a[1][2]` (array of arrays at slot 5) and `m[1] + 2` (mapping at slot 5) have the
same root, the same decoded keys and the same cell key, but different slots.  One `(slot, num_keys, size_keys)` cell must
not be used with two shapes (Solidity's typing guarantees that). -/
theorem decode_cross_shape_cex :
    ¬ ∀ (env : Env) (D : Nat → Nat → Prop) (ℓ₁ ℓ₂ : Loc), HashIdeal D env.H → Good env D ℓ₁ → Good env D ℓ₂ →
      ℓ₁.root = ℓ₂.root → ℓ₁.dkeys env = ℓ₂.dkeys env → ℓ₁.slotOf env = ℓ₂.slotOf env := by
  intro h
  have := h exEnv exD exArrArr exMap exHashIdeal exArrArr_good exMap_good rfl
    (by simp [exArrArr, exMap, Loc.dkeys, offVal, LTerm.eval, LTerm.width])
  rw [exArrArr_slot, exMap_slot] at this
  omega

/-- … and the two locations share the storage cell of the model -/
theorem decode_cross_shape_same_cell : cellOf exArrArr = cellOf exMap := by
  simp [cellOf, exArrArr, exMap, Loc.root, Loc.flat, widthSum, LTerm.width, offTerm, widthHead, zero256]

/-- the decoded keys of the model evaluate to `dkeys` (innermost first = reversed) -/
theorem evalFlat (env : Env) (ℓ : Loc) (h : OffLt env ℓ) :
    ℓ.flat.tail.map (fun t => (t.width, t.eval env)) = (ℓ.dkeys env).reverse :=
  HalmosVerif.Lemmas.Storage.evalFlat env ℓ h

example : OffLt exEnv exMap := exMap_good.offLt

/-! ### 4. Exec.select -/

/-- `Exec.select` skips a store only when the keys are provably different and returns a stored value early only when
they are provably (or structurally) equal: the result means `Select(array, key)`.
The structural comparison `key == key0` is `LTerm.beq`, proved sound in Lemmas/Storage.lean (`LTerm.beq_eq`). -/
theorem select_sound {ν : Type} (env : Env) (init : Init) (ev : ν → Nat) (chk : LTerm → LTerm → Tri) (symbolic : Bool)
    (hc : ChkSound env chk) (hz : symbolic = false → ∀ c k, init c k = 0)
    (a : Arr ν) (key : LTerm) :
    (select chk symbolic a key).eval env init ev = a.eval env init ev (key.eval env) :=
  HalmosVerif.Lemmas.Storage.select_sound env init ev chk symbolic hc hz a key

/-- the hypotheses on the solver are satisfiable: the solver that never answers -/
example (env : Env) : ChkSound env (fun _ _ => .unknown) := fun _ _ => ⟨nofun, nofun⟩
/-- … and the solver that decides everything under `exEnv` -/
example : ChkSound exEnv exChk := exChk_sound

/-! ### 5. load after store (Solidity layout) -/

/-- A load after any history of stores returns what the flat EVM storage holds at the slot of the location.

`h` is the history of stores (oldest first) into storage that starts empty (`symbolic = b`); `Family` (Lemmas/StorageInv)
says that every location of `ℓ :: h.map fst` is `Good env D`, `Gram rl`, of depth ≤ `fuel`, and that the family uses every
cell `(slot, num_keys, size_keys)` with one shape (`cellOf x = cellOf y → x.shape = y.shape`, cf. `decode_cross_shape_cex`).
`init` / `f0`: the initial contents of the model storage and of the flat storage agree on the family; for non-symbolic
storage `init` is zero (the emptiness constraints `load` adds).  `conc` (the path's concretization) is arbitrary. -/
theorem load_after_store {ν : Type} (env : Env) (D : Nat → Nat → Prop) (rl : Nat → Option LTerm) (fuel : Nat)
    (init : Init) (ev : ν → Nat) (conc : LTerm → Option Nat) (chk : LTerm → LTerm → Tri) (b : Bool) (f0 : Flat)
    (ℓ : Loc) (h : List (Loc × ν))
    (hH : HashIdeal D env.H) (fam : Family env D rl fuel (· ∈ ℓ :: h.map Prod.fst))
    (hc : ChkSound env chk)
    (hinit : ∀ x ∈ ℓ :: h.map Prod.fst, init (cellOf x) (keyVal env x) = f0 (x.slotOf env))
    (hz : b = false → ∀ c k, init c k = 0) :
    ∃ s' s'' r, runStores conc (decodeS rl id fuel) ({ symbolic := b, cells := [] } : SData ν) h = .ok s' ∧
      loadS conc (decodeS rl id fuel) chk s' ℓ.toTerm = .ok (s'', r) ∧
      r.eval env init ev = Flat.read (applyFlat env ev f0 h) (ℓ.slotOf env) :=
  load_after_store_fam init ev conc chk hH fam b hz hc f0 hinit h ℓ
    (fun _ hp => List.mem_cons_of_mem _ (List.mem_map_of_mem hp)) List.mem_cons_self

/-- reads return the last write to the same slot: if `(ℓ', v)` is the last store whose slot is the slot of `ℓ`, the load
returns `v` — whatever the syntactic form of `ℓ'` -/
theorem load_returns_last_write {ν : Type} (env : Env) (D : Nat → Nat → Prop) (rl : Nat → Option LTerm) (fuel : Nat)
    (init : Init) (ev : ν → Nat) (conc : LTerm → Option Nat) (chk : LTerm → LTerm → Tri) (b : Bool) (f0 : Flat)
    (ℓ ℓ' : Loc) (v : ν) (h1 h2 : List (Loc × ν))
    (hH : HashIdeal D env.H) (fam : Family env D rl fuel (· ∈ ℓ :: (h1 ++ (ℓ', v) :: h2).map Prod.fst))
    (hc : ChkSound env chk)
    (hinit : ∀ x ∈ ℓ :: (h1 ++ (ℓ', v) :: h2).map Prod.fst, init (cellOf x) (keyVal env x) = f0 (x.slotOf env))
    (hz : b = false → ∀ c k, init c k = 0)
    (hsame : ℓ'.slotOf env = ℓ.slotOf env) (hlater : ∀ p ∈ h2, p.1.slotOf env ≠ ℓ.slotOf env) :
    ∃ s' s'' r, runStores conc (decodeS rl id fuel) ({ symbolic := b, cells := [] } : SData ν) (h1 ++ (ℓ', v) :: h2) = .ok s' ∧
      loadS conc (decodeS rl id fuel) chk s' ℓ.toTerm = .ok (s'', r) ∧ r.eval env init ev = ev v := by
  obtain ⟨s', s'', r, h1', h2', h3'⟩ :=
    load_after_store env D rl fuel init ev conc chk b f0 ℓ _ hH fam hc hinit hz
  refine ⟨s', s'', r, h1', h2', ?_⟩
  rw [h3', Flat.read, ← hsame]
  exact applyFlat_last_write env ev f0 h1 h2 ℓ' v (by rw [hsame]; exact hlater)

/-- a slot of non-symbolic storage that the history never wrote reads zero -/
theorem load_unwritten_zero {ν : Type} (env : Env) (D : Nat → Nat → Prop) (rl : Nat → Option LTerm) (fuel : Nat)
    (init : Init) (ev : ν → Nat) (conc : LTerm → Option Nat) (chk : LTerm → LTerm → Tri)
    (ℓ : Loc) (h : List (Loc × ν))
    (hH : HashIdeal D env.H) (fam : Family env D rl fuel (· ∈ ℓ :: h.map Prod.fst))
    (hc : ChkSound env chk) (hz : ∀ c k, init c k = 0)
    (hnever : ∀ p ∈ h, p.1.slotOf env ≠ ℓ.slotOf env) :
    ∃ s' s'' r, runStores conc (decodeS rl id fuel) ({ symbolic := false, cells := [] } : SData ν) h = .ok s' ∧
      loadS conc (decodeS rl id fuel) chk s' ℓ.toTerm = .ok (s'', r) ∧ r.eval env init ev = 0 := by
  obtain ⟨s', s'', r, h1', h2', h3'⟩ :=
    load_after_store env D rl fuel init ev conc chk false (fun _ => 0) ℓ h hH fam hc (fun x _ => hz _ _) (fun _ => hz)
  refine ⟨s', s'', r, h1', h2', ?_⟩
  rw [h3', Flat.read, applyFlat_not_written env ev _ h _ hnever]

/-- non-vacuity: the history `m[1].f2 = 10; m[1].f3 = 20; x7 = 30; m[1].f3 = 40` (mapping at slot 5, `f3` written as
`3 + hash`), then a load of `m[1].f2` / `m[1].f3`: all hypotheses hold, the stores evaluate, and the flat storage holds 10 / 40 there. -/
example :
    HashIdeal exD exEnv.H ∧ Family exEnv exD (fun _ => none) 3 (· ∈ exMap :: exHist.map Prod.fst) ∧
    ChkSound exEnv exChk ∧
    (∃ s', runStores (fun _ => none) (decodeS (fun _ => none) id 3) ({ symbolic := false, cells := [] } : SData Nat) exHist
        = .ok s' ∧ s'.cells.length = 2) ∧
    Flat.read (applyFlat exEnv id (fun _ => 0) exHist) (exMap.slotOf exEnv) = 10 ∧
    ∃ s' s'' r, runStores (fun _ => none) (decodeS (fun _ => none) id 3) ({ symbolic := false, cells := [] } : SData Nat)
        exHist = .ok s' ∧
      loadS (fun _ => none) (decodeS (fun _ => none) id 3) exChk s' exMap.toTerm = .ok (s'', r) ∧
      r.eval exEnv (fun _ _ => 0) id = 10 := by
  have hflat : Flat.read (applyFlat exEnv id (fun _ => 0) exHist) (exMap.slotOf exEnv) = 10 := by
    simp [exHist, applyFlat, Flat.read, Flat.write, exMap_slot, exMap3_slot, Loc.slotOf]
  refine ⟨exHashIdeal, exFamily, exChk_sound, ⟨_, rfl, rfl⟩, hflat, ?_⟩
  obtain ⟨s', s'', r, h1, h2, h3⟩ := load_after_store exEnv exD (fun _ => none) 3 (fun _ _ => 0) (id : Nat → Nat)
    (fun _ => none) exChk false (fun _ => 0) exMap exHist exHashIdeal exFamily exChk_sound (fun _ _ => rfl) (fun _ _ _ => rfl)
  exact ⟨s', s'', r, h1, h2, by rw [h3, hflat]⟩

/-- the model evaluates in the kernel: a load after two stores into the same mapping cell
(a) returns the last value by structural key equality alone (solver silent), (b) skips the later store when the solver
says the keys differ, (c) with a silent solver keeps the `Select(Store(Store(…)))` term, which still means 10;
(d) the four-store history, reading the twice-written `m[1].f3` -/
example : exLoadAfter (fun _ _ => .unknown) [(exMap, 10), (exMap3, 20)] exMap3 = .ok 20 := rfl
example : exLoadAfter exChk [(exMap, 10), (exMap3, 20)] exMap = .ok 10 := rfl
example : exLoadAfter (fun _ _ => .unknown) [(exMap, 10), (exMap3, 20)] exMap = .ok 10 := rfl
example : exLoadAfter exChk exHist exMap3 = .ok 40 := rfl

/-! ### 6. transient storage is fresh in every transaction, and fresh storage reads zero -/

theorem transient_fresh {ν : Type} (pre : Accounts ν) (a : Nat) (s : SData ν)
    (h : (a, s) ∈ (runMessage pre).transient) : s = ({} : SData ν) :=
  runMessage_transient pre a s h

/-- a load from fresh (non-symbolic) storage is syntactically `ZERO`, in both layouts, whatever the decoder says -/
theorem fresh_load_zero {ν : Type} (env : Env) (init : Init) (ev : ν → Nat) (chk : LTerm → LTerm → Tri) (t : LTerm)
    (s' : SData ν) (r : Res ν) :
    (∀ conc dec, loadS conc dec chk ({} : SData ν) t = .ok (s', r) → r = .zero ∧ r.eval env init ev = 0) ∧
    (∀ dec, loadG dec chk ({} : SData ν) t = .ok (s', r) → r = .zero ∧ r.eval env init ev = 0) := by
  constructor
  · intro conc dec h
    have := loadS_fresh conc dec chk t s' r h; subst this; exact ⟨rfl, rfl⟩
  · intro dec h
    have := loadG_fresh dec chk t s' r h; subst this; exact ⟨rfl, rfl⟩

example : ∃ s' r, loadS (ν := Nat) (fun _ => none) (decodeS (fun _ => none) id 3) (fun _ _ => .unknown) {} exMap.toTerm = .ok (s', r) ∧
    (1, ({} : SData Nat)) ∈ (runMessage ⟨[], [(1, { symbolic := true })]⟩).transient :=
  ⟨_, _, rfl, by simp [runMessage, freshTransient]⟩

/-! ### 7. generic layout -/

/-- `GenericStorage.decode` on the grammar (`GramG`: keys and offsets are atoms of the decoder) -/
theorem decodeG_toTerm (rl : Nat → Option LTerm) (ℓ : Loc) (fuel : Nat) (hg : GramG rl ℓ) (hf : ℓ.depth ≤ fuel) :
    decodeG rl id fuel ℓ.toTerm = .ok ℓ.gflat :=
  HalmosVerif.Lemmas.Storage.decodeG_toTerm rl ℓ fuel hg hf

example : GramG (fun _ => none) exMap ∧ exMap.depth ≤ 3 ∧
    decodeG (fun _ => none) id 3 exMap.toTerm =
      .ok (addAll [simpleHash (.concat [.lit 256 1, .lit 256 5]), .lit 256 2]) := by
  have g : GramG (fun _ => none) exMap := by simp [exMap, GramG, OffOKG, LTerm.width, atomG_lit]
  exact ⟨g, by decide, decodeG_toTerm _ _ _ g (by decide)⟩

/-- for same-shape locations the decoded term is faithful: same slot ⇔ same value of the term that indexes the SMT
array (and the terms have the same width, i.e. live in the same array).
Full statement (FALSE, see `decodeG_cross_shape_cex`): the same without `hs`. -/
theorem decodeG_faithful_partial {env : Env} {D} (hH : HashIdeal D env.H) (ℓ₁ ℓ₂ : Loc)
    (g1 : Good env D ℓ₁) (g2 : Good env D ℓ₂) (w1 : W256 ℓ₁) (w2 : W256 ℓ₂) (hs : ℓ₁.shape = ℓ₂.shape) :
    (ℓ₁.slotOf env = ℓ₂.slotOf env ↔ ℓ₁.gflat.eval env = ℓ₂.gflat.eval env) ∧ ℓ₁.gflat.width = ℓ₂.gflat.width :=
  decodeG_faithful hH ℓ₁ ℓ₂ g1 g2 w1 w2 hs

example : exMap.shape = exMap3.shape ∧ W256 exMap ∧ W256 exMap3 ∧ Good exEnv exD exMap3 :=
  ⟨by simp [exMap, exMap3, Loc.shape, LTerm.width], by simp [exMap, W256, OffW, LTerm.width],
   by simp [exMap3, W256, OffW, LTerm.width], exMap3_good⟩

/-- across shapes the generic decoder aliases: `keccak(keccak(1 ‖ 5))` (array inside a mapping) and
`keccak(1 ‖ keccak(5))` (mapping inside an array) decode to terms of the same width and the same value
(`1 ‖ 5 ‖ 0₂₅₇ ‖ 0₂₅₇`), i.e. the same cell of the same SMT array, although the slots differ. -/
theorem decodeG_cross_shape_cex :
    ¬ ∀ (env : Env) (D : Nat → Nat → Prop) (ℓ₁ ℓ₂ : Loc), HashIdeal D env.H → Good env D ℓ₁ → Good env D ℓ₂ →
      W256 ℓ₁ → W256 ℓ₂ → ℓ₁.gflat.width = ℓ₂.gflat.width → ℓ₁.gflat.eval env = ℓ₂.gflat.eval env →
      ℓ₁.slotOf env = ℓ₂.slotOf env := by
  intro h
  have := h exEnv2 exD2 exMapArr exArrMap exHashIdeal2 exMapArr_good exArrMap_good
    (by simp [exMapArr, W256, OffW]) (by simp [exArrMap, W256, OffW])
    (exGeneric_same_key exEnv2).2 (exGeneric_same_key exEnv2).1
  rw [exMapArr_slot, exArrMap_slot] at this
  omega

/-- generic layout: a load after any history of stores returns what the flat storage holds at the slot.  `FamilyG`
(Lemmas/StorageGeneric): every location of `ℓ :: h.map fst` is `Good`, `GramG rl`, of depth ≤ `fuel`, and every SMT array
(bit size `gw` of the decoded term) is used with one shape (cf. `decodeG_cross_shape_cex`); `gval env x` is the value of the
decoded term of `x`, `gcellOf x` its array. -/
theorem load_after_store_generic {ν : Type} (env : Env) (D : Nat → Nat → Prop) (rl : Nat → Option LTerm) (fuel : Nat)
    (init : Init) (ev : ν → Nat) (chk : LTerm → LTerm → Tri) (b : Bool) (f0 : Flat)
    (ℓ : Loc) (h : List (Loc × ν))
    (hH : HashIdeal D env.H) (fam : FamilyG env D rl fuel (· ∈ ℓ :: h.map Prod.fst))
    (hc : ChkSound env chk)
    (hinit : ∀ x ∈ ℓ :: h.map Prod.fst, init (gcellOf x) (gval env x) = f0 (x.slotOf env))
    (hz : b = false → ∀ c k, init c k = 0) :
    ∃ s' s'' r, runStoresG (decodeG rl id fuel) ({ symbolic := b, cells := [] } : SData ν) h = .ok s' ∧
      loadG (decodeG rl id fuel) chk s' ℓ.toTerm = .ok (s'', r) ∧
      r.eval env init ev = Flat.read (applyFlat env ev f0 h) (ℓ.slotOf env) :=
  load_after_store_generic_fam init ev chk hH fam b hz hc f0 hinit h ℓ
    (fun _ hp => List.mem_cons_of_mem _ (List.mem_map_of_mem hp)) List.mem_cons_self

/-- non-vacuity: the same history as for the Solidity layout -/
example :
    FamilyG exEnv exD (fun _ => none) 3 (· ∈ exMap3 :: exHist.map Prod.fst) ∧
    (∃ s', runStoresG (decodeG (fun _ => none) id 3) ({ symbolic := false, cells := [] } : SData Nat) exHist = .ok s' ∧
      s'.cells.length = 2) ∧
    ∃ s' s'' r, runStoresG (decodeG (fun _ => none) id 3) ({ symbolic := false, cells := [] } : SData Nat) exHist = .ok s' ∧
      loadG (decodeG (fun _ => none) id 3) exChk s' exMap3.toTerm = .ok (s'', r) ∧
      r.eval exEnv (fun _ _ => 0) id = 40 := by
  have fam : FamilyG exEnv exD (fun _ => none) 3 (· ∈ exMap3 :: exHist.map Prod.fst) :=
    exFamilyG.mono fun x hx => by
      rcases List.mem_cons.mp hx with rfl | h
      · simp [exHist]
      · exact List.mem_cons_of_mem _ h
  refine ⟨fam, ⟨_, rfl, rfl⟩, ?_⟩
  obtain ⟨s', s'', r, h1, h2, h3⟩ := load_after_store_generic exEnv exD (fun _ => none) 3 (fun _ _ => 0) (id : Nat → Nat)
    exChk false (fun _ => 0) exMap3 exHist exHashIdeal fam exChk_sound (fun _ _ => rfl) (fun _ _ _ => rfl)
  refine ⟨s', s'', r, h1, h2, ?_⟩
  rw [h3]
  simp [exHist, applyFlat, Flat.read, Flat.write, exMap3_slot]

end HalmosVerif.Props.C08
