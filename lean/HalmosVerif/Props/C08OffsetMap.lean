/-
Props.C08OffsetMap — C08 `offsetmap_lookup`: what `OffsetMap.__getitem__` (utils.py) returns for `k + d` after `m[k] = v`.

`KeccakRegistry.reverse_lookup(h + d)` relies on it to recognise the constant `keccak(slot) + d` as "element d of the
array at `slot`".  The intended statement

    offsetmap_lookup :  ∀ m k v m' d,  m.set k v = some m' →  d < 2^bits →  m'.lookup (k + d) = some (v, d)

is FALSE of the current code: the key is split at bit `bits`, so `k + d` falls into the next bucket whenever
`k % 2^bits + d ≥ 2^bits`, and `__getitem__` probes only the bucket of the key it is given.

* `offsetmap_lookup_cex`      — the negation, with the concrete witness k = keccak256(abi.encode(17573)) (low 16 bits
                                 0xffff), d = 5; replayed on the real class by tools/props/offsetmap_probe.py.
* `offsetmap_lookup_partial`  — the statement holds when there is no bucket crossing (`k % 2^bits + d < 2^bits`);
                                 `offsetmap_lookup_down_partial` is the analogue for negative offsets.
* `offsetmap_lookup_miss`     — what the current code does instead at a crossing when the next bucket is empty: `none`.
* `offsetmap_lookupFixed`     — the full statement for the corrected lookup `lookupFixed` (probe the previous bucket
                                 too), under the hypothesis that the next bucket holds no other entry (hashes are far apart).
-/
import HalmosVerif.Lemmas.OffsetMap
import HalmosVerif.Spec.Keccak
import HalmosVerif.Gen.HashTables

namespace HalmosVerif.Props.C08
open HalmosVerif.Model HalmosVerif.Model.OffsetMap HalmosVerif.Lemmas.OffsetMap

/-- keccak256(abi.encode(17573)): the data slot of a dynamic array declared at slot 17573 -/
def cexKey : Nat := 0x570DA5403F55F9196C83E1B7F4B48A093CBDA5BE622887C46400E4505546FFFF

theorem cexKey_is_hash : HalmosVerif.Spec.Keccak.keccak256BE 32 17573 = cexKey := by decide +kernel

/-- the default width extracted from utils.py is the one the witness is stated for -/
theorem cex_bits : HalmosVerif.Gen.HashTables.offsetBits = 16 := by decide

/-- the intended `offsetmap_lookup` does not hold: after `m[cexKey] = 1` on an empty map, `m[cexKey + 5]` is `(None, None)` -/
theorem offsetmap_lookup_cex :
    ¬ (∀ (m m' : OffsetMap Nat) (k v d : Nat), m.set k v = some m' → d < 2 ^ m.bits →
        m'.lookup (k + d) = some (v, (d : Int))) := by
  intro h
  have := h (OffsetMap.empty 16) ((OffsetMap.empty 16).setD cexKey 1) cexKey 1 5 (by rfl) (by decide)
  revert this
  decide

/-- the same witness, evaluated: the lookup misses -/
example : ((OffsetMap.empty 16 : OffsetMap Nat).setD cexKey 1).lookup (cexKey + 5) = none := by decide
/-- … while one step below the boundary it hits -/
example : ((OffsetMap.empty 16 : OffsetMap Nat).setD (cexKey - 7) 1).lookup (cexKey - 7 + 5) = some (1, 5) := by decide

variable {α : Type} [DecidableEq α]

/-- no bucket crossing ⇒ the lookup returns the stored value and the offset -/
theorem offsetmap_lookup_partial {m m' : OffsetMap α} {k : Nat} {v : α} (h : m.set k v = some m') (d : Nat)
    (hd : k % 2 ^ m.bits + d < 2 ^ m.bits) : m'.lookup (k + d) = some (v, (d : Int)) := by
  have hP : 0 < 2 ^ m.bits := Nat.two_pow_pos _
  obtain ⟨hq, hr⟩ := split_same k d (2 ^ m.bits) hP hd
  have hb := bits_of_set h
  have hf := find_set_self h
  simp only [OffsetMap.lookup, hb, mask_of_set h]
  rw [shr_eq_div, hq, ← shr_eq_div, hf]
  simp only [OffsetMap.mask, and_mask_eq_mod, hr]
  congr 2
  omega

-- non-vacuity: keccak256(abi.encode(0)) + 5 stays inside its bucket, and the instance evaluates
example : 0x290DECD9548B62A8D60345A988386FC84BA6BC95484008F6362F93160EF3E563 % 2 ^ 16 + 5 < 2 ^ 16 := by decide
example : ((OffsetMap.empty 16 : OffsetMap Nat).setD
    0x290DECD9548B62A8D60345A988386FC84BA6BC95484008F6362F93160EF3E563 7).lookup
    (0x290DECD9548B62A8D60345A988386FC84BA6BC95484008F6362F93160EF3E563 + 5) = some (7, 5) := by decide

/-- negative offsets inside the bucket (`(keccak - 1) + n` patterns): `m[k - d] = (v, -d)` for `d ≤ k % 2^bits` -/
theorem offsetmap_lookup_down_partial {m m' : OffsetMap α} {k : Nat} {v : α} (h : m.set k v = some m') (d : Nat)
    (hd : d ≤ k % 2 ^ m.bits) : m'.lookup (k - d) = some (v, -(d : Int)) := by
  have hP : 0 < 2 ^ m.bits := Nat.two_pow_pos _
  obtain ⟨hq, hr⟩ := split_down k d (2 ^ m.bits) hP hd
  have hb := bits_of_set h
  have hf := find_set_self h
  simp only [OffsetMap.lookup, hb, mask_of_set h]
  rw [shr_eq_div, hq, ← shr_eq_div, hf]
  simp only [OffsetMap.mask, and_mask_eq_mod, hr]
  congr 2
  omega

/-- at a crossing the current lookup misses (returns `(None, None)`) when the next bucket is empty — the defect, in general -/
theorem offsetmap_lookup_miss {m m' : OffsetMap α} {k : Nat} {v : α} (h : m.set k v = some m') (d : Nat)
    (hd : d < 2 ^ m.bits) (hx : 2 ^ m.bits ≤ k % 2 ^ m.bits + d) (hnext : m.find (k >>> m.bits + 1) = none) :
    m'.lookup (k + d) = none := by
  have hP : 0 < 2 ^ m.bits := Nat.two_pow_pos _
  obtain ⟨hq, _⟩ := split_cross k d (2 ^ m.bits) hP hx hd
  have hb := bits_of_set h
  have hne : k >>> m.bits + 1 ≠ k >>> m.bits := by omega
  have hf := find_set_other h hne
  simp only [OffsetMap.lookup, hb]
  rw [shr_eq_div, hq, ← shr_eq_div, hf, hnext]

/-- the corrected lookup satisfies the intended statement for every `d < 2^bits`, provided no other entry sits in the
bucket above `k` (registered hashes are ≥ 2^64 apart under the `HashIdeal` assumption of C08) -/
theorem offsetmap_lookupFixed {m m' : OffsetMap α} {k : Nat} {v : α} (h : m.set k v = some m') (d : Nat)
    (hd : d < 2 ^ m.bits) (hnext : m.find (k >>> m.bits + 1) = none) :
    m'.lookupFixed (k + d) = some (v, (d : Int)) := by
  have hP : 0 < 2 ^ m.bits := Nat.two_pow_pos _
  have hb := bits_of_set h
  have hf := find_set_self h
  by_cases hc : k % 2 ^ m.bits + d < 2 ^ m.bits
  · obtain ⟨hq, hr⟩ := split_same k d (2 ^ m.bits) hP hc
    simp only [OffsetMap.lookupFixed, hb, mask_of_set h]
    rw [shr_eq_div, hq, ← shr_eq_div, hf]
    simp only [OffsetMap.mask, and_mask_eq_mod, hr]
    congr 2
    omega
  · have hx : 2 ^ m.bits ≤ k % 2 ^ m.bits + d := Nat.le_of_not_lt hc
    obtain ⟨hq, hr⟩ := split_cross k d (2 ^ m.bits) hP hx hd
    have hne : k >>> m.bits + 1 ≠ k >>> m.bits := by omega
    have hfo := find_set_other h hne
    simp only [OffsetMap.lookupFixed, hb, mask_of_set h]
    rw [shr_eq_div, hq, ← shr_eq_div, hfo, hnext]
    simp only [Nat.add_one_ne_zero, if_false, Nat.add_sub_cancel, hf]
    simp only [OffsetMap.mask, and_mask_eq_mod, hr]
    simp only [Nat.one_shiftLeft]
    congr 2
    omega

/-- the corrected lookup on the witness of `offsetmap_lookup_cex` -/
example : ((OffsetMap.empty 16 : OffsetMap Nat).setD cexKey 1).lookupFixed (cexKey + 5) = some (1, 5) := by decide

omit [DecidableEq α] in
/-- where the current lookup answers, the corrected one gives the same answer (the fix only adds hits) -/
theorem lookupFixed_extends (m : OffsetMap α) (key : Nat) (r : α × Int) (h : m.lookup key = some r) :
    m.lookupFixed key = some r := by
  unfold OffsetMap.lookup at h
  unfold OffsetMap.lookupFixed
  split at h
  · cases h
  · rename_i value offset hfind
    rw [hfind]
    exact h

end HalmosVerif.Props.C08
