/-
Props.C08Tables — `precomputed_tables_ok` (C08): every entry of the precomputed reverse-lookup tables `keccak256_256`
and `keccak256_512` of hashes.py is the Keccak-256 of its preimage, where "preimage" is what
`utils.mk_precomputed_keccak_registry` registers (shape pinned by `tools/extract/hashtables.py`):
`f_sha3_256(con(x))` — the 32-byte big-endian word x — resp. `f_sha3_512(con((a << 256) + b, 512))` — the 64 bytes
a‖b.  768 kernel evaluations in 12 chunks (`C08TablesA…F`), lifted here to the whole tables.
-/
import HalmosVerif.Props.C08TablesA
import HalmosVerif.Props.C08TablesB
import HalmosVerif.Props.C08TablesC
import HalmosVerif.Props.C08TablesD
import HalmosVerif.Props.C08TablesE
import HalmosVerif.Props.C08TablesF
import HalmosVerif.Gen.HashTables

namespace HalmosVerif.Props.C08
open HalmosVerif.Spec HalmosVerif.Spec.Keccak HalmosVerif.Lemmas.KeccakTables HalmosVerif.Gen.HashTables

/-- `keccak256_256[h] = x` ⇒ `x < 2^256` and `h = keccak256(abi.encode(x))` -/
theorem keccak256_256_ok : ∀ e ∈ keccak256_256, e.2 < 2 ^ 256 ∧ keccak256 (bytesBE 32 e.2) = e.1 := fun e he =>
  h256Ok_spec
    (forall_mem_append (forall_mem_append (forall_mem_append
      (all_mem keccak256_256_0_ok) (all_mem keccak256_256_1_ok)) (all_mem keccak256_256_2_ok))
      (all_mem keccak256_256_3_ok) e he)

/-- `keccak256_512[h] = (a, b)` ⇒ `a, b < 2^256` and `h = keccak256(abi.encode(a, b))` -/
theorem keccak256_512_ok : ∀ e ∈ keccak256_512,
    e.2.1 < 2 ^ 256 ∧ e.2.2 < 2 ^ 256 ∧ keccak256 (bytesBE 32 e.2.1 ++ bytesBE 32 e.2.2) = e.1 := fun e he =>
  h512Ok_spec
    (forall_mem_append (forall_mem_append (forall_mem_append (forall_mem_append (forall_mem_append (forall_mem_append
      (forall_mem_append
      (all_mem keccak256_512_0_ok) (all_mem keccak256_512_1_ok)) (all_mem keccak256_512_2_ok))
      (all_mem keccak256_512_3_ok)) (all_mem keccak256_512_4_ok)) (all_mem keccak256_512_5_ok))
      (all_mem keccak256_512_6_ok)) (all_mem keccak256_512_7_ok) e he)

/-- C08 `precomputed_tables_ok` -/
theorem precomputed_tables_ok :
    (∀ e ∈ keccak256_256, e.2 < 2 ^ 256 ∧ keccak256 (bytesBE 32 e.2) = e.1) ∧
    (∀ e ∈ keccak256_512, e.2.1 < 2 ^ 256 ∧ e.2.2 < 2 ^ 256 ∧
      keccak256 (bytesBE 32 e.2.1 ++ bytesBE 32 e.2.2) = e.1) :=
  ⟨keccak256_256_ok, keccak256_512_ok⟩

-- non-vacuity: table sizes as counted by the extractor, and one concrete entry of each table
example : keccak256_256.length = keccak256_256_count ∧ keccak256_512.length = keccak256_512_count := by decide +kernel
example : keccak256_256_count > 0 ∧ keccak256_512_count > 0 := by decide
example : keccak256 (bytesBE 32 0) = 0x290DECD9548B62A8D60345A988386FC84BA6BC95484008F6362F93160EF3E563 := by
  have h : (0x290DECD9548B62A8D60345A988386FC84BA6BC95484008F6362F93160EF3E563, 0) ∈ keccak256_256 := by
    unfold keccak256_256 keccak256_256_0
    exact List.mem_append_left _ (List.mem_append_left _ (List.mem_append_left _ List.mem_cons_self))
  exact (keccak256_256_ok _ h).2

/-- `EMPTY_KECCAK` is the Keccak-256 of the empty byte string -/
theorem empty_keccak_ok : keccak256 [] = emptyKeccak := by decide +kernel

end HalmosVerif.Props.C08
