/-
Props.C08TablesD — kernel evaluation of chunks 2 and 3 of the precomputed table `keccak256_512` of hashes.py:
every entry's hash is the Keccak-256 of its preimage (`Lemmas.KeccakTables.h512Ok`).
`Props/C08Tables.lean` lifts the chunks to the whole tables.
-/
import HalmosVerif.Lemmas.KeccakTables
import HalmosVerif.Gen.HashTables512

namespace HalmosVerif.Props.C08
open HalmosVerif.Lemmas.KeccakTables HalmosVerif.Gen.HashTables

theorem keccak256_512_2_ok : keccak256_512_2.all h512Ok = true :=
  all_quarters 16 (by decide +kernel) (by decide +kernel) (by decide +kernel) (by decide +kernel)
theorem keccak256_512_3_ok : keccak256_512_3.all h512Ok = true :=
  all_quarters 16 (by decide +kernel) (by decide +kernel) (by decide +kernel) (by decide +kernel)

end HalmosVerif.Props.C08
