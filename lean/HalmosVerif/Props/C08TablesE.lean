/-
Props.C08TablesE — kernel evaluation of chunks 4 and 5 of the precomputed table `keccak256_512` of hashes.py:
every entry's hash is the Keccak-256 of its preimage (`Lemmas.KeccakTables.h512Ok`).
`Props/C08Tables.lean` lifts the chunks to the whole tables.
-/
import HalmosVerif.Lemmas.KeccakTables
import HalmosVerif.Gen.HashTables512

namespace HalmosVerif.Props.C08
open HalmosVerif.Lemmas.KeccakTables HalmosVerif.Gen.HashTables

theorem keccak256_512_4_ok : keccak256_512_4.all h512Ok = true :=
  all_quarters 16 (by decide +kernel) (by decide +kernel) (by decide +kernel) (by decide +kernel)
theorem keccak256_512_5_ok : keccak256_512_5.all h512Ok = true :=
  all_quarters 16 (by decide +kernel) (by decide +kernel) (by decide +kernel) (by decide +kernel)

end HalmosVerif.Props.C08
