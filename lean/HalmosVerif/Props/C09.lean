import HalmosVerif.Spec.Evm
namespace HalmosVerif.Props.C09
open HalmosVerif.Spec
theorem placeholder : Evm.ceil32 1 = 32 := by decide
end HalmosVerif.Props.C09
