/-
C09 — message calls are atomic and see the right context.

Theorems about `Model.Calls` (the model of `SEVM.call` / `call_known` / `call_unknown` / `SEVM.create` /
`transfer_value` / `handle_insufficient_fund_case` / `copy_returndata_to_memory` / `Exec.returndata`).
A frame's behaviour is an interaction tree (`Frame`); callee / init behaviours are arbitrary sub-trees, so every
statement below quantifies over call trees of any depth and width.  Statements that mention `run` hold for an
arbitrary callee behaviour (any function, not even required to come from a tree); `runBody callee` is the instance
for a tree.

The model is tied to the real SEVM by `tools/vlib/callsmodel.py` (random call trees compiled to contracts, run on the
real SEVM, on this model through `Driver/Calls.lean`, and on the reference EVM).
-/
import HalmosVerif.Lemmas.CallsExamples

namespace HalmosVerif.Props.C09
open HalmosVerif.Model.Calls

/-! ### a 3-level tree (scenery: `Lemmas/CallsExamples.lean` — accounts A, B, C; `outer` calls `middle` calls `inner`) -/

/-- a 3-level tree whose middle frame reverts: the inner frame's (successful) writes and both value transfers are undone,
the outer frame sees flag 0, the revert data, and the copy truncated to `ret_size = 1` -/
example : observe (runFrame (outer false) ctxA s0) = ([5, 0, 0, 100, 0, 10, 0, 0], .ret [0, 1, 0xde, 1]) := by decide

/-- the same tree with a returning middle frame: everything persists -/
example : observe (runFrame (outer true) ctxA s0) = ([5, 7, 9, 101, 4, 7, 1, 2], .ret [1, 1, 0xaa, 1]) := by decide

/-! ### atomic -/

/-- **atomic**: whatever the callee does (any tree, any depth, including successful nested frames, value transfers and
creations inside it), if the call does not succeed then the caller continues with the world — code, storage,
transient storage, balances — exactly as it was when the CALL-family instruction started. -/
theorem atomic (run : Ctx → St → St × Outcome) (sch : Scheme) (to fund rs : Nat) (pr : Prank) (ctx : Ctx) (s : St)
    (h : (callStep run sch to fund rs pr ctx s).2.success = false) :
    (callStep run sch to fund rs pr ctx s).1.w = s.w := by
  by_cases hi : callInsufficient sch fund pr ctx s
  · rw [callStep_insufficient run sch to fund rs pr ctx s hi]
  · cases hc : s.w.code to with
    | none => rw [callStep_unknown run sch to fund rs pr ctx s hi hc] at h; cases h
    | some c =>
      rw [callStep_known run sch to fund rs pr ctx s hi (by simp [hc])] at h ⊢
      rw [finishCall_seen] at h
      rw [finishCall_w, if_neg (by simpa using h)]

/-- the same for CREATE / CREATE2 (only the address counter keeps its advance) -/
theorem atomic_create (run : Ctx → St → St × Outcome) (a2 : Option Addr) (v : Nat) (pr : Prank) (ctx : Ctx) (s : St)
    (h : (createStep run a2 v pr ctx s).2.success = false) :
    (createStep run a2 v pr ctx s).1.w = s.w := by
  by_cases hi : createInsufficient v pr ctx s
  · rw [createStep_insufficient run a2 v pr ctx s hi, createBump_w]
  · by_cases hc : (s.w.code (createAddr a2 s)).isSome
    · rw [createStep_collision run a2 v pr ctx s hi hc, createBump_w]
    · rw [createStep_runs run a2 v pr ctx s hi hc] at h ⊢
      rw [finishCreate_success] at h
      exact finishCreate_w_fail _ _ _ h

/-- for a CALL-family instruction the pushed word is 0 exactly when the call did not succeed -/
theorem flag_zero_iff (run : Ctx → St → St × Outcome) (sch : Scheme) (to fund rs : Nat) (pr : Prank) (ctx : Ctx) (s : St) :
    (callStep run sch to fund rs pr ctx s).2.flag = 0 ↔ (callStep run sch to fund rs pr ctx s).2.success = false := by
  by_cases hi : callInsufficient sch fund pr ctx s
  · rw [callStep_insufficient run sch to fund rs pr ctx s hi]; simp [Seen.failedEmpty]
  · cases hc : s.w.code to with
    | none => rw [callStep_unknown run sch to fund rs pr ctx s hi hc]; simp
    | some c =>
      rw [callStep_known run sch to fund rs pr ctx s hi (by simp [hc]), finishCall_seen]
      cases (guarded run (mkMessage sch to (fundOf sch fund) pr ctx) (afterSend sch to fund pr ctx s)).2.isSuccess <;> simp

/-- atomicity at the level of whole trees: a frame that calls a failing tree continues from its own pre-call world -/
theorem atomic_tree (sch : Scheme) (to fund rs : Nat) (pr : Prank) (callee : Frame) (k : Seen → Frame) (ctx : Ctx) (s : St)
    (h : (callStep (runBody callee) sch to fund rs pr ctx s).2.flag = 0) :
    runBody (.call sch to fund rs pr callee k) ctx s
      = runBody (k (callStep (runBody callee) sch to fund rs pr ctx s).2) ctx
          { w := s.w, cnt := (callStep (runBody callee) sch to fund rs pr ctx s).1.cnt } := by
  have hw := atomic (runBody callee) sch to fund rs pr ctx s ((flag_zero_iff ..).mp h)
  simp only [runBody]
  congr 1
  cases hcs : (callStep (runBody callee) sch to fund rs pr ctx s).1 with
  | mk w cnt => rw [hcs] at hw; simp at hw; simp [hw]

/-- non-vacuity: the reverting middle frame of the example tree is such a failing callee (with a successful child) -/
example : (callStep (runBody (middle false)) .call B 3 1 {} ctxA s0).2.success = false := by decide

/-! ### success_persists -/

/-- **success_persists** (one instruction): when the callee succeeds nothing is restored — the caller continues from the
callee's end state (which includes the value transfer made before it ran). -/
theorem success_persists (run : Ctx → St → St × Outcome) (sch : Scheme) (to fund rs : Nat) (pr : Prank) (ctx : Ctx) (s : St)
    (hi : ¬ callInsufficient sch fund pr ctx s) (hc : (s.w.code to).isSome)
    (h : (guarded run (mkMessage sch to (fundOf sch fund) pr ctx) (afterSend sch to fund pr ctx s)).2.isSuccess = true) :
    (callStep run sch to fund rs pr ctx s).1
      = (guarded run (mkMessage sch to (fundOf sch fund) pr ctx) (afterSend sch to fund pr ctx s)).1 := by
  rw [callStep_known run sch to fund rs pr ctx s hi hc, finishCall_st, if_pos h]

/-- a successful CREATE keeps the init frame's end state and installs the returned bytes as the new account's code -/
theorem success_persists_create (run : Ctx → St → St × Outcome) (a2 : Option Addr) (v : Nat) (pr : Prank) (ctx : Ctx) (s : St)
    (hi : ¬ createInsufficient v pr ctx s) (hc : ¬ (s.w.code (createAddr a2 s)).isSome) (code : Bytes)
    (h : (guarded run (mkCreateMessage (createAddr a2 s) v pr ctx) (createStart a2 v pr ctx s)).2 = .ret code) :
    let r := guarded run (mkCreateMessage (createAddr a2 s) v pr ctx) (createStart a2 v pr ctx s)
    (createStep run a2 v pr ctx s).1 = { r.1 with w := { r.1.w with code := upd r.1.w.code (createAddr a2 s) (some code) } } := by
  intro r
  rw [createStep_runs run a2 v pr ctx s hi hc]
  simp only [finishCreate, r, h]

/-- **success_persists** (whole frames): the end state of a non-static straight-line frame is exactly the left-to-right
composition of its actions' contributions (`Act.effect`: an instruction's own write; a successful sub-frame's whole end
state; nothing but the counter advance for a failed sub-frame) — sub-frames being arbitrary trees. -/
theorem success_persists_frame (acts : List Act) (o : Outcome) (ctx : Ctx) (hns : ctx.isStatic = false) (s : St) :
    runBody (ofScript acts o) ctx s = (acts.foldl (fun s a => Act.effect ctx s a) s, o) :=
  runBody_ofScript acts o ctx hns s

example : (guarded (runBody (middle true)) (mkMessage .call B (fundOf .call 3) {} ctxA) (afterSend .call B 3 {} ctxA s0)).2.isSuccess
    = true := by decide

/-! ### caller_sees -/

/-- **caller_sees**: for a call that runs code, the pushed flag is 1 iff the callee succeeded (else 0), the returndata
buffer is the callee's output (RETURN or REVERT data, empty for exceptional halts), and the memory copy is its first
`min(ret_size, len)` bytes. -/
theorem caller_sees (run : Ctx → St → St × Outcome) (sch : Scheme) (to fund rs : Nat) (pr : Prank) (ctx : Ctx) (s : St)
    (hi : ¬ callInsufficient sch fund pr ctx s) (hc : (s.w.code to).isSome) :
    let out := (guarded run (mkMessage sch to (fundOf sch fund) pr ctx) (afterSend sch to fund pr ctx s)).2
    let seen := (callStep run sch to fund rs pr ctx s).2
    seen.flag = (if out.isSuccess then 1 else 0) ∧ seen.returndata = out.data ∧
      seen.memCopy = out.data.take (min rs out.data.length) := by
  intro out seen
  show (callStep run sch to fund rs pr ctx s).2.flag = _ ∧ (callStep run sch to fund rs pr ctx s).2.returndata = _ ∧
    (callStep run sch to fund rs pr ctx s).2.memCopy = _
  rw [callStep_known run sch to fund rs pr ctx s hi hc, finishCall_seen]
  exact ⟨rfl, rfl, rfl⟩

/-- a call to an account without code succeeds with empty returndata and touches no memory -/
theorem caller_sees_unknown (run : Ctx → St → St × Outcome) (sch : Scheme) (to fund rs : Nat) (pr : Prank) (ctx : Ctx) (s : St)
    (hi : ¬ callInsufficient sch fund pr ctx s) (hc : s.w.code to = none) :
    (callStep run sch to fund rs pr ctx s).2 = { success := true, flag := 1, returndata := [], memCopy := [] } := by
  rw [callStep_unknown run sch to fund rs pr ctx s hi hc]

/-- CREATE: the new address is pushed and the returndata buffer reads as EMPTY after success; 0 is pushed and the
returndata buffer holds the init frame's output after failure; memory is never written -/
theorem caller_sees_create (run : Ctx → St → St × Outcome) (a2 : Option Addr) (v : Nat) (pr : Prank) (ctx : Ctx) (s : St)
    (hi : ¬ createInsufficient v pr ctx s) (hc : ¬ (s.w.code (createAddr a2 s)).isSome) :
    let out := (guarded run (mkCreateMessage (createAddr a2 s) v pr ctx) (createStart a2 v pr ctx s)).2
    let seen := (createStep run a2 v pr ctx s).2
    seen.flag = (if out.isSuccess then createAddr a2 s else 0) ∧
      seen.returndata = (if out.isSuccess then [] else out.data) ∧ seen.memCopy = [] := by
  intro out seen
  show (createStep run a2 v pr ctx s).2.flag = _ ∧ (createStep run a2 v pr ctx s).2.returndata = _ ∧
    (createStep run a2 v pr ctx s).2.memCopy = _
  rw [createStep_runs run a2 v pr ctx s hi hc]
  simp only [finishCreate, out]
  split <;> simp_all [Outcome.isSuccess]

/-- the continuation of the calling frame receives exactly that record, and the state after the instruction -/
theorem caller_continues (sch : Scheme) (to fund rs : Nat) (pr : Prank) (callee : Frame) (k : Seen → Frame) (ctx : Ctx) (s : St) :
    runBody (.call sch to fund rs pr callee k) ctx s
      = runBody (k (callStep (runBody callee) sch to fund rs pr ctx s).2) ctx (callStep (runBody callee) sch to fund rs pr ctx s).1 := by
  simp only [runBody]

example : (callStep (runBody (middle false)) .call B 3 1 {} ctxA s0).2
    = { success := false, flag := 0, returndata := [1, 0xde], memCopy := [1] } := by decide

/-! ### frame_context -/

/-- **frame_context**: the callee's context is `mkMessage …` (the probe callee returns it to its caller), and
`mkMessage` is the Yellow-Paper table (no prank active):
CALL: this = to, caller = the calling account, value = the value passed, code of `to`, staticness inherited;
STATICCALL: the same with value 0 and static;
DELEGATECALL: this / caller / value of the parent, code of `to`;
CALLCODE: this = caller = the calling account, value passed, code of `to`. -/
theorem frame_context (sch : Scheme) (to fund rs : Nat) (pr : Prank) (ctx : Ctx) (s : St)
    (hi : ¬ callInsufficient sch fund pr ctx s) (hc : (s.w.code to).isSome) (hd : ¬ ctx.depth + 1 > MAX_CALL_DEPTH) :
    (callStep (runBody probe) sch to fund rs pr ctx s).2.returndata = report (mkMessage sch to (fundOf sch fund) pr ctx) := by
  rw [callStep_known _ sch to fund rs pr ctx s hi hc, finishCall_seen, guarded_ok _ _ _ (by simpa [mkMessage] using hd)]
  rfl

theorem frame_context_table (to fund : Nat) (ctx : Ctx) :
    mkMessage .call to (fundOf .call fund) {} ctx
      = { this := to, caller := ctx.this, origin := ctx.origin, value := fund, codeAddr := to,
          isStatic := ctx.isStatic, depth := ctx.depth + 1 } ∧
    mkMessage .staticcall to (fundOf .staticcall fund) {} ctx
      = { this := to, caller := ctx.this, origin := ctx.origin, value := 0, codeAddr := to,
          isStatic := true, depth := ctx.depth + 1 } ∧
    mkMessage .delegatecall to (fundOf .delegatecall fund) {} ctx
      = { this := ctx.this, caller := ctx.caller, origin := ctx.origin, value := ctx.value, codeAddr := to,
          isStatic := ctx.isStatic, depth := ctx.depth + 1 } ∧
    mkMessage .callcode to (fundOf .callcode fund) {} ctx
      = { this := ctx.this, caller := ctx.this, origin := ctx.origin, value := fund, codeAddr := to,
          isStatic := ctx.isStatic, depth := ctx.depth + 1 } := by
  simp [mkMessage, fundOf]

/-- CREATE: this = the new address, caller = the creating account, value passed, not static (even … it cannot be
reached from a static frame), own (init) code -/
theorem frame_context_create (a2 : Option Addr) (v : Nat) (ctx : Ctx) (s : St)
    (hi : ¬ createInsufficient v {} ctx s) (hc : ¬ (s.w.code (createAddr a2 s)).isSome) (hd : ¬ ctx.depth + 1 > MAX_CALL_DEPTH) :
    (createStep (runBody (.read fun c _ => .done (.revert (report c)))) a2 v {} ctx s).2.returndata
      = report { this := createAddr a2 s, caller := ctx.this, origin := ctx.origin, value := v,
                 codeAddr := createAddr a2 s, isStatic := false, depth := ctx.depth + 1 } := by
  rw [createStep_runs _ a2 v {} ctx s hi hc, guarded_ok _ _ _ (by simpa [mkCreateMessage] using hd)]
  rfl

/-- with an active prank the pranked sender is the callee's caller (and the account that pays) for every scheme but
DELEGATECALL, which keeps the parent's caller; a pranked origin is the callee's origin -/
theorem frame_context_prank (sch : Scheme) (to fund : Nat) (p o : Addr) (ctx : Ctx) :
    (mkMessage sch to fund { sender := some p, origin := some o } ctx).caller = (if sch = .delegatecall then ctx.caller else p) ∧
    (mkMessage sch to fund { sender := some p, origin := some o } ctx).origin = o := by
  cases sch <;> simp [mkMessage]

example : (callStep (runBody probe) .delegatecall B 3 0 {} { ctxA with value := 6 } s0).2.returndata
    = [A, 0xCAFE, 0xCAFE, 6, B, 0, 2] := by decide

example : (callStep (runBody probe) .staticcall B 3 0 {} ctxA s0).2.returndata = [B, A, 0xCAFE, 0, B, 1, 2] := by decide

/-! ### static_enforced -/

/-- **static_enforced**: inside a static frame SSTORE, TSTORE, LOG (`Frame.eff`) and CREATE / CREATE2 halt the frame
with `WriteInStaticContext`, at the state it had (which the caller then discards, by `atomic`). -/
theorem static_enforced (ctx : Ctx) (s : St) (h : ctx.isStatic = true) :
    (∀ e rest, runBody (.eff e rest) ctx s = (s, .fail .writeInStatic)) ∧
    (∀ a2 v pr init k, runBody (.create a2 v pr init k) ctx s = (s, .fail .writeInStatic)) := by
  constructor
  · intro e rest; simp only [runBody, h, if_true]
  · intro a2 v pr init k; simp only [runBody, h, if_true]

/-- seen from the caller: a STATICCALL (or any call made from a static frame) to code that starts with such an
instruction pushes 0 and leaves the world as it was -/
theorem static_enforced_caller (sch : Scheme) (to fund rs : Nat) (pr : Prank) (ctx : Ctx) (s : St) (callee : Frame)
    (hst : ctx.isStatic = true ∨ sch = .staticcall)
    (hw : (∃ e rest, callee = .eff e rest) ∨ (∃ a2 v p init k, callee = .create a2 v p init k))
    (hc : (s.w.code to).isSome) :
    (callStep (runBody callee) sch to fund rs pr ctx s).2.flag = 0 ∧
    (callStep (runBody callee) sch to fund rs pr ctx s).1.w = s.w := by
  have hflag : (callStep (runBody callee) sch to fund rs pr ctx s).2.success = false := by
    by_cases hi : callInsufficient sch fund pr ctx s
    · rw [callStep_insufficient _ sch to fund rs pr ctx s hi]; rfl
    · rw [callStep_known _ sch to fund rs pr ctx s hi hc, finishCall_seen]
      have hms : (mkMessage sch to (fundOf sch fund) pr ctx).isStatic = true := by
        rcases hst with h | h
        · exact mkMessage_static sch to _ pr ctx h
        · subst h; exact mkMessage_staticcall to _ pr ctx
      show (guarded (runBody callee) _ _).2.isSuccess = false
      unfold guarded; split
      · rfl
      · rcases hw with ⟨e, rest, rfl⟩ | ⟨a2, v, p, init, k, rfl⟩
        · rw [(static_enforced _ _ hms).1]; rfl
        · rw [(static_enforced _ _ hms).2]; rfl
  exact ⟨(flag_zero_iff ..).mpr hflag, atomic _ sch to fund rs pr ctx s hflag⟩

/-
Full statement (what the EVM guarantees): a frame running in a static context never changes the world,
    ∀ f ctx s, ctx.isStatic = true → (runBody f ctx s).1.w = s.w.
It is FALSE of the current code: `send_callvalue` has no static-context check for a value-bearing CALL
(`# TODO: revert if context is static`), see `static_value_call_cex`. What does hold for every tree:
-/

/-- **static_world_partial**: a static frame — any tree — leaves code, storage and transient storage untouched, and,
when no CALL in the tree carries value, the balances too (so then the whole world). -/
theorem static_world_partial (f : Frame) (ctx : Ctx) (s : St) (h : ctx.isStatic = true) :
    (runBody f ctx s).1.w.code = s.w.code ∧ (runBody f ctx s).1.w.storage = s.w.storage ∧
    (runBody f ctx s).1.w.transient = s.w.transient ∧ (NoValueCall f → (runBody f ctx s).1.w = s.w) := by
  obtain ⟨h1, h2, h3⟩ := runBody_static_same3 f ctx s h
  exact ⟨h1, h2, h3, fun hn => W.ext' h1 h2 h3 (runBody_static_balance f ctx s h hn)⟩

/-- **static_value_call_cex**: the full statement is false of the code as it is — a value-bearing CALL inside a static
frame succeeds and moves balance. (Replayed on the real SEVM by the harness: corpus case "static-call-with-value".) -/
theorem static_value_call_cex : ¬ (∀ (f : Frame) (ctx : Ctx) (s : St), ctx.isStatic = true → (runBody f ctx s).1.w = s.w) := by
  intro hall
  have h := congrArg (fun w => w.balance 0x2222) (hall svcCallee svcStaticCtx ⟨svcWorld, 0⟩ rfl)
  revert h; decide

/-- the whole scenario: 0x1000 STATICCALLs 0x2000, which sends 1 wei to 0x2222: the STATICCALL reports success, the inner
CALL reported success, and the balance has moved -/
example :
    let main : Frame := .call .staticcall 0x2000 0 32 {} svcCallee fun seen => .done (.ret (seen.flag :: seen.returndata))
    let r := runFrame main { this := 0x1000, caller := 0xCAFE, origin := 0xCAFE, value := 0, codeAddr := 0x1000, isStatic := false, depth := 1 }
      ⟨svcWorld, 0⟩
    (r.2, r.1.w.balance 0x2000, r.1.w.balance 0x2222) = (.ret [1, 1], 0, 1) := by decide

example : (runBody inner svcStaticCtx s0) = (s0, .fail .writeInStatic) := (static_enforced svcStaticCtx s0 rfl).1 _ _

/-! ### value_conserved -/

/-- **value_conserved**: for every tree, the sum of the balances over any duplicate-free address list `S` that
contains every address the run can touch — the running account, every call target, pranked sender and CREATE2 address
named in the tree (`Closed`), and the addresses the allocator hands out during this run — is unchanged, provided the
sum fits a word (otherwise the recipient's addition wraps, as in the code). Transfers happen only when the sender's
balance covers them, and failed frames restore. -/
theorem value_conserved (S : List Addr) (hS : S.Nodup) (f : Frame) (ctx : Ctx) (s : St)
    (hthis : ctx.this ∈ S) (hcl : Closed S f) (hlt : sumBal S s.w.balance < WORD)
    (halloc : ∀ n, s.cnt < n → n ≤ (runBody f ctx s).1.cnt → newAddress n ∈ S) :
    sumBal S (runBody f ctx s).1.w.balance = sumBal S s.w.balance :=
  runBody_sum hS f ctx s hthis hcl hlt halloc

/-- the same for a whole frame including its depth check -/
theorem value_conserved_frame (S : List Addr) (hS : S.Nodup) (f : Frame) (ctx : Ctx) (s : St)
    (hthis : ctx.this ∈ S) (hcl : Closed S f) (hlt : sumBal S s.w.balance < WORD)
    (halloc : ∀ n, s.cnt < n → n ≤ (runBody f ctx s).1.cnt → newAddress n ∈ S) :
    sumBal S (runFrame f ctx s).1.w.balance = sumBal S s.w.balance := by
  unfold runFrame guarded; split
  · rfl
  · exact runBody_sum hS f ctx s hthis hcl hlt halloc

example : (let r := runBody mover ctxA s0
    ([r.1.w.balance A, r.1.w.balance B, r.1.w.balance C, r.1.w.balance (newAddress 1)], r.1.cnt)) = ([3, 1, 2, 4], 1) := by decide

example : Closed [A, B, C, newAddress 1] mover := by
  simp [mover, Closed, A, B, C, newAddress, magicAddress, newAddressOffset]

example : sumBal [A, B, C, newAddress 1] (runBody mover ctxA s0).1.w.balance = 10 := by decide

/-! ### insufficient_fails -/

/-- **insufficient_fails**: a value-bearing CALL / CALLCODE whose (pranked) sender owns less than the value pushes 0 with
empty returndata, changes nothing — and runs no callee code: the result is the same for every callee behaviour. -/
theorem insufficient_fails (run : Ctx → St → St × Outcome) (sch : Scheme) (to fund rs : Nat) (pr : Prank) (ctx : Ctx) (s : St)
    (hs : sch = .call ∨ sch = .callcode) (h0 : fund ≠ 0) (hlt : s.w.balance (pr.sender.getD ctx.this) < fund) :
    callStep run sch to fund rs pr ctx s = (s, { success := false, flag := 0, returndata := [], memCopy := [] }) := by
  apply callStep_insufficient
  rcases hs with rfl | rfl <;> exact ⟨h0, hlt⟩

/-- the same for CREATE / CREATE2: 0 is pushed, the world is unchanged (the address counter has advanced for CREATE) -/
theorem insufficient_fails_create (run : Ctx → St → St × Outcome) (a2 : Option Addr) (v : Nat) (pr : Prank) (ctx : Ctx) (s : St)
    (h0 : v ≠ 0) (hlt : s.w.balance (pr.sender.getD ctx.this) < v) :
    createStep run a2 v pr ctx s = (createBump a2 s, { success := false, flag := 0, returndata := [], memCopy := [] }) ∧
    (createBump a2 s).w = s.w :=
  ⟨createStep_insufficient run a2 v pr ctx s ⟨h0, hlt⟩, createBump_w a2 s⟩

/-- conversely, lack of funds is the only way a call to an account without code can fail -/
theorem sufficient_unknown_succeeds (run : Ctx → St → St × Outcome) (sch : Scheme) (to fund rs : Nat) (pr : Prank) (ctx : Ctx)
    (s : St) (hc : s.w.code to = none) :
    (callStep run sch to fund rs pr ctx s).2.flag = 0 ↔ callInsufficient sch fund pr ctx s := by
  by_cases hi : callInsufficient sch fund pr ctx s
  · rw [callStep_insufficient run sch to fund rs pr ctx s hi]; simp [Seen.failedEmpty, hi]
  · rw [callStep_unknown run sch to fund rs pr ctx s hi hc]; simp [hi]

example : callStep (runBody inner) .call B 11 32 {} ctxA s0 = (s0, Seen.failedEmpty) :=
  insufficient_fails _ .call B 11 32 {} ctxA s0 (Or.inl rfl) (by decide) (by decide)

/-! ### depth limit -/

/-- a frame deeper than `MAX_CALL_DEPTH` halts at its first step; its caller sees a failed call and an unchanged world -/
theorem depth_limit (f : Frame) (ctx : Ctx) (s : St) (h : ctx.depth > MAX_CALL_DEPTH) :
    runFrame f ctx s = (s, .fail .depthLimit) := guarded_deep _ ctx s h

theorem depth_limit_caller (run : Ctx → St → St × Outcome) (sch : Scheme) (to fund rs : Nat) (pr : Prank) (ctx : Ctx) (s : St)
    (hc : (s.w.code to).isSome) (h : ctx.depth ≥ MAX_CALL_DEPTH) :
    (callStep run sch to fund rs pr ctx s).2.flag = 0 ∧ (callStep run sch to fund rs pr ctx s).1.w = s.w := by
  have hflag : (callStep run sch to fund rs pr ctx s).2.success = false := by
    by_cases hi : callInsufficient sch fund pr ctx s
    · rw [callStep_insufficient _ sch to fund rs pr ctx s hi]; rfl
    · rw [callStep_known _ sch to fund rs pr ctx s hi hc, finishCall_seen,
        guarded_deep _ _ _ (by simp only [mkMessage]; omega)]
      rfl
  exact ⟨(flag_zero_iff ..).mpr hflag, atomic _ sch to fund rs pr ctx s hflag⟩

example : (callStep (runBody inner) .call B 0 0 {} { ctxA with depth := 1024 } s0).2.flag = 0 := by decide

/-! ### the model against the reference EVM on concrete call programs

The same behaviour written twice — as EVM bytecode run by `Spec.Evm.exec` (the Yellow-Paper interpreter) and as an
interaction tree run by `runFrame` — gives the same storage, transient storage and balances. (The harness does this
comparison at scale on random trees; these two instances are checked by the kernel.) -/

theorem spec_agrees_revert :
    specObs prog1 [(0x1000, 10)] [(0x1000, 1), (0x1000, 2), (0x1000, 3), (0x1000, 4), (0x2000, 1)] [] [0x1000, 0x2000]
      = some (modelObs tree1 (fun a => if a = 0x1000 ∨ a = 0x2000 then some [] else none) (fun a => if a = 0x1000 then 10 else 0)
          [(0x1000, 1), (0x1000, 2), (0x1000, 3), (0x1000, 4), (0x2000, 1)] [] [0x1000, 0x2000]) := by
  decide +kernel

/-- both sides are the expected values: the callee's write and the 3 wei are rolled back, flag 0, 32 bytes of returndata
holding the value 3 -/
example : modelObs tree1 (fun a => if a = 0x1000 ∨ a = 0x2000 then some [] else none) (fun a => if a = 0x1000 then 10 else 0)
    [(0x1000, 1), (0x1000, 2), (0x1000, 3), (0x1000, 4), (0x2000, 1)] [] [0x1000, 0x2000] = ([5, 0, 32, 3, 0, 10, 0], true) := by
  decide +kernel

theorem spec_agrees_schemes :
    specObs prog2 [(0x1000, 10)] [(0x1000, 2), (0x1000, 3), (0x1000, 4), (0x1000, 5), (0x1000, 6), (0x1000, 7), (0x2000, 7), (0x3000, 1)]
        [(0x3000, 2), (0x1000, 2)] [0x1000, 0x2000, 0x3000]
      = some (modelObs tree2 (fun a => if a = 0x1000 ∨ a = 0x2000 ∨ a = 0x3000 then some [] else none)
          (fun a => if a = 0x1000 then 10 else 0)
          [(0x1000, 2), (0x1000, 3), (0x1000, 4), (0x1000, 5), (0x1000, 6), (0x1000, 7), (0x2000, 7), (0x3000, 1)]
          [(0x3000, 2), (0x1000, 2)] [0x1000, 0x2000, 0x3000]) := by
  decide +kernel

example : modelObs tree2 (fun a => if a = 0x1000 ∨ a = 0x2000 ∨ a = 0x3000 then some [] else none)
    (fun a => if a = 0x1000 then 10 else 0)
    [(0x1000, 2), (0x1000, 3), (0x1000, 4), (0x1000, 5), (0x1000, 6), (0x1000, 7), (0x2000, 7), (0x3000, 1)]
    [(0x3000, 2), (0x1000, 2)] [0x1000, 0x2000, 0x3000]
    = ([1, 2, 0xab * 2 ^ 248, 0, 1, 0xCAFE, 0, 4, 0x3000, 0, 6, 0, 4], true) := by
  decide +kernel

end HalmosVerif.Props.C09
