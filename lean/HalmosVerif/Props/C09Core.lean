/-
Props.C09Core — "message calls are atomic and see the right context", on the exploration core itself: the frame-stack
machine `runC` of Model.SevmCalls (the machine `C01.sound_calls` / `C02.complete_calls` are about), next to the
call-tree model of Props.C09.

Three layers, each about the same two facts:
  * on the model: when a callee fails, the caller is resumed with the maps of every account and the world's log as
    they were when the call was made (`atomic_model`, with `snapshot_model`: what was saved *is* the state at the call,
    and `conts_discipline`: nothing touches a suspended caller while its callee — and whatever that calls — runs); the
    context of a callee per call kind (`context_table_model`);
  * on the reference (`Spec.Evm.exec`): the same two facts (`atomic_spec`, `context_table_spec`);
  * the link (the simulation used by `C01.sound_calls` / `C02.complete_calls`): the resumed model state is related to
    the reference's resumed caller, whose world is the call-time world (`atomic_sim`); the callee's symbolic context
    denotes the reference callee's (`context_sim`). Through `C01.sound_calls` every reported end of `runC` therefore
    describes a final world in which the writes and events of failed callees are absent, and through
    `C02.complete_calls` no concrete run with a failing callee is lost.
-/
import HalmosVerif.Props.C02

namespace HalmosVerif.Props.C09Core
open HalmosVerif.Model HalmosVerif.Model.Sevm HalmosVerif.Spec HalmosVerif.Lemmas.Sevm HalmosVerif.Lemmas.Word
open HalmosVerif.Props.C01 (exEnv exI exOracle exF0 exPC exWC)

/-! ### atomicity on the model -/

/-- **atomic_model.** The running frame is a callee (`cs.conts = k :: ks`) and ends with an untagged halt that is not
    a success (REVERT, INVALID, a failed check, …): the path continues with exactly one state, the caller `k`, with
      * the storage and transient-storage maps of *every* account as saved at the call (`k.snapshot`), and the world's
        log and the balance array as saved at the call (`k.snapLogs`, `k.snapBal`) — whatever the callee and its own
        callees wrote, emitted or transferred (the call's own value included) is gone;
      * the flag 0 on the stack, the callee's data as return data, its first `min(ret_size, len)` bytes in the return
        area, the pc one further;
      * the path conditions and the rest of the suspended callers as they are. -/
theorem atomic_model (cs : CState) (k : Cont) (ks : List Cont) (hc : cs.conts = k :: ks) (e : EndState)
    (h : Evm.Halt) (ho : e.out = .halt h) (ht : e.tag = .normal) (hf : haltOk h = false)
    (hk : k.create = none) :
    ∃ cs', (frameEnd cs e).next = [cs'] ∧ (frameEnd cs e).ends = [] ∧
      (∀ a, viewOf cs' a = stoOf k.snapshot a) ∧ cs'.stores = k.snapshot ∧ cs'.logs = k.snapLogs ∧
      cs'.bal = k.snapBal ∧ cs'.st.stack = .bv 256 (.con 0) :: k.st.stack ∧ cs'.st.returndata = haltData h e.data ∧
      cs'.st.mem = writeMem k.st.mem k.retLoc ((haltData h e.data).take (min k.retSize (haltData h e.data).length)) ∧
      cs'.st.pc = k.st.pc + 1 ∧ cs'.st.path = e.st.path ∧ cs'.conts = ks ∧ cs'.this = k.this ∧ cs'.env = k.env ∧
      cs'.code = k.code := by
  rw [frameEnd_resume hc ho ht hk]
  refine ⟨_, rfl, rfl, fun a => ?_, ?_, ?_, ?_, ?_, rfl, rfl, rfl, rfl, rfl, rfl, rfl, rfl⟩
  · simp only [viewOf, resume, hf, Bool.false_eq_true, if_false]
    exact view_eta _ _ a
  · simp [resume, hf]
  · simp [resume, hf]
  · simp [resume, hf]
  · simp [resume, hf]

/-- the successful counterpart: everything the callee did persists (`fullOf`: its maps written back), flag 1 -/
theorem success_model (cs : CState) (k : Cont) (ks : List Cont) (hc : cs.conts = k :: ks) (e : EndState)
    (h : Evm.Halt) (ho : e.out = .halt h) (ht : e.tag = .normal) (hf : haltOk h = true)
    (hk : k.create = none) :
    ∃ cs', (frameEnd cs e).next = [cs'] ∧
      (∀ a, viewOf cs' a = stoOf (fullOf cs e) a) ∧ cs'.logs = cs.logs ∧ cs'.bal = cs.bal ∧
      cs'.st.stack = .bv 256 (.con 1) :: k.st.stack ∧ cs'.st.returndata = haltData h e.data := by
  rw [frameEnd_resume hc ho ht hk]
  refine ⟨_, rfl, fun a => ?_, ?_, ?_, ?_, rfl⟩
  · simp only [viewOf, resume, hf, if_true]
    exact view_eta _ _ a
  · simp [resume, hf]
  · simp [resume, hf]
  · simp [resume, hf]

/-- **snapshot_model.** What `call_known` saves in the suspended caller is the state at the call: the maps of every
    account as the caller saw them (its own written back), the world's log, the return area; and the callee starts
    in that very state. -/
theorem snapshot_model (s : Simp) (cs : CState) (op t ao al ro rl : Nat) (rest : List HV) (prog : List Nat) :
    ∃ k, (calleeOf s cs op t ao al ro rl rest prog).conts = k :: cs.conts ∧
      (∀ a, stoOf k.snapshot a = viewOf cs a) ∧ k.snapLogs = cs.logs ∧ k.snapBal = cs.bal ∧ k.this = cs.this ∧
      k.env = cs.env ∧ k.create = none ∧
      k.code = cs.code ∧ k.retLoc = ro ∧ k.retSize = rl ∧ k.st = { cs.st with stack := rest } ∧
      (∀ a, viewOf (calleeOf s cs op t ao al ro rl rest prog) a = viewOf cs a) ∧
      (calleeOf s cs op t ao al ro rl rest prog).logs = cs.logs ∧
      (calleeOf s cs op t ao al ro rl rest prog).st.path = cs.st.path := by
  have hsto : ∀ a, stoOf (stoSet cs.stores cs.this
      { storage := cs.st.storage, transient := cs.st.transient }) a = viewOf cs a := by
    intro a; rw [stoOf_stoSet]; rfl
  refine ⟨_, rfl, hsto, rfl, rfl, rfl, rfl, rfl, rfl, rfl, rfl, rfl, fun a => ?_, rfl, rfl⟩
  have : viewOf (calleeOf s cs op t ao al ro rl rest prog) a =
      stoOf (stoSet cs.stores cs.this { storage := cs.st.storage, transient := cs.st.transient }) a :=
    view_eta _ _ a
  exact this.trans (hsto a)

/-- call, then fail at once: the caller's view of every account and the log are what they were (the two lemmas above
    composed; `conts_discipline` extends it to any number of steps in between) -/
theorem atomic_roundtrip (s : Simp) (cs : CState) (op t ao al ro rl : Nat) (rest : List HV) (prog : List Nat)
    (e : EndState) (h : Evm.Halt) (ho : e.out = .halt h) (ht : e.tag = .normal) (hf : haltOk h = false) :
    ∃ cs', (frameEnd (calleeOf s cs op t ao al ro rl rest prog) e).next = [cs'] ∧
      (∀ a, viewOf cs' a = viewOf cs a) ∧ cs'.logs = cs.logs ∧ cs'.bal = cs.bal ∧ cs'.conts = cs.conts ∧
      cs'.this = cs.this := by
  obtain ⟨k, hk, hsnap, hlg, hbl, hthis, _, hkc, _⟩ := snapshot_model s cs op t ao al ro rl rest prog
  obtain ⟨cs', h1, _, hv, _, hl, hb, _, _, _, _, _, hc, ht', _⟩ :=
    atomic_model (calleeOf s cs op t ao al ro rl rest prog) k cs.conts hk e h ho ht hf hkc
  exact ⟨cs', h1, fun a => (hv a).trans (hsnap a), hl.trans hlg, hb.trans hbl, hc, ht'.trans hthis⟩

/-- **conts_discipline.** One step of the frame-stack machine keeps the suspended callers, pushes one on top (a call)
    or pops the top one (the running frame ended): a suspended caller — its state, its snapshot — is never modified
    while its callee, and whatever that calls, runs. -/
theorem conts_discipline {s : Simp} {o : Oracle} {cfg : Cfg} {codes : List (Nat × List Nat)} {cs cs' : CState}
    (h : cs' ∈ (stepC s o cfg codes cs).next) :
    cs'.conts = cs.conts ∨ (∃ k, cs'.conts = k :: cs.conts) ∨ (∃ k, cs.conts = k :: cs'.conts) :=
  stepC_conts h

/-! ### CREATE on the model (`Cfg.create` on; no simulation yet — see the header of Model.SevmCalls) -/

/-- **create_frame_model.** The constructor frame: the new account exists with empty code and empty maps, the frame
    runs the init code from pc 0 with no calldata, the creator as caller, not static; the creator is suspended as the
    creator of `addr` with the snapshot of every account's maps, the log and the given balances. -/
theorem create_frame_model (s : Simp) (cs : CState) (addr : Nat) (rest : List HV) (init : List Nat) (cv : T)
    (sb : List (T × T)) :
    ∃ k, (createFrame s cs addr rest init cv sb).conts = k :: cs.conts ∧ k.create = some addr ∧
      (∀ a, stoOf k.snapshot a = viewOf cs a) ∧ k.snapLogs = cs.logs ∧ k.snapBal = sb ∧ k.this = cs.this ∧
      k.st = { cs.st with stack := rest } ∧
      (createFrame s cs addr rest init cv sb).code = init ∧ (createFrame s cs addr rest init cv sb).this = addr ∧
      (createFrame s cs addr rest init cv sb).st.pc = 0 ∧
      (createFrame s cs addr rest init cv sb).env.cdSize = 0 ∧
      (createFrame s cs addr rest init cv sb).env.caller = cs.env.address ∧
      (createFrame s cs addr rest init cv sb).env.callvalue = cv ∧
      (createFrame s cs addr rest init cv sb).env.isStatic = false ∧
      codeOf (createFrame s cs addr rest init cv sb).created addr = some [] ∧
      (createFrame s cs addr rest init cv sb).st.storage = [] ∧
      (createFrame s cs addr rest init cv sb).nonce = cs.nonce ∧
      (createFrame s cs addr rest init cv sb).st.path = cs.st.path := by
  have hsto : ∀ a, stoOf (stoSet cs.stores cs.this
      { storage := cs.st.storage, transient := cs.st.transient }) a = viewOf cs a := by
    intro a; rw [stoOf_stoSet]; rfl
  refine ⟨_, rfl, rfl, hsto, rfl, rfl, rfl, rfl, rfl, rfl, rfl, rfl, rfl, rfl, rfl, ?_, rfl, rfl, rfl⟩
  simp [createFrame, codeOf]

/-- **create_fail_model.** The constructor of `addr` ends with an untagged halt that is not a success: exactly one
    successor, the creator, with 0 pushed, the revert data as return data, memory untouched, and everything rolled
    back — maps, log, balances, and the set of created accounts (the account is gone); only the attempt counter and the
    path conditions stay. -/
theorem create_fail_model (cs : CState) (k : Cont) (ks : List Cont) (hc : cs.conts = k :: ks) (e : EndState)
    (h : Evm.Halt) (ho : e.out = .halt h) (ht : e.tag = .normal) (hf : haltOk h = false) (addr : Nat)
    (hk : k.create = some addr) :
    ∃ cs', (frameEnd cs e).next = [cs'] ∧ (frameEnd cs e).ends = [] ∧
      cs'.stores = k.snapshot ∧ cs'.logs = k.snapLogs ∧ cs'.bal = k.snapBal ∧ cs'.created = k.snapCreated ∧
      cs'.nonce = cs.nonce ∧ cs'.st.stack = .bv 256 (.con 0) :: k.st.stack ∧
      cs'.st.returndata = haltData h e.data ∧ cs'.st.mem = k.st.mem ∧ cs'.st.pc = k.st.pc + 1 ∧
      cs'.st.path = e.st.path ∧ cs'.conts = ks ∧ cs'.this = k.this ∧ cs'.code = k.code := by
  have hfe : frameEnd cs e = createEnd cs (fullOf cs e) k ks h e addr := by
    unfold frameEnd; simp only [hc, ho, ht, hk]; rfl
  rw [hfe]; unfold createEnd; rw [if_neg (by simp [hf])]
  refine ⟨_, rfl, rfl, ?_, ?_, ?_, ?_, rfl, ?_, rfl, rfl, rfl, rfl, rfl, rfl, rfl⟩ <;> simp [resume, hf]

/-- **create_success_model.** The constructor returns concrete bytes: they become the code of `addr`, the address is
    pushed, the return data is empty (EIP-211), memory untouched; maps, log and balances are the constructor's. -/
theorem create_success_model (cs : CState) (k : Cont) (ks : List Cont) (hc : cs.conts = k :: ks) (e : EndState)
    (h : Evm.Halt) (ho : e.out = .halt h) (ht : e.tag = .normal) (hf : haltOk h = true) (addr : Nat)
    (hk : k.create = some addr) (code : List Nat) (hlit : litBytes? e.data = some code) :
    ∃ cs', (frameEnd cs e).next = [cs'] ∧ (frameEnd cs e).ends = [] ∧
      cs'.stores = fullOf cs e ∧ cs'.logs = cs.logs ∧ cs'.bal = cs.bal ∧
      codeOf cs'.created addr = some (code.map (· % 256)) ∧ cs'.nonce = cs.nonce ∧
      cs'.st.stack = .bv 256 (.con addr) :: k.st.stack ∧ cs'.st.returndata = [] ∧ cs'.st.mem = k.st.mem ∧
      cs'.st.pc = k.st.pc + 1 ∧ cs'.st.path = e.st.path ∧ cs'.conts = ks := by
  have hfe : frameEnd cs e = createEnd cs (fullOf cs e) k ks h e addr := by
    unfold frameEnd; simp only [hc, ho, ht, hk]; rfl
  have hce : createEnd cs (fullOf cs e) k ks h e addr =
      { next := [{ (resume (fullOf cs e) cs.logs cs.bal cs.created cs.nonce cs.hsto k ks h e) with st := { (resume (fullOf cs e) cs.logs cs.bal cs.created cs.nonce cs.hsto k ks h e).st with stack := .bv 256 (.con addr) :: k.st.stack, mem := k.st.mem, returndata := [] }, created := (addr, code.map (· % 256)) :: cs.created }] } := by
    unfold createEnd; rw [if_pos hf]; simp only [hlit]
  rw [hfe, hce]
  refine ⟨_, rfl, rfl, ?_, ?_, ?_, ?_, rfl, rfl, rfl, rfl, rfl, rfl, rfl⟩
  · simp [resume, hf, fullOf]
  · simp [resume, hf]
  · simp [resume, hf]
  · simp [codeOf]

/-! ### atomicity on the reference -/

/-- **atomic_spec.** `Spec.Evm.exec`: a zero-value CALL / CALLCODE / DELEGATECALL / STATICCALL that passes the memory
    and depth checks and whose callee terminates *without success* (`r1`): the caller's run is the run of the caller
    resumed in the world as it was at the call — storage, transient storage, logs, code, balances; only the address
    allocator keeps its advance — with 0 on the stack, the callee's data as return data and, truncated to the return
    area, in memory. -/
theorem atomic_spec {p : Evm.Params} {w w1 : Evm.World} {f f1 : Evm.Frame} {kind tgt ao al ro rl : Nat}
    (hs : Evm.step p w f = .call kind w1 f1 tgt 0 ao al ro rl) (hm1 : Evm.memOk p ao al = true)
    (hm2 : Evm.memOk p ro rl = true) (hd : ¬ ((f1.touch ao al).touch ro rl).depth + 1 > p.maxDepth)
    {r1 : Evm.World × Evm.Halt}
    (h1 : Halts p w1 (calleeFrame kind ((f1.touch ao al).touch ro rl) w1 tgt ao al) r1)
    (hfail : r1.2.isSuccess = false) (r : Evm.World × Evm.Halt) :
    Halts p w f r ↔
      Halts p { w1 with created := r1.1.created }
        { (f1.touch ao al).touch ro rl with
            stack := 0 :: ((f1.touch ao al).touch ro rl).stack
            mem := Evm.writeBytes ((f1.touch ao al).touch ro rl).mem ro (r1.2.data.take (min rl r1.2.data.length))
            returndata := r1.2.data
            pc := ((f1.touch ao al).touch ro rl).pc + 1 } r := by
  have hw : resumeWorld ⟨w1, (f1.touch ao al).touch ro rl, ro, rl, none⟩ r1 = { w1 with created := r1.1.created } := by
    simp [resumeWorld, hfail]
  have hf' : resumeFrame ⟨w1, (f1.touch ao al).touch ro rl, ro, rl, none⟩ r1.2 =
      { (f1.touch ao al).touch ro rl with
          stack := 0 :: ((f1.touch ao al).touch ro rl).stack
          mem := Evm.writeBytes ((f1.touch ao al).touch ro rl).mem ro (r1.2.data.take (min rl r1.2.data.length))
          returndata := r1.2.data
          pc := ((f1.touch ao al).touch ro rl).pc + 1 } := by
    simp [resumeFrame, hfail]
  constructor
  · intro hh
    obtain ⟨r1', h1', h2'⟩ := halts_call_inv hs hm1 hm2 hd hh
    have := halts_unique h1' h1
    subst this
    rw [hw, hf'] at h2'
    exact h2'
  · intro h2
    refine halts_call hs hm1 hm2 hd h1 ?_
    rw [hw, hf']; exact h2

/-! ### atomicity: the link -/

/-- **atomic_sim.** In the simulation behind `C01.sound_calls` / `C02.complete_calls`: the running frame is a callee
    or a constructor, related to the concrete frame `f` (suspended concrete callers `kcs`), which terminates with `r1`;
    the model's end state `e` reports `r1` and it is a failure. Then the concrete caller on top of `kcs` resumes in
    *its call-time world* `kc.w` (only the allocator keeps its advance), that world is described by the model's
    snapshot (maps of all modelled accounts, log, balances, created accounts), and the model's resumed state is related
    to the reference's resumed caller. -/
theorem atomic_sim {I : Interp} {p : Evm.Params} {S : Nat → Prop} {w0 : Evm.World} {cs : CState} {w : Evm.World}
    {f : Evm.Frame} {kcs : List CCont} (hrel : RelC I p S w0 cs w f kcs) {k : Cont} {ks : List Cont}
    (hc : cs.conts = k :: ks) {r1 : Evm.World × Evm.Halt} (hh : Halts p w f r1) {h : Evm.Halt} {e : EndState}
    (hres : haltWith h (e.data.map (·.eval I)) = r1.2) (hdwf : ∀ b ∈ e.data, b.WF ∧ b.width = 8)
    (hk : Keeps e.st cs.st)
    (hW : WRelM I S (wd w0 cs.created cs.nonce) r1.1 (stoOf (fullOf cs e)) (evalLogs I cs.logs)
      (balSem I w0 cs.bal)) (hHr : HRel I p S r1.1 cs.hsto)
    (hf : haltOk h = false) :
    ∃ kc kcs', kcs = kc :: kcs' ∧ resumeWorld kc r1 = { kc.w with created := r1.1.created } ∧
      WRelM I S (wd w0 k.snapCreated cs.nonce) (resumeWorld kc r1) (stoOf k.snapshot) (evalLogs I k.snapLogs)
        (balSem I w0 k.snapBal) ∧
      (∀ cs' ∈ (frameEndH cs k ks h e).next,
        RelC I p S w0 cs' (resumeWorld kc r1) (resumeFrame kc r1.2) kcs') ∧
      ∀ r, RunStack p w f kcs r ↔ RunStack p (resumeWorld kc r1) (resumeFrame kc r1.2) kcs' r := by
  obtain ⟨kc, kcs', hkcs, hrel', hiff⟩ := (frame_end hrel hh hres hdwf hk hW hHr).2 k ks hc
  have hconts := hrel.conts
  rw [hc, hkcs] at hconts
  cases hconts with
  | cons hk1 _ =>
    have hsucc : r1.2.isSuccess = haltOk h := by rw [← hres, haltWith_isSuccess]
    have hw : resumeWorld kc r1 = { kc.w with created := r1.1.created } := by
      simp only [resumeWorld, hsucc, hf, Bool.false_eq_true, if_false]
    exact ⟨kc, kcs', hkcs, hw, resume_world hk1 hsucc hf hW.created, hrel', hiff⟩

/-! ### the context of a callee -/

/-- **context_table_model.** `address(this)` / the account whose storage is used, `msg.sender`, `msg.value` and the
    static flag of the frame `call_known` starts, per call kind (`t` the target, `cs` the caller):

    | kind         | this / address | msg.sender       | msg.value        | static            |
    | CALL         | t              | caller's address | 0                | inherited         |
    | CALLCODE     | caller's       | caller's address | 0                | inherited         |
    | DELEGATECALL | caller's       | caller's sender  | caller's value   | inherited         |
    | STATICCALL   | t              | caller's address | 0                | true              |

    (value: the literal 0 is the only value the core follows); the code is the target's, the depth one more, the
    origin unchanged, for every kind. -/
theorem context_table_model (s : Simp) (cs : CState) (t ao al ro rl : Nat) (rest : List HV) (prog : List Nat) :
    let c := fun op => calleeOf s cs op t ao al ro rl rest prog
    ((c 0xf1).this = t ∧ (c 0xf1).env.address = .lit 160 t ∧ (c 0xf1).env.caller = cs.env.address ∧
      (c 0xf1).env.callvalue = .lit 256 0 ∧ (c 0xf1).env.isStatic = cs.env.isStatic) ∧
    ((c 0xf2).this = cs.this ∧ (c 0xf2).env.address = cs.env.address ∧ (c 0xf2).env.caller = cs.env.address ∧
      (c 0xf2).env.callvalue = .lit 256 0 ∧ (c 0xf2).env.isStatic = cs.env.isStatic) ∧
    ((c 0xf4).this = cs.this ∧ (c 0xf4).env.address = cs.env.address ∧ (c 0xf4).env.caller = cs.env.caller ∧
      (c 0xf4).env.callvalue = cs.env.callvalue ∧ (c 0xf4).env.isStatic = cs.env.isStatic) ∧
    ((c 0xfa).this = t ∧ (c 0xfa).env.address = .lit 160 t ∧ (c 0xfa).env.caller = cs.env.address ∧
      (c 0xfa).env.callvalue = .lit 256 0 ∧ (c 0xfa).env.isStatic = true) ∧
    (∀ op, (c op).code = prog ∧ (c op).depth = cs.depth + 1 ∧ (c op).env.origin = cs.env.origin ∧
      (c op).env.cdSize = al ∧ (c op).st.pc = 0 ∧ (c op).st.stack = [] ∧ (c op).st.mem = []) := by
  simp [calleeOf, calleeOfG]

/-- **context_table_spec.** The same table for the frame `Spec.Evm.exec` starts. -/
theorem context_table_spec (f : Evm.Frame) (w : Evm.World) (tgt ao al : Nat) :
    let c := fun kind => calleeFrame kind f w tgt ao al
    ((c 0xf1).this = tgt ∧ (c 0xf1).caller = f.this ∧ (c 0xf1).value = 0 ∧ (c 0xf1).isStatic = f.isStatic) ∧
    ((c 0xf2).this = f.this ∧ (c 0xf2).caller = f.this ∧ (c 0xf2).value = 0 ∧ (c 0xf2).isStatic = f.isStatic) ∧
    ((c 0xf4).this = f.this ∧ (c 0xf4).caller = f.caller ∧ (c 0xf4).value = f.value ∧
      (c 0xf4).isStatic = f.isStatic) ∧
    ((c 0xfa).this = tgt ∧ (c 0xfa).caller = f.this ∧ (c 0xfa).value = 0 ∧ (c 0xfa).isStatic = true) ∧
    (∀ kind, (c kind).code = (w.codeOf tgt).getD [] ∧ (c kind).depth = f.depth + 1 ∧
      (c kind).calldata = Evm.readBytes f.mem ao al ∧ (c kind).pc = 0 ∧ (c kind).stack = [] ∧ (c kind).mem = []) := by
  simp [calleeFrame, calleeFrameV]

/-- the value-bearing rows: a CALL / CALLCODE with the value `cv` gives the callee `msg.value = cv` (the model) resp.
    `v` (the reference); DELEGATECALL keeps the caller's value -/
theorem context_table_value (s : Simp) (cs : CState) (t ao al ro rl : Nat) (rest : List HV) (prog : List Nat) (cv : T)
    (sb : List (T × T)) (f : Evm.Frame) (w : Evm.World) (v : Nat) :
    (calleeOfG s cs 0xf1 t ao al ro rl rest prog cv sb).env.callvalue = cv ∧
    (calleeOfG s cs 0xf2 t ao al ro rl rest prog cv sb).env.callvalue = cv ∧
    (calleeOfG s cs 0xf4 t ao al ro rl rest prog cv sb).env.callvalue = cs.env.callvalue ∧
    (calleeFrameV 0xf1 f w t v ao al).value = v ∧ (calleeFrameV 0xf2 f w t v ao al).value = v ∧
    (calleeFrameV 0xf4 f w t v ao al).value = f.value := by
  simp [calleeOfG, calleeFrameV]

/-- **context_sim.** The link: the symbolic context of the model's callee denotes, under every valuation, the context
    of the reference's callee frame — `msg.sender`, `address(this)`, `msg.value`, every calldata word and byte, the
    calldata size, the static flag (`EnvRel`) — for each of the four call kinds, whenever the suspended caller is
    related to the concrete caller `g` (operands popped, memory areas touched). -/
theorem context_sim {I : Interp} {p : Evm.Params} {w : Evm.World} {s : Simp} (hs : SimpSound s) {cs : CState}
    {op t ao al ro rl : Nat} {rest : List HV} {prog : List Nat} {g : Evm.Frame}
    (hRk : R I cs.env cs.code p { cs.st with stack := rest } g)
    (hcall : op = 0xf1 ∨ op = 0xf2 ∨ op = 0xf4 ∨ op = 0xfa) (ht : t < 2 ^ 160) :
    EnvRel I (calleeOf s cs op t ao al ro rl rest prog).env p (calleeFrame op g w t ao al) :=
  calleeOf_envRel hs hRk hcall ht

/-! ### non-vacuity -/

/-- a callee that writes storage and transient storage, emits an event and then reverts; its caller stores the flag.
    callee (0x2000): `sstore(0, 7); tstore(1, 8); log0(0, 0); revert(0, 0)`;
    caller (0x1000): `sstore(5, 9); sstore(1, call(0x2000)); stop` -/
def failCallee : List Nat := [0x60, 7, 0x60, 0, 0x55, 0x60, 8, 0x60, 1, 0x5d, 0x60, 0, 0x60, 0, 0xa0, 0x60, 0, 0x60, 0, 0xfd]
def failCaller : List Nat :=
  [0x60, 9, 0x60, 5, 0x55, 0x60, 0, 0x60, 0, 0x60, 0, 0x60, 0, 0x60, 0, 0x61, 0x20, 0x00, 0x60, 0, 0xf1, 0x60, 1, 0x55, 0x00]
def failCodes : List (Nat × List Nat) := [(0x1000, failCaller), (0x2000, failCallee)]

/-- on the model and on the reference: the callee's storage write, transient write and event are gone, the caller's
    own earlier write persists, the flag is 0 -/
example :
    (runC foldSimp exOracle {} exEnv failCodes 0x1000 100).ends.map (fun ce => (ce.e.out, ce.e.tag)) =
      [(.halt (.success []), .normal)] ∧
    (runC foldSimp exOracle {} exEnv failCodes 0x1000 100).ends.map
        (fun ce => ((stoOf ce.stores 0x2000).storage.map (fun kv => (kv.1, kv.2.eval exI)),
          (stoOf ce.stores 0x2000).transient.map (fun kv => (kv.1, kv.2.eval exI)))) = [([], [])] ∧
    (runC foldSimp exOracle {} exEnv failCodes 0x1000 100).ends.map
        (fun ce => (stoOf ce.stores 0x1000).storage.map (fun kv => (kv.1, kv.2.eval exI))) = [[(1, 0), (5, 9)]] ∧
    (runC foldSimp exOracle {} exEnv failCodes 0x1000 100).ends.map (fun ce => evalLogs exI ce.logs) = [[]] := by
  decide +kernel

example :
    (Evm.exec exPC 60 { exWC with code := failCodes } { exF0 with code := failCaller }).map
        (fun r => (Evm.lookupD r.1.storage (0x2000, 0), Evm.lookupD r.1.transient (0x2000, 1),
          Evm.lookupD r.1.storage (0x1000, 5), Evm.lookupD r.1.storage (0x1000, 1))) = some (0, 0, 9, 0) ∧
    (Evm.exec exPC 60 { exWC with code := failCodes } { exF0 with code := failCaller }).map (fun r => r.1.logs) =
      some [] := by
  decide +kernel

end HalmosVerif.Props.C09Core
