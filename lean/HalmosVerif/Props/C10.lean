/-
Props.C10 — "Incomplete exploration is always reported" — for the exploration core (Model.Sevm: the worklist loop,
`jumpi`'s loop-bound accounting, the `--depth` cut; the `--width` limit and the surfacing of the flags as warnings /
non-PASS statuses live in `__main__.py` and are checked by the harness, not here).

`flagged`: if the run raised no flag (`bounded_loops` empty, no `--depth` warning, model fuel not exhausted) and `I`
satisfies no end state that is an error report or the tagged halt, then the concrete outcome of `I` IS reported by an
end state whose path `I` satisfies: a clean result means every terminating input was explored to its end.
`flagged_calls`: the same for the frame-stack machine with message calls (`runC`); `flagged_calls_create` with CREATE,
`flagged_calls_hsto` with storage cells at mapping / dynamic-array locations followed.
`loop_bound_flag`: whenever `jumpi` does not follow a branch whose check was not `unsat`, it records its jump id.
`concrete_loops_uncut`: a JUMPI whose condition is a literal never reaches `jumpi`: no counter moves, nothing recorded;
`must_uncut`: a condition the oracle classifies `must_true` / `must_false` is followed and never cut nor counted, for
every value of `--loop`, even 0.
-/
import HalmosVerif.Props.C02

namespace HalmosVerif.Props.C10
open HalmosVerif.Model HalmosVerif.Model.Sevm HalmosVerif.Spec HalmosVerif.Lemmas.Sevm HalmosVerif.Lemmas.Word
open HalmosVerif.Props.C01 (exCode exEnv exI exI_std exP exW exF0 exR exOracle exRes)

/-- **C10.flagged.** (the contrapositive packaging of `C02.complete`) -/
theorem flagged {s : Simp} (hs : SimpSound s) {o : Oracle} (ho : OracleSound o) (cfg : Cfg) (env : Env)
    (code : List Nat) (fuel : Nat) (p : Evm.Params) (w : Evm.World) (hmem : cfg.maxMem + 32 ≤ p.memLimit)
    (hcode : ∀ b ∈ code, b < 256) (I : Interp) (hI : I.Std) (f0 : Evm.Frame)
    (hR0 : R I env code p initState f0) (hz : C01.ZeroStorage w f0.this) (n : Nat) (w' : Evm.World) (h : Evm.Halt)
    (hex : Evm.exec p n w f0 = some (w', h))
    (hb : (run s o cfg env code fuel).boundedLoops = []) (hd : (run s o cfg env code fuel).depthCut = false)
    (hf : (run s o cfg env code fuel).outOfFuel = false)
    (herr : ∀ e ∈ (run s o cfg env code fuel).ends, Sat I e.st.path →
      (∀ r, e.out ≠ .stuck r) ∧ e.tag = .normal) :
    ∃ e ∈ (run s o cfg env code fuel).ends, Sat I e.st.path ∧ e.tag = .normal ∧
      (∃ h0, e.out = .halt h0 ∧ haltWith h0 (e.data.map (·.eval I)) = h) ∧
      WRel I w w' f0.this e.st.storage e.st.transient := by
  rcases C02.complete hs ho cfg env code fuel p w hmem hcode I hI f0 hR0 hz n w' h hex with
    ⟨e, hm, hsat, hc⟩ | hb' | hd' | hf'
  · obtain ⟨hns, htag⟩ := herr e hm hsat
    rcases hc with ⟨h0, ho', hw, _, hW⟩ | ⟨r, hr⟩ | ht
    · exact ⟨e, hm, hsat, htag, ⟨h0, ho', hw⟩, hW.1⟩
    · exact absurd hr (hns r)
    · exact absurd htag ht
  · exact absurd hb hb'
  · rw [hd] at hd'; cases hd'
  · rw [hf] at hf'; cases hf'

/-- **C10.flagged_calls.** The same for the frame-stack machine `runC` (message calls; `C01.sound_calls` for what it
    models and the hypotheses): a run that raised no flag and in which `I` satisfies no error report and no tagged end
    reports the concrete outcome of `I` — of the whole transaction, nested calls included — by an end whose path `I`
    satisfies, with the storage maps of all modelled accounts describing the final world. -/
theorem flagged_calls {s : Simp} (hs : SimpSound s) {o : Oracle} (ho : OracleSound o) (cfg : Cfg) (env : Env)
    (codes : List (Nat × List Nat)) (this : Nat) (fuel : Nat) (p : Evm.Params) (w : Evm.World)
    (hmem : cfg.maxMem + 32 ≤ p.memLimit) (hdep : 1024 ≤ p.maxDepth)
    (hcodes : ∀ a, w.codeOf a = codeOf codes a)
    (hcb : ∀ a prog, codeOf codes a = some prog → ∀ b ∈ prog, b < 256)
    (hz : ∀ a, Modelled codes this a → C01.ZeroStorage w a) (hnc : cfg.create = false) (hnh : cfg.hsto = false)
    (I : Interp) (hI : I.Std) (hbal : cfg.balances = true → BalHyp I cfg w)
    (hbound : cfg.balances = true → BalBound w) (hsha : cfg.sha3 = true → ShaInterp I p cfg)
    (hshaok : ∀ cs, VisitedC s o cfg codes (initC env codes this) cs → ShaOK I s cfg cs) (f0 : Evm.Frame)
    (hR0 : R I env ((codeOf codes this).getD []) p initState f0) (hthis : f0.this = this) (hd0 : f0.depth = 0)
    (n : Nat) (w' : Evm.World) (h : Evm.Halt) (hex : Evm.exec p n w f0 = some (w', h))
    (hb : (runC s o cfg env codes this fuel).boundedLoops = [])
    (hd : (runC s o cfg env codes this fuel).depthCut = false)
    (hf : (runC s o cfg env codes this fuel).outOfFuel = false)
    (herr : ∀ ce ∈ (runC s o cfg env codes this fuel).ends, Sat I ce.e.st.path →
      (∀ r, ce.e.out ≠ .stuck r) ∧ ce.e.tag = .normal) :
    ∃ ce ∈ (runC s o cfg env codes this fuel).ends, Sat I ce.e.st.path ∧ ce.e.tag = .normal ∧
      (∃ h0, ce.e.out = .halt h0 ∧ haltWith h0 (ce.e.data.map (·.eval I)) = h) ∧
      WRelM I (Modelled codes this) w w' (stoOf ce.stores) (evalLogs I ce.logs) (balSem I w ce.bal) := by
  rcases C02.complete_calls hs ho cfg env codes this fuel p w hmem hdep hcodes hcb hz hnc hnh I hI hbal hbound hsha hshaok f0 hR0 hthis hd0
      n w' h hex
    with ⟨ce, hm, hsat, hc⟩ | hb' | hd' | hf'
  · obtain ⟨hns, htag⟩ := herr ce hm hsat
    rcases hc with ⟨h0, ho', hw, _, hW⟩ | ⟨r, hr⟩ | ht
    · exact ⟨ce, hm, hsat, htag, ⟨h0, ho', hw⟩, hW.1⟩
    · exact absurd hr (hns r)
    · exact absurd htag ht
  · exact absurd hb hb'
  · rw [hd] at hd'; cases hd'
  · rw [hf] at hf'; cases hf'

/-- **C10.flagged_calls_create.** The same with CREATE followed (see `C01.sound_calls_create` /
    `C02.complete_calls_create`). -/
theorem flagged_calls_create {s : Simp} (hs : SimpSound s) {o : Oracle} (ho : OracleSound o) (cfg : Cfg) (env : Env)
    (codes : List (Nat × List Nat)) (this : Nat) (fuel : Nat) (p : Evm.Params) (w : Evm.World)
    (hmem : cfg.maxMem + 32 ≤ p.memLimit) (hdep : 1024 ≤ p.maxDepth)
    (hcodes : ∀ a, w.codeOf a = codeOf codes a)
    (hcb : ∀ a prog, codeOf codes a = some prog → ∀ b ∈ prog, b < 256)
    (hz : ∀ a, ModelledC cfg codes this a → C01.ZeroStorage w a)
    (hcr : cfg.create = true) (hnh : cfg.hsto = false)
    (hal : ∀ n, p.newAddress (w.created + n) = (cfg.allocBase + n) % 2 ^ 160)
    (hbw : ∀ a, w.balanceOf a < 2 ^ 256)
    (I : Interp) (hI : I.Std) (hbal : cfg.balances = true → BalHyp I cfg w)
    (hbound : cfg.balances = true → BalBound w) (hsha : cfg.sha3 = true → ShaInterp I p cfg)
    (hshaok : ∀ cs, VisitedC s o cfg codes (initC env codes this) cs → ShaOK I s cfg cs) (f0 : Evm.Frame)
    (hR0 : R I env ((codeOf codes this).getD []) p initState f0) (hthis : f0.this = this) (hd0 : f0.depth = 0)
    (n : Nat) (w' : Evm.World) (h : Evm.Halt) (hex : Evm.exec p n w f0 = some (w', h))
    (hb : (runC s o cfg env codes this fuel).boundedLoops = [])
    (hd : (runC s o cfg env codes this fuel).depthCut = false)
    (hf : (runC s o cfg env codes this fuel).outOfFuel = false)
    (herr : ∀ ce ∈ (runC s o cfg env codes this fuel).ends, Sat I ce.e.st.path →
      (∀ r, ce.e.out ≠ .stuck r) ∧ ce.e.tag = .normal) :
    ∃ ce ∈ (runC s o cfg env codes this fuel).ends, Sat I ce.e.st.path ∧ ce.e.tag = .normal ∧
      (∃ h0, ce.e.out = .halt h0 ∧ haltWith h0 (ce.e.data.map (·.eval I)) = h) ∧
      WRelM I (ModelledC cfg codes this) (wd w ce.created ce.nonce) w' (stoOf ce.stores) (evalLogs I ce.logs)
        (balSem I w ce.bal) := by
  rcases C02.complete_calls_create hs ho cfg env codes this fuel p w hmem hdep hcodes hcb hz hcr hnh hal hbw I hI hbal hbound hsha hshaok f0 hR0 hthis hd0
      n w' h hex
    with ⟨ce, hm, hsat, hc⟩ | hb' | hd' | hf'
  · obtain ⟨hns, htag⟩ := herr ce hm hsat
    rcases hc with ⟨h0, ho', hw, _, hW⟩ | ⟨r, hr⟩ | ht
    · exact ⟨ce, hm, hsat, htag, ⟨h0, ho', hw⟩, hW.1⟩
    · exact absurd hr (hns r)
    · exact absurd htag ht
  · exact absurd hb hb'
  · rw [hd] at hd'; cases hd'
  · rw [hf] at hf'; cases hf'

/-- **C10.flagged_calls_hsto.** The same with SLOAD / SSTORE at mapping and dynamic-array locations followed
    (`cfg.hsto` on; hypotheses as in `C02.complete_calls_hsto`): the reporting end also describes the hashed cells of
    the final world (`HRel`). -/
theorem flagged_calls_hsto {s : Simp} (hs : SimpSound s) {o : Oracle} (ho : OracleSound o) (cfg : Cfg)
    (hs3 : cfg.sha3 = true) (env : Env)
    (codes : List (Nat × List Nat)) (this : Nat) (fuel : Nat) (p : Evm.Params) (w : Evm.World)
    (SS : Nat → Prop) (hS0 : SS this) (hSc : ∀ a prog, codeOf codes a = some prog → SS a)
    (hmem : cfg.maxMem + 32 ≤ p.memLimit) (hdep : 1024 ≤ p.maxDepth)
    (hcodes : ∀ a, w.codeOf a = codeOf codes a)
    (hcb : ∀ a prog, codeOf codes a = some prog → ∀ b ∈ prog, b < 256)
    (hz : ∀ a, SS a → C01.ZeroStorage w a) (hch : CreateHyp cfg p SS w)
    (I : Interp) (hI : I.Std) (hbal : cfg.balances = true → BalHyp I cfg w)
    (hbound : cfg.balances = true → BalBound w) (hsha : ShaInterp I p cfg) (hez : HEmptyZero I)
    (hshaok : ∀ cs, VisitedC s o cfg codes (initC env codes this) cs → ShaOK I s cfg cs)
    (hhs : ∀ cs, VisitedC s o cfg codes (initC env codes this) cs → Sat I cs.st.path → HstoOK I p s cfg cs)
    (f0 : Evm.Frame)
    (hR0 : R I env ((codeOf codes this).getD []) p initState f0) (hthis : f0.this = this) (hd0 : f0.depth = 0)
    (n : Nat) (w' : Evm.World) (h : Evm.Halt) (hex : Evm.exec p n w f0 = some (w', h))
    (hb : (runC s o cfg env codes this fuel).boundedLoops = [])
    (hd : (runC s o cfg env codes this fuel).depthCut = false)
    (hf : (runC s o cfg env codes this fuel).outOfFuel = false)
    (herr : ∀ ce ∈ (runC s o cfg env codes this fuel).ends, Sat I ce.e.st.path →
      (∀ r, ce.e.out ≠ .stuck r) ∧ ce.e.tag = .normal) :
    ∃ ce ∈ (runC s o cfg env codes this fuel).ends, Sat I ce.e.st.path ∧ ce.e.tag = .normal ∧
      (∃ h0, ce.e.out = .halt h0 ∧ haltWith h0 (ce.e.data.map (·.eval I)) = h) ∧
      WRelM I SS (wd w ce.created ce.nonce) w' (stoOf ce.stores) (evalLogs I ce.logs) (balSem I w ce.bal) ∧
      HRel I p SS w' ce.hsto := by
  rcases C02.complete_calls_hsto hs ho cfg hs3 env codes this fuel p w SS hS0 hSc hmem hdep hcodes hcb hz hch I hI hbal
      hbound hsha hez hshaok hhs f0 hR0 hthis hd0 n w' h hex
    with ⟨ce, hm, hsat, hc⟩ | hb' | hd' | hf'
  · obtain ⟨hns, htag⟩ := herr ce hm hsat
    rcases hc with ⟨h0, ho', hw, _, hW⟩ | ⟨r, hr⟩ | ht
    · exact ⟨ce, hm, hsat, htag, ⟨h0, ho', hw⟩, hW.1, hW.2.2⟩
    · exact absurd hr (hns r)
    · exact absurd htag ht
  · exact absurd hb hb'
  · rw [hd] at hd'; cases hd'
  · rw [hf] at hf'; cases hf'

/-- the two cuts of the frame-stack worklist loop raise their flag, exactly as in `cuts_flagged` -/
theorem cuts_flagged_calls {s : Simp} {o : Oracle} {cfg : Cfg} {codes : List (Nat × List Nat)} (fuel steps : Nat)
    (cs : CState) (wl : List CState) (acc : ResultC) :
    (exploreC s o cfg codes 0 steps (cs :: wl) acc).outOfFuel = true ∧
    (cfg.depth ≠ 0 ∧ steps + 1 > cfg.depth →
      exploreC s o cfg codes (fuel + 1) steps (cs :: wl) acc =
        exploreC s o cfg codes fuel (steps + 1) wl { acc with depthCut := true }) := by
  refine ⟨rfl, fun hd => ?_⟩
  rw [exploreC_succ, if_pos hd]

/-- a call inside a loop: with `--loop 1` the second iteration is cut and the flag is raised; with `--depth 12` the
    worklist is cut and the other flag is raised (caller: `loop: call(0x2000); if calldata[4] goto loop`) -/
example :
    (runC foldSimp exOracle { loop := 1 } exEnv
      [(0x1000, [0x5b, 0x60, 0, 0x60, 0, 0x60, 0, 0x60, 0, 0x60, 0, 0x61, 0x20, 0x00, 0x60, 0, 0xf1, 0x50,
                 0x60, 4, 0x35, 0x60, 0, 0x57, 0x00]), (0x2000, C01.calleeCode)] 0x1000 1000).boundedLoops ≠ [] ∧
    (runC foldSimp exOracle { depth := 12 } exEnv
      [(0x1000, [0x5b, 0x60, 0, 0x60, 0, 0x60, 0, 0x60, 0, 0x60, 0, 0x61, 0x20, 0x00, 0x60, 0, 0xf1, 0x50,
                 0x60, 4, 0x35, 0x60, 0, 0x57, 0x00]), (0x2000, C01.calleeCode)] 0x1000 1000).depthCut = true := by
  decide +kernel

/-- the flags, once raised, are never lowered by the rest of the exploration; end states are never removed -/
theorem flags_persist {s : Simp} {o : Oracle} {cfg : Cfg} {env : Env} {code : List Nat} {I : Interp}
    {w0 : Evm.World} {this : Nat} {r : Evm.World × Evm.Halt}
    (fuel steps : Nat) (wl : List SState) (acc : Result) (hc : Covered I w0 this r acc) :
    Covered I w0 this r (explore s o cfg env code fuel steps wl acc) :=
  explore_mono fuel steps wl acc hc

/-- the two cuts of the worklist loop raise their flag: a state popped after the `--depth` budget is dropped with
    `depthCut`; a non-empty worklist at the end of the model's fuel sets `outOfFuel` -/
theorem cuts_flagged {s : Simp} {o : Oracle} {cfg : Cfg} {env : Env} {code : List Nat} (fuel steps : Nat)
    (st : SState) (wl : List SState) (acc : Result) :
    (explore s o cfg env code 0 steps (st :: wl) acc).outOfFuel = true ∧
    (cfg.depth ≠ 0 ∧ steps + 1 > cfg.depth →
      explore s o cfg env code (fuel + 1) steps (st :: wl) acc =
        explore s o cfg env code fuel (steps + 1) wl { acc with depthCut := true }) := by
  refine ⟨rfl, fun hd => ?_⟩
  rw [explore_succ, if_pos hd]

/-- **loop_bound_flag.** In `jumpi`: a branch whose check is not `unsat` and that is not followed (no successor is that
    branch's successor) and was not swallowed by the tagged halt has its jump id recorded. -/
theorem loop_bound_flag {s : Simp} {o : Oracle} {cfg : Cfg} {code : List Nat} {st : SState} {target : Nat} {c : B}
    {nextPc : Nat} (hno : ∀ e ∈ (jumpi s o cfg code st target c nextPc).ends, e.tag ≠ .jumpiInvalidSym) :
    (exCheck s o st.path (s.b c) ≠ .unsat →
      (∀ st' ∈ (jumpi s o cfg code st target c nextPc).next, ¬ IsTrueSucc s st target c st') →
      (jumpi s o cfg code st target c nextPc).bounded = [jumpId code st]) ∧
    (exCheck s o st.path (s.b (.not (s.b c))) ≠ .unsat →
      (∀ st' ∈ (jumpi s o cfg code st target c nextPc).next, ¬ IsFalseSucc s st nextPc c st') →
      (jumpi s o cfg code st target c nextPc).bounded = [jumpId code st]) := by
  have hnd := C02.unknown_never_discards (s := s) (o := o) (cfg := cfg) (code := code) (st := st)
    (target := target) (c := c) (nextPc := nextPc)
  refine ⟨fun hp hnf => ?_, fun hp hnf => ?_⟩
  · rcases hnd.1 hp with ⟨st', hm, hq⟩ | hb | ⟨e, hm, ht, _⟩
    · exact absurd hq (hnf st' hm)
    · exact hb
    · exact absurd ht (hno e hm)
  · rcases hnd.2 hp with ⟨st', hm, hq⟩ | hb | ⟨e, hm, ht, _⟩
    · exact absurd hq (hnf st' hm)
    · exact hb
    · exact absurd ht (hno e hm)

/-- only `jumpi` ever records a bounded loop, and what it records is its own jump id -/
theorem bounded_only_in_jumpi {s : Simp} {o : Oracle} {cfg : Cfg} {env : Env} {code : List Nat} {st : SState}
    (h : (step s o cfg env code st).bounded ≠ []) :
    ∃ st0 target c nextPc, st0.path = st.path ∧ st0.visits = st.visits ∧
      step s o cfg env code st = jumpi s o cfg code st0 target c nextPc ∧
      (step s o cfg env code st).bounded = [jumpId code st0] := by
  rcases step_bounded_cases (s := s) (o := o) (cfg := cfg) (env := env) (code := code) (st := st) with
    h0 | ⟨st0, target, c, nextPc, hp, hv, e⟩
  · exact absurd h0 h
  · refine ⟨st0, target, c, nextPc, hp, hv, e, ?_⟩
    rw [e] at h ⊢
    rcases jumpi_bounded (s := s) (o := o) (cfg := cfg) (code := code) (st := st0) (target := target) (c := c)
      (nextPc := nextPc) with hb | hb
    · exact absurd hb h
    · exact hb

/-- **concrete_loops_uncut.** A JUMPI whose condition is a literal — a concrete word or a literal Bool — is decided
    without `jumpi`: nothing is recorded in `bounded_loops`, no visit counter changes, and the one successor is the
    branch the literal selects (so a loop with a concrete trip count is unrolled to its end whatever `--loop` is). -/
theorem concrete_loops_uncut {s : Simp} {o : Oracle} {cfg : Cfg} {env : Env} {code : List Nat} {st : SState}
    {tv cv : HV} {rest : List HV} {sz target : Nat} (hop : opAt code st.pc = 0x57)
    (hst : st.stack = tv :: cv :: rest) (ht : toBV256 s tv = .bv sz (.con target)) (b : Bool)
    (hc : cv = .bool (.con b) ∨ ∃ szc n, cv = .bv szc (.con n) ∧ b = (n != 0)) :
    (step s o cfg env code st).bounded = [] ∧
    (∀ st' ∈ (step s o cfg env code st).next, st'.visits = st.visits ∧ st'.path = st.path ∧
        st'.pc = if b then target + 1 else st.pc + 1) ∧
    (b = false ∨ (Evm.validJumpdests code).contains target = true →
        (step s o cfg env code st).next.length = 1) := by
  rw [step_jumpi_literal hop hst ht b hc]
  cases b
  · simp [contOut]
  · by_cases hv : target ∈ Evm.validJumpdests code
    · simp [contOut, hv]
    · simp [haltOut, hv]

/-- **must_uncut.** When `Exec.check` classifies the condition as `must_true` (`sat` / `unsat`) or `must_false`
    (`unsat` / `sat`), `jumpi` records nothing, changes no visit counter, and follows exactly the possible branch —
    for every `cfg.loop` (even 0) and whatever the counters already say. -/
theorem must_uncut {s : Simp} {o : Oracle} {cfg : Cfg} {code : List Nat} {st : SState} {target : Nat} {c : B}
    {nextPc : Nat} :
    (exCheck s o st.path (s.b c) = .sat ∧ exCheck s o st.path (s.b (.not (s.b c))) = .unsat →
      (jumpi s o cfg code st target c nextPc).bounded = [] ∧
      (∀ st' ∈ (jumpi s o cfg code st target c nextPc).next, st'.visits = st.visits) ∧
      (target ∈ Evm.validJumpdests code →
        (jumpi s o cfg code st target c nextPc).next = [addCond s { st with pc := target + 1 } (s.b c)])) ∧
    (exCheck s o st.path (s.b c) = .unsat ∧ exCheck s o st.path (s.b (.not (s.b c))) = .sat →
      (jumpi s o cfg code st target c nextPc).bounded = [] ∧
      (∀ st' ∈ (jumpi s o cfg code st target c nextPc).next, st'.visits = st.visits) ∧
      (jumpi s o cfg code st target c nextPc).next = [addCond s { st with pc := nextPc } (s.b (.not (s.b c)))]) := by
  refine ⟨fun h => ?_, fun h => ?_⟩
  · obtain ⟨h1, h2⟩ := jumpi_must (cfg := cfg) (code := code) (target := target) (nextPc := nextPc) (Or.inl h)
    exact ⟨h1, h2, fun hv => jumpi_must_true_followed h hv⟩
  · obtain ⟨h1, h2⟩ := jumpi_must (cfg := cfg) (code := code) (target := target) (nextPc := nextPc) (Or.inr h)
    exact ⟨h1, h2, jumpi_must_false_followed h⟩

/-! ### non-vacuity -/

/-- a counted loop with a symbolic trip count:
    `PUSH1 4; CALLDATALOAD; JUMPDEST(3); DUP1; ISZERO; PUSH1 16; JUMPI; PUSH1 1; SWAP1; SUB; PUSH1 3; JUMP;
     JUMPDEST(16); STOP` -/
def loopCode : List Nat :=
  [0x60, 4, 0x35, 0x5b, 0x80, 0x15, 0x60, 16, 0x57, 0x60, 1, 0x90, 0x03, 0x60, 3, 0x56, 0x5b, 0x00]

/-- with `--loop 2` and an oracle that cannot decide, the loop is cut and the cut IS flagged: `bounded_loops` is not
    empty (the exits after 0, 1 and 2 iterations are reported, deeper ones are not) -/
example : (run foldSimp exOracle { loop := 2 } exEnv loopCode 1000).boundedLoops ≠ [] ∧
    (run foldSimp exOracle { loop := 2 } exEnv loopCode 1000).ends.length = 3 ∧
    (run foldSimp exOracle { loop := 2 } exEnv loopCode 1000).outOfFuel = false := by
  decide +kernel

/-- the same program under a `--depth 5` budget: the cut is flagged -/
example : (run foldSimp exOracle { depth := 5 } exEnv loopCode 1000).depthCut = true := by decide +kernel

/-- `flagged` on the branching program of Props.C01 (no flag, no error end state): the input `x = 42` is covered by an
    end state reporting exactly the reference outcome -/
example : ∃ e ∈ exRes.ends, Sat exI e.st.path ∧ e.tag = .normal ∧
    ∃ h0, e.out = .halt h0 ∧ haltWith h0 (e.data.map (·.eval exI)) = .invalidOpcode := by
  suffices hs : ∃ w', ∃ e ∈ exRes.ends, Sat exI e.st.path ∧ e.tag = .normal ∧
      (∃ h0, e.out = .halt h0 ∧ haltWith h0 (e.data.map (·.eval exI)) = .invalidOpcode) ∧
      WRel exI exW w' exF0.this e.st.storage e.st.transient by
    obtain ⟨w', e, hm, a, b, c, _⟩ := hs
    exact ⟨e, hm, a, b, c⟩
  have hex : ∃ w', Evm.exec exP 10 exW exF0 = some (w', .invalidOpcode) := by
    have : (Evm.exec exP 10 exW exF0).map (·.2) = some .invalidOpcode := by decide +kernel
    match h : Evm.exec exP 10 exW exF0, this with
    | some (w', _), this => exact ⟨w', by simp only [Option.map_some, Option.some.injEq] at this; rw [← this]⟩
  obtain ⟨w', hex⟩ := hex
  refine ⟨w', ?_⟩
  have hall : ∀ e ∈ exRes.ends, (∀ r, e.out ≠ .stuck r) ∧ e.tag = .normal := by
    have : ∀ e ∈ exRes.ends, (match e.out with | .stuck _ => false | _ => true) = true ∧ e.tag = .normal := by
      decide +kernel
    intro e hm
    obtain ⟨h1, h2⟩ := this e hm
    refine ⟨fun r hr => ?_, h2⟩
    rw [hr] at h1; cases h1
  exact flagged foldSimp_sound oracleSound_unknown {} exEnv exCode 100 exP exW C01.exMem (by decide) exI exI_std exF0 exR (C01.exZero _) 10 w'
    .invalidOpcode hex (by decide +kernel) (by decide +kernel) (by decide +kernel)
    (fun e hm _ => hall e hm)

/-- `concrete_loops_uncut`: `PUSH1 1; PUSH1 4; JUMPI; STOP; JUMPDEST; STOP` at the JUMPI with `--loop 0` -/
example : (step foldSimp exOracle { loop := 0 } exEnv [0x60, 1, 0x60, 5, 0x57, 0x00, 0x5b, 0x00]
      ⟨4, [.bv 256 (.con 5), .bv 256 (.con 1)], [], [], [], [], [], [], []⟩).bounded = [] :=
  (concrete_loops_uncut (cfg := { loop := 0 }) (st := ⟨4, [.bv 256 (.con 5), .bv 256 (.con 1)], [], [], [], [], [], [], []⟩)
    (sz := 256) (target := 5) rfl rfl rfl true (Or.inr ⟨256, 1, rfl, rfl⟩)).1

end HalmosVerif.Props.C10
