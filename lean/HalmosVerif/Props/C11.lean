/-
Props.C11 — "The solver query equals the path's constraints; refinement is exact".

Statements are about Model.Query (tied to sevm.Path.to_smt2 / solve.dump / solve.refine by tools/props/c11.py:
the real functions are run on SEVM paths, their output is re-parsed by z3 and compared with the conjunction of the
path's conditions, and the text-level functions are diffed against Driver/Query.lean).
-/
import HalmosVerif.Lemmas.Query

namespace HalmosVerif.Props.C11
open HalmosVerif.Spec HalmosVerif.Model HalmosVerif.Model.Rx HalmosVerif.Model.Query HalmosVerif.Gen.SolveTables
open HalmosVerif.Lemmas.Query

variable {α : Type}

/-! ### none dropped -/

/-- The query of a path that extends a (possibly sliced) parent state and then takes further conditions asserts
    exactly the parent's conditions and the new ones — whatever subset the z3 solver object was fed. -/
theorem none_dropped [DecidableEq α] (id : α → Nat) (den : α → Formula) (parent : Path α) (cs : List α) (I : Interp) :
    (dumpScript false (toSmt2 false id den (parent.extendPath.extend cs))).models I ↔
      ∀ c, c ∈ parent.conditions ∨ c ∈ cs → den c I := by
  rw [plain_models]
  constructor
  · intro h c hc
    exact h c ((mem_extend_conditions cs parent.extendPath c).2 hc)
  · intro h c hc
    exact h c ((mem_extend_conditions cs parent.extendPath c).1 hc)

/-- same with `--cache-solver`: every condition is asserted (and its tracking literal is forced) -/
theorem none_dropped_cached [DecidableEq α] (id : α → Nat) (den : α → Formula) (parent : Path α) (cs : List α)
    (I : Interp) :
    (dumpScript true (toSmt2 true id den (parent.extendPath.extend cs))).models I →
      ∀ c, c ∈ parent.conditions ∨ c ∈ cs → den c I := by
  rw [cached_models]
  intro h c hc
  exact (h c ((mem_extend_conditions cs parent.extendPath c).2 hc)).2

/-- the id list handed to the cache lists the ids of exactly the asserted conditions, in order -/
theorem ids_are_conditions (cache : Bool) (id : α → Nat) (den : α → Formula) (p : Path α) :
    (toSmt2 cache id den p).2 = p.conditions.map (fun c => toString (id c)) ∧
      (toSmt2 cache id den p).1.length = p.conditions.length := by
  simp [toSmt2]

/-- non-vacuity: a sliced parent — the solver of the extending path holds 1 of 3 conditions, the query all 3 + the new one -/
example :
    let parent : Path Nat := { conditions := [10, 20, 30], solver := [10, 20, 30], sliced := some [1] }
    let p := parent.extendPath.extend [40, 20]
    p.solver = [20, 40] ∧ p.conditions = [10, 20, 30, 40] ∧
      (toSmt2 true (fun c => c + 1) (fun _ _ => True) p).2 = ["11", "21", "31", "41"] := by decide

/-! ### named assertions -/

/-- `(assert (=> |id| c))* (assert (! |id| :named <id>))*` is satisfiable iff `(assert c)*` is, when the tracking
    literals are fresh for the conditions (no condition's meaning depends on them).
    (Distinctness of the names is not needed for equisatisfiability; it matters for reading cores, see C16.) -/
theorem named_equisat (id : α → Nat) (den : α → Formula) (p : Path α)
    (fresh : ∀ c ∈ p.conditions, ∀ I, den c (setTrue I (p.conditions.map (fun c => toString (id c)))) ↔ den c I) :
    (dumpScript true (toSmt2 true id den p)).sat ↔ (dumpScript false (toSmt2 false id den p)).sat := by
  constructor
  · rintro ⟨I, hI⟩
    refine ⟨I, ?_⟩
    rw [plain_models]
    rw [cached_models] at hI
    exact fun c hc => (hI c hc).2
  · rintro ⟨I, hI⟩
    refine ⟨setTrue I (p.conditions.map (fun c => toString (id c))), ?_⟩
    rw [cached_models]
    rw [plain_models] at hI
    intro c hc
    refine ⟨?_, (fresh c hc I).2 (hI c hc)⟩
    have : toString (id c) ∈ p.conditions.map (fun c => toString (id c)) := List.mem_map.2 ⟨c, hc, rfl⟩
    show (if _ ∈ _ then true else _) = true
    rw [if_pos this]

/-- models, not only satisfiability: every model of the cached script is a model of the plain one -/
theorem named_models (id : α → Nat) (den : α → Formula) (p : Path α) (I : Interp) :
    (dumpScript true (toSmt2 true id den p)).models I → (dumpScript false (toSmt2 false id den p)).models I := by
  rw [plain_models, cached_models]
  exact fun h c hc => (h c hc).2

/-- non-vacuity: conditions reading only bit-vector constants are fresh for every set of tracking literals -/
example (names : List String) (I : Interp) :
    (fun (J : Interp) => J.bv "p_x_uint256" 256 = 5) (setTrue I names) ↔ (fun (J : Interp) => J.bv "p_x_uint256" 256 = 5) I := by
  simp [setTrue]

/-! ### the text `dump` writes -/

theorem dump_plain_text (ids : List String) (s : List Char) :
    dumpText false ids s = "(set-logic QF_AUFBV)\n".toList ++ s ++ "\n(check-sat)\n(get-model)\n".toList := by
  simp [dumpText, dumpPlain, instPieces]

theorem dump_cached_text (ids : List String) (s : List Char) :
    dumpText true ids s =
      "(set-option :produce-unsat-cores true)\n(set-logic QF_AUFBV)\n".toList ++ s ++ "\n".toList ++ namedLines ids
        ++ "(check-sat)\n(get-model)\n(get-unsat-core)\n".toList := by
  simp [dumpText, dumpCached, instPieces]

/-- one `(assert (! |id| :named <id>))` line per id, in order -/
theorem named_lines (i : String) (is : List String) :
    namedLines (i :: is) =
      "(assert (! |".toList ++ i.toList ++ "| :named <".toList ++ i.toList ++ ">))\n".toList ++ namedLines is := by
  simp [namedLines, dumpNamed, instPieces]

example : String.ofList (dumpText true ["7", "12"] "(assert (=> |7| a))".toList) =
    "(set-option :produce-unsat-cores true)\n(set-logic QF_AUFBV)\n(assert (=> |7| a))\n(assert (! |7| :named <7>))\n(assert (! |12| :named <12>))\n(check-sat)\n(get-model)\n(get-unsat-core)\n" := by
  decide +kernel

/-! ### refinement -/

/-- the interpretation gives every refinable declaration of `s` its exact EVM meaning -/
def Exact (s : Script) (I : Interp) : Prop :=
  ∀ name res, Cmd.declareFun name [res, res] res ∈ s →
    ∀ op body bop, findOp refineRules name res = some (op, body) → smtOp op = some bop →
      ∀ x y, x < 2 ^ res → y < 2 ^ res → I.uf2 name res x y = evmOp bop res x y

/-- every operator `refine` may splice in is one whose SMT-LIB meaning the model knows -/
theorem ops_known : ∀ r ∈ refineRules, ∀ op ∈ r.ops, (smtOp op).isSome = true := by decide +kernel

/-- Models of the refined script are exactly the models of the original script in which every
    `f_evm_bv{udiv,urem,sdiv,srem}_N` is the EVM operation (by-zero = 0) and `f_evm_bvmul_N` is `bvmul`. -/
theorem refine_exact (s : Script) (I : Interp) :
    (refineScript s).models I ↔ s.models I ∧ Exact s I := by
  constructor
  · intro h
    refine ⟨?_, ?_⟩
    · intro c hc
      have h1 := h (refineCmd c) (List.mem_map.2 ⟨c, hc, rfl⟩)
      cases c with
      | declareFun name args res => trivial
      | defineFun name w op body => exact h1
      | assert f => exact h1
      | assertImp p f => exact h1
      | assertNamed p => exact h1
    · intro name res hc op body bop hf hs x y hx hy
      have h1 := h (refineCmd (.declareFun name [res, res] res)) (List.mem_map.2 ⟨_, hc, rfl⟩)
      simp only [refineCmd, refineCmdWith, hf, hs, if_true] at h1
      obtain ⟨r, hr, hop, hb, _⟩ := findOp_mem _ _ _ _ _ hf
      rw [h1 x y hx hy, hb, body_is_evm r hr op hop bop hs]
  · rintro ⟨hm, he⟩ c' hc'
    obtain ⟨c, hc, rfl⟩ := List.mem_map.1 hc'
    cases c with
    | declareFun name args res =>
      simp only [refineCmd, refineCmdWith]
      split
      · rename_i hargs
        subst hargs
        split
        · rename_i op body hf
          split
          · rename_i bop hs
            intro x y hx hy
            obtain ⟨r, hr, hop, hb, _⟩ := findOp_mem _ _ _ _ _ hf
            rw [he name res hc op body bop hf hs x y hx hy, hb, body_is_evm r hr op hop bop hs]
          · trivial
        · trivial
      · trivial
    | defineFun name w op body => exact hm _ hc
    | assert f => exact hm _ hc
    | assertImp p f => exact hm _ hc
    | assertNamed p => exact hm _ hc

/-- everything that is not a refinable declaration is left as it is (assertions, named assertions, other
    declarations, definitions) -/
theorem refine_untouched (c : Cmd) (h : ∀ name res, c = .declareFun name [res, res] res → findOp refineRules name res = none) :
    refineCmd c = c := by
  cases c with
  | declareFun name args res =>
    simp only [refineCmd, refineCmdWith]
    split
    · rename_i hargs
      subst hargs
      rw [h name res rfl]
    · rfl
  | defineFun name w op body => rfl
  | assert f => rfl
  | assertImp p f => rfl
  | assertNamed p => rfl

/-- the EVM operations meant here are the Yellow-Paper ones of Spec.Word at width 256 -/
theorem evmOp_is_spec (x y : Nat) :
    evmOp .udiv 256 x y = Word.div x y ∧ evmOp .urem 256 x y = Word.mod x y ∧
    evmOp .sdiv 256 x y = Word.sdiv x y ∧ evmOp .srem 256 x y = Word.smod x y ∧
    evmOp .mul 256 x y = Word.mul x y := by
  refine ⟨rfl, rfl, rfl, rfl, rfl⟩

/-- non-vacuity of `refine_exact`: a script with a refinable declaration and an interpretation that is exact on it -/
example :
    let s : Script := [.declareFun "f_evm_bvudiv_256" [256, 256] 256, .assert (fun I => I.uf2 "f_evm_bvudiv_256" 256 7 0 = 0)]
    let I : Interp := ⟨fun _ _ => 0, fun _ => false, fun _ w x y => evmOp .udiv w x y, fun _ _ _ => 0⟩
    refineScript s = [.defineFun "f_evm_bvudiv_256" 256 .udiv (.iteEq .y .zero .zero (.app .x .y)),
                      .assert (fun I => I.uf2 "f_evm_bvudiv_256" 256 7 0 = 0)] ∧ (refineScript s).models I := by
  refine ⟨rfl, ?_⟩
  intro c hc
  simp only [refineScript, List.map_cons, List.map_nil, List.mem_cons, List.not_mem_nil, or_false] at hc
  rcases hc with rfl | rfl
  · have : refineCmd (.declareFun "f_evm_bvudiv_256" [256, 256] 256)
        = .defineFun "f_evm_bvudiv_256" 256 .udiv (.iteEq .y .zero .zero (.app .x .y)) := rfl
    rw [this]
    intro x y _ _
    simp only [bodyEval, evmOp, BinOp.eval]
    split <;> simp_all
  · simp [refineCmd, refineCmdWith, Cmd.holds, evmOp]

/-! ### coverage -/

/-- Every abstraction symbol sevm.py declares is turned into a definition by `refine` — except `f_evm_exp_256`,
    for which there is no pattern: a model that needed it keeps mentioning `f_evm_` and stays "potentially invalid"
    (Props.C04.abstract_never_valid). -/
theorem refine_covers : ∀ sym ∈ abstractionSymbols, covered sym = (sym.1 != "f_evm_exp_256") := by decide +kernel

theorem exp_not_covered : covered ("f_evm_exp_256", [256, 256], 256) = false ∧
    ("f_evm_exp_256", [256, 256], 256) ∈ abstractionSymbols := by decide +kernel

/-- the widths of the quantifier (256, 264, 512) all occur among the covered symbols -/
example : ((abstractionSymbols.filter covered).map (·.2.2)).eraseDups = [256, 264, 512] := by decide +kernel

/-- text level = command level on every declared symbol: running the `re.sub`s of `refine` on the declaration line
    z3 prints gives the printed form of the refined command (a definition for the covered ones, the same line for exp) -/
theorem refine_text_commutes : ∀ sym ∈ abstractionSymbols,
    refineText (printCmd (.declareFun sym.1 sym.2.1 sym.2.2))
      = printCmd (refineCmd (.declareFun sym.1 sym.2.1 sym.2.2)) := by decide +kernel

example : String.ofList (printCmd (refineCmd (.declareFun "f_evm_bvsrem_256" [256, 256] 256))) =
    "(define-fun f_evm_bvsrem_256 ((x (_ BitVec 256)) (y (_ BitVec 256))) (_ BitVec 256) (ite (= y (_ bv0 256)) (_ bv0 256) (bvsrem x y)))" := by
  decide +kernel

/-- text that does not contain the head literal of a rule is not changed by it — in particular assertions -/
example : refineText "(assert (= (f_evm_bvmul_256 x y) #x01))\n(declare-fun p_x () (_ BitVec 256))".toList
    = "(assert (= (f_evm_bvmul_256 x y) #x01))\n(declare-fun p_x () (_ BitVec 256))".toList := by decide +kernel

end HalmosVerif.Props.C11
