/-
C12 — Symbolic calldata is a fully general, well-formed ABI encoding.

Objects: `Model.Calldata` (mirror of halmos' `calldata.py`), `Spec.Abi` (the ABI specification: `enc`, `dec`).
Everything is for all type trees, all names, all candidate configurations, all counter values — no bounds.

* `abi_dec_enc`          — the Spec decoder inverts the Spec encoder (sanity of the reference).
* `size_field_ok`        — declared size = data length (under every environment): the `ValueError` check of `create`
                           can never fire (`create_no_size_mismatch`).
* `leaves_distinct`      — all size and leaf symbols of one encoding have pairwise different creation indices; hence
                           (`leaves_distinct_names`) pairwise different `(name, uid, counter)` triples whenever the supply
                           of `(uid, counter)` pairs is injective — the explicit hypothesis.
* `encode_general`       — every value whose dynamic lengths are among the candidates is an instance of the calldata:
                           there is an environment giving the size symbols the lengths and the leaf symbols the words,
                           under which the Spec decoder returns the value; `encode_general_all`: every environment
                           satisfying the intended assignment does (symbols of unused array slots are irrelevant).
* `encode_general_zero_fixed_cex` — the guard `noZeroFarr` is necessary: for `(bytes[0] x, uint256 y)` no environment works.
* `process_dyn_params_preserves/_monotone/_registers`, `candidates_all_branched` — the path's candidate map only grows;
                           a size symbol registered earlier still branches over exactly its candidates after later
                           registrations (several calldata on one path, `svm.createCalldata`).
* `unsupported_rejected` — `fixedMxN`, `ufixedMxN`, `function` (and arrays of them) are rejected by `parse_type`.
-/
import HalmosVerif.Lemmas.C12Sat
import HalmosVerif.Lemmas.C12Parse

namespace HalmosVerif.Props.C12
open HalmosVerif.Spec.Abi HalmosVerif.Model.Calldata

/-! ### the reference is sane -/

theorem abi_dec_enc (t : Ty) (v : Val) (hv : t.valid = true) (hw : wt t v = true) (hl : (enc t v).length < 2 ^ 256) :
    dec t (enc t v) = some v := dec_enc t v hv hw hl

example : dec (.tuple [.uint 8, .darr .bytes]) (enc (.tuple [.uint 8, .darr .bytes])
    (.list [.uint 5, .list [.bytes [1, 2, 3], .bytes []]])) = some (.list [.uint 5, .list [.bytes [1, 2, 3], .bytes []]]) :=
  dec_enc _ _ (by decide) (by decide) (by decide +kernel)

/-! ### size field -/

theorem size_field_ok (cfg : Cfg) (name : String) (τ : MTy) (k : Nat) (env : Env) :
    dataLen (encode cfg name τ k).1.data = (encode cfg name τ k).1.size ∧
    (evalBytes env (encode cfg name τ k).1.data).length = (encode cfg name τ k).1.size := by
  have h := (encode_inv cfg τ name k).size_ok
  exact ⟨h, by rw [evalBytes_length]; exact h⟩

/-- the sanity check of `Calldata.create` never raises -/
theorem create_no_size_mismatch (cfg : Cfg) (sel : Bytes) (inputs : List AbiItem) :
    ∀ its, create cfg sel inputs ≠ .error .sizeMismatch ∧ (create cfg sel inputs = .ok its → its.head? = some (.raw sel)) := by
  intro its
  unfold create
  split
  · exact ⟨by simp, by simp⟩
  · exact ⟨by simp, by intro h; injection h with h; subst h; rfl⟩
  · rename_i t _ _
    have h := (encode_inv cfg t "" 0).size_ok
    simp only [h, bne_self_eq_false, Bool.false_eq_true, ↓reduceIte]
    exact ⟨by simp, by intro h; injection h with h; subst h; rfl⟩

example : dataLen (encode ⟨[], [0, 2], [0, 65]⟩ "" (.tuple "" [.base "a" "uint8", .darr "b" (.base "" "bytes")]) 0).1.data = 416 := by
  decide

/-! ### symbols are pairwise distinct -/

theorem leaves_distinct (cfg : Cfg) (name : String) (τ : MTy) (k : Nat) :
    ((syms (encode cfg name τ k).1.data).map (·.idx)).Nodup ∧
    ∀ id ∈ syms (encode cfg name τ k).1.data, k ≤ id.idx ∧ id.idx < (encode cfg name τ k).2 :=
  ⟨(encode_inv cfg τ name k).nodup, (encode_inv cfg τ name k).range⟩

/-- Under the explicit hypothesis that the supply gives pairwise different `(uid, counter)` pairs, the naming triples
`(parameter name, uid, counter)` of all symbols of an encoding are pairwise different. -/
theorem leaves_distinct_names (cfg : Cfg) (name : String) (τ : MTy) (k : Nat) (uid sid : Nat → String)
    (hinj : ∀ i j, i ≠ j → (uid i, sid i) ≠ (uid j, sid j)) :
    ((syms (encode cfg name τ k).1.data).map (fun id => (id.pname, uid id.idx, sid id.idx))).Nodup := by
  apply nodup_map_of_nodup_map (·.idx) _ _ (leaves_distinct cfg name τ k).1
  intro a b hab heq
  simp only [Prod.mk.injEq] at heq
  exact hinj a.idx b.idx hab (by simp [heq.2.1, heq.2.2])

example : (syms (encode ⟨[], [2], [33]⟩ "" (.tuple "" [.base "a" "bytes", .darr "b" (.base "" "bool")]) 7).1.data).map (·.idx)
    = [8, 7, 9, 10, 11] := by decide

/-! ### generality -/

/-- **Generality.**  For every supported type tree `τ` (with Spec type `t`), every configuration of candidate lists,
every value `v : t` whose dynamic lengths are among the candidates of their parameter paths (`Fits`), and every
environment that gives the symbols of the parts present in `v` their intended bytes (`Sat env (assign …)`: size symbol ↦
length, leaf symbol ↦ word / padded payload), the Spec decoder reads `v` from the instantiated encoding.
The head offsets were computed for the maximal candidates; this is where that is shown harmless. -/
theorem encode_general_all (cfg : Cfg) (τ : MTy) (name : String) (k : Nat) (t : Ty) (v : Val) (env : Env)
    (ht : toTy τ = some t) (hv : t.valid = true) (hz : noZeroFarr t = true) (hw : wt t v = true)
    (hf : Fits cfg τ name v) (hsize : (encode cfg name τ k).1.size < 2 ^ 256)
    (hs : Sat env (assign cfg τ name v k)) :
    dec t (evalBytes env (encode cfg name τ k).1.data) = some v := by
  have hg := encode_good cfg env τ name k t v ht hv hz hw hf hs
  have hb := hg.ok.1 [] [] (by
    simp only [List.length_nil, Nat.zero_add, Nat.add_zero]
    rw [evalBytes_length, (encode_inv cfg τ name k).size_ok]; exact hsize)
  simpa [dec, decOf] using hb

/-- … and such an environment exists (the symbols are independent: `assign_inv`). -/
theorem encode_general (cfg : Cfg) (τ : MTy) (name : String) (k : Nat) (t : Ty) (v : Val)
    (ht : toTy τ = some t) (hv : t.valid = true) (hz : noZeroFarr t = true) (hw : wt t v = true)
    (hf : Fits cfg τ name v) (hsize : (encode cfg name τ k).1.size < 2 ^ 256) :
    ∃ env : Env, Sat env (assign cfg τ name v k) ∧ dec t (evalBytes env (encode cfg name τ k).1.data) = some v := by
  have hs := sat_envOfAsg _ (assign_inv cfg τ name v k).2
  exact ⟨_, hs, encode_general_all cfg τ name k t v _ ht hv hz hw hf hsize hs⟩

/-- the calldata of a whole function: selector, then the encoding of the tuple of inputs -/
theorem create_general (cfg : Cfg) (sel : Bytes) (inputs : List AbiItem) (items : List MTy) (ts : List Ty) (vs : List Val)
    (hp : parseTupleType (fuelForList inputs + 1) "" inputs = .ok (.tuple "" items)) (hne : items ≠ [])
    (ht : toTys items = some ts) (hv : validList ts = true) (hz : noZeroFarrs ts = true) (hw : wtList ts vs = true)
    (hf : FitsItems cfg items "" vs) (hsize : (encode cfg "" (.tuple "" items) 0).1.size < 2 ^ 256) :
    ∃ (env : Env) (data : List Item), create cfg sel inputs = .ok (.raw sel :: data) ∧
      evalBytes env (.raw sel :: data) = sel ++ evalBytes env data ∧
      dec (.tuple ts) (evalBytes env data) = some (.list vs) := by
  obtain ⟨env, _, hd⟩ := encode_general cfg (.tuple "" items) "" 0 (.tuple ts) (.list vs)
    (by simp [toTy, ht]) (by simpa [Ty.valid] using hv) (by simpa [noZeroFarr] using hz) (by simpa [wt] using hw)
    (by simpa [Fits, tuplePrefix] using hf) hsize
  refine ⟨env, (encode cfg "" (.tuple "" items) 0).1.data, ?_, rfl, hd⟩
  unfold create
  rw [hp]
  cases items with
  | nil => exact absurd rfl hne
  | cons i r =>
    simp only
    have h := (encode_inv cfg (.tuple "" (i :: r)) "" 0).size_ok
    simp [h]

-- non-vacuity: a nested dynamic type, a value with non-maximal lengths
example : ∃ env : Env,
    dec (.tuple [.uint 8, .darr .bytes])
      (evalBytes env (encode ⟨[("b[0]", [1, 40])], [2, 1], [0, 65]⟩ "" (.tuple "" [.base "a" "uint8", .darr "b" (.base "" "bytes")]) 0).1.data)
      = some (.list [.uint 5, .list [.bytes [9]]]) := by
  obtain ⟨env, _, h⟩ := encode_general ⟨[("b[0]", [1, 40])], [2, 1], [0, 65]⟩
    (.tuple "" [.base "a" "uint8", .darr "b" (.base "" "bytes")]) "" 0 (.tuple [.uint 8, .darr .bytes])
    (.list [.uint 5, .list [.bytes [9]]]) rfl (by decide) (by decide) (by decide)
    (by simp [Fits, FitsItems, FitsRange, tuplePrefix, payload, isBytesLike, Cfg.sizes, idxName, List.lookup]; decide)
    (by decide +kernel)
  exact ⟨env, h⟩

/-! ### the guard on zero-length fixed arrays is necessary -/

/-- `(bytes[0] x, uint256 y)`: the specification makes `bytes[0]` a dynamic type (a 32-byte offset in the head), halmos
emits nothing for it, so the 32-byte calldata cannot be decoded to `(x = [], y = 7)` under any environment. -/
theorem encode_general_zero_fixed_cex :
    ¬ (∀ (cfg : Cfg) (τ : MTy) (name : String) (k : Nat) (t : Ty) (v : Val),
        toTy τ = some t → t.valid = true → wt t v = true → Fits cfg τ name v → (encode cfg name τ k).1.size < 2 ^ 256 →
        ∃ env : Env, dec t (evalBytes env (encode cfg name τ k).1.data) = some v) := by
  intro h
  obtain ⟨env, he⟩ := h ⟨[], [1], [32]⟩ (.tuple "" [.farr "x" (.base "" "bytes") 0, .base "y" "uint256"]) "" 0
    (.tuple [.farr .bytes 0, .uint 256]) (.list [.list [], .uint 7]) rfl (by decide) (by decide)
    (by simp [Fits, FitsItems, FitsRange, isBytesLike]) (by decide +kernel)
  have hd : (encode ⟨[], [1], [32]⟩ "" (.tuple "" [.farr "x" (.base "" "bytes") 0, .base "y" "uint256"]) 0).1.data
      = [.sym ⟨"y", "uint256", 0⟩ 256] := by rfl
  rw [hd] at he
  have hl : (evalBytes env [.sym ⟨"y", "uint256", 0⟩ 256]).length = 32 := by
    rw [evalBytes_length]; rfl
  generalize evalBytes env [.sym ⟨"y", "uint256", 0⟩ 256] = buf at he hl
  simp [dec, decAt, decs, decSeq, decRep, isDyn, readWord, hl] at he


/-! ### candidates accumulate; every configured candidate is branched -/

/-- `process_dyn_params` is monotone: registering further dynamic parameters keeps every earlier entry whose symbol is not
re-registered (and by `leaves_distinct` the symbols of different calldata created with one counter are different). -/
theorem process_dyn_params_preserves (c : Candidates) (ds : List DynParam) (s : SymId)
    (h : ∀ d ∈ ds, d.sizeSymbol ≠ s) : processDynParams c ds s = c s := by
  induction ds generalizing c with
  | nil => rfl
  | cons d ds ih =>
    simp only [processDynParams]
    rw [ih _ (fun d' hd' => h d' (by simp [hd']))]
    have := h d (by simp)
    simp [Ne.symm this]

/-- the candidate map only grows -/
theorem process_dyn_params_monotone (c : Candidates) (ds : List DynParam) (s : SymId) (h : (c s).isSome) :
    (processDynParams c ds s).isSome := by
  induction ds generalizing c with
  | nil => exact h
  | cons d ds ih =>
    simp only [processDynParams]
    apply ih
    by_cases hs : s = d.sizeSymbol <;> simp [hs, h]

/-- a registered parameter gets exactly its choices (symbols pairwise different within the registration) -/
theorem process_dyn_params_registers (c : Candidates) (ds : List DynParam) (d : DynParam) (hd : d ∈ ds)
    (hn : (ds.map (·.sizeSymbol)).Nodup) : processDynParams c ds d.sizeSymbol = some d.sizeChoices := by
  induction ds generalizing c with
  | nil => simp at hd
  | cons e ds ih =>
    simp only [List.map_cons, List.nodup_cons, List.mem_map, not_exists, not_and] at hn
    simp only [List.mem_cons] at hd
    simp only [processDynParams]
    rcases hd with rfl | hd
    · rw [process_dyn_params_preserves _ ds _ (fun d' hd' => hn.1 d' hd')]
      simp
    · exact ih _ hd hn.2

/-- **All candidates branched, also after later registrations.**  If `d` was registered by `ds₁`, further registrations
`ds₂` (of other symbols) follow on the same path, and the path does not yet fix the symbol, then `calldataload` of the
size symbol yields exactly one successor per configured candidate, carrying that candidate. -/
theorem candidates_all_branched (c : Candidates) (ds₁ ds₂ : List DynParam) (d : DynParam) (subst : SymId → Option Nat)
    (hd : d ∈ ds₁) (hn : (ds₁.map (·.sizeSymbol)).Nodup) (h2 : ∀ e ∈ ds₂, e.sizeSymbol ≠ d.sizeSymbol)
    (hs : subst d.sizeSymbol = none) :
    calldataloadSym subst (processDynParams (processDynParams c ds₁) ds₂) d.sizeSymbol = d.sizeChoices.map some := by
  unfold calldataloadSym
  rw [hs, process_dyn_params_preserves _ ds₂ _ h2, process_dyn_params_registers c ds₁ d hd hn]

example : calldataloadSym (fun _ => none)
    (processDynParams (processDynParams (fun _ => none) [⟨⟨"data", "length", 2⟩, [0, 65, 1024]⟩]) [⟨⟨"xs", "length", 3⟩, [0, 1, 2]⟩])
    ⟨"data", "length", 2⟩ = [some 0, some 65, some 1024] := by decide

/-! ### unsupported types -/

/-- `fixed…`, `ufixed…`, `function…` (any type string starting with `f` or `uf`, with any array suffixes) never parse:
`parse_type` returns an error (`NotImplementedError` in the code; the `fuel` error cannot occur with `fuelFor`), never a type,
hence never an encoding. -/
theorem unsupported_rejected (fuel : Nat) (var : String) (typ : List Char) (item : AbiItem) (h : Unsupported typ) :
    ∀ τ, parseType fuel var typ item ≠ .ok τ := parseType_unsupported fuel var typ item h

example : Unsupported "fixed128x18[][3]".toList := Or.inl ⟨_, rfl⟩
example : Unsupported "ufixed8x1".toList := Or.inr ⟨_, rfl⟩
example : Unsupported "function[]".toList := Or.inl ⟨_, rfl⟩
example : parseType 50 "x" "fixed128x18[][3]".toList (.mk "x" "fixed128x18[][3]" none) = .error .notSupported := by rfl

end HalmosVerif.Props.C12
