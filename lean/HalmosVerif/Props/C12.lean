import HalmosVerif.Model.Calldata
namespace HalmosVerif.Props.C12
open HalmosVerif.Model.Calldata

theorem placeholder_fit_length (n : Nat) (bs : HalmosVerif.Spec.Abi.Bytes) : (fit n bs).length = n := by
  simp [fit]; omega

end HalmosVerif.Props.C12
