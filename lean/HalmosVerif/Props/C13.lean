/-
Props.C13 — assume and assert cheatcodes have exactly their stated meaning.

Model: `Model/Assertions.lean` (assertions.py, the argument extractors of utils.py, the vm.assert*/vm.assume branches of
`hevm_cheat_code.handle`, the FailCheatcode path through `SEVM.run`, `is_global_fail_set`); Spec: `Spec/Forge.lean`;
table: `Gen/AssertTable.lean` (regenerated from /repo, with ast pins of everything the model mirrors by hand).
The table ties are in `Props/C13Derive.lean`, the Keccak side (`selectors_ok`) in `Props/C13Tables*.lean`.

Hypotheses used throughout:
  * `SimpSound s`  — z3's `simplify` preserves meaning, width and well-formedness;
  * `CDWF d`       — every symbolic calldata byte is a well-formed width-8 term;
  * "the arguments decode" (`runAssert … = some o`, `o ≠ reverts`) — the calldata is a valid ABI encoding of the
    signature's parameters.  Truncated calldata is outside this hypothesis: the code zero-pads it (`truncated_accepted`).
-/
import HalmosVerif.Lemmas.AssertionsTable
import HalmosVerif.Lemmas.AssertionsBranch
import HalmosVerif.Lemmas.AssertionsDyn
import HalmosVerif.Model.SimpFold

namespace HalmosVerif.Props.C13
open HalmosVerif.Model HalmosVerif.Model.Assertions HalmosVerif.Spec HalmosVerif.Gen HalmosVerif.Lemmas.Assertions

/-! ## `handler_semantics` -/

theorem entry_ok {e : AssertTable.Entry} (he : e ∈ AssertTable.entries) : entryOk e = true :=
  List.all_eq_true.mp entries_ok e he

theorem shapeOk_unary (ex m : Bool) : Forge.shapeOk (.unary ex) (⟨.bool, false⟩ :: msgTys m) = true := by
  cases m <;> rfl

theorem shapeOk_binary (r : Forge.Rel) (t : Forge.Ty) (m : Bool) : Forge.shapeOk (.binary r) (t :: t :: msgTys m) = true := by
  cases m <;> simp [msgTys, Forge.shapeOk]

/-- the order assertions: `mk_cond` with the derived `bop` denotes the unsigned order for `uint256`, the two's complement
order for `int256` -/
theorem order_case (I : Interp) {a1 a2 : Arg} {x1 x2 : Nat} (sp1 : ArgSpec I a1 32 x1) (sp2 : ArgSpec I a2 32 x2)
    (r : Forge.Rel) (hr : isOrder r = true) (b : Forge.Base) (hb : b = .uint256 ∨ b = .int256) {c : B}
    (hmk : mkCond (bopOf r b) a1 a2 = .ok c) :
    Forge.holds r ⟨b, false⟩ (.word x1) (.word x2) = some (c.eval I) := by
  rcases hb with rfl | rfl <;> cases r <;> simp only [isOrder, Bool.false_eq_true] at hr <;> simp only [bopOf] at hmk
  · obtain ⟨c', h1, _, h2⟩ := mkCond_ord I sp1 sp2 (bop := "ULt") (op := .ult) (by decide) (by decide) (by decide)
    rw [hmk] at h1; cases h1; simp [Forge.holds, Forge.ordHolds, h2, CmpOp.eval]
  · obtain ⟨c', h1, _, h2⟩ := mkCond_ord I sp1 sp2 (bop := "UGt") (op := .ugt) (by decide) (by decide) (by decide)
    rw [hmk] at h1; cases h1; simp [Forge.holds, Forge.ordHolds, h2, CmpOp.eval]
  · obtain ⟨c', h1, _, h2⟩ := mkCond_ord I sp1 sp2 (bop := "ULe") (op := .ule) (by decide) (by decide) (by decide)
    rw [hmk] at h1; cases h1; simp [Forge.holds, Forge.ordHolds, h2, CmpOp.eval]
  · obtain ⟨c', h1, _, h2⟩ := mkCond_ord I sp1 sp2 (bop := "UGe") (op := .uge) (by decide) (by decide) (by decide)
    rw [hmk] at h1; cases h1; simp [Forge.holds, Forge.ordHolds, h2, CmpOp.eval]
  · obtain ⟨c', h1, _, h2⟩ := mkCond_ord I sp1 sp2 (bop := "SLt") (op := .slt) (by decide) (by decide) (by decide)
    rw [hmk] at h1; cases h1; simp [Forge.holds, Forge.ordHolds, h2, CmpOp.eval]
  · obtain ⟨c', h1, _, h2⟩ := mkCond_ord I sp1 sp2 (bop := "SGt") (op := .sgt) (by decide) (by decide) (by decide)
    rw [hmk] at h1; cases h1; simp [Forge.holds, Forge.ordHolds, h2, CmpOp.eval]
  · obtain ⟨c', h1, _, h2⟩ := mkCond_ord I sp1 sp2 (bop := "SLe") (op := .sle) (by decide) (by decide) (by decide)
    rw [hmk] at h1; cases h1; simp [Forge.holds, Forge.ordHolds, h2, CmpOp.eval]
  · obtain ⟨c', h1, _, h2⟩ := mkCond_ord I sp1 sp2 (bop := "SGe") (op := .sge) (by decide) (by decide) (by decide)
    rw [hmk] at h1; cases h1; simp [Forge.holds, Forge.ordHolds, h2, CmpOp.eval]

/-- `handler_semantics`, operands of the word types (`bool`, `uint256`, `int256`, `address`, `bytes32`) and the unary
assertions: for EVERY entry of the generated table whose operands are static words, every simplifier, calldata,
interpretation: if the handler returns a condition and the Spec's decoder accepts the calldata, the condition denotes
exactly the Forge-std relation on the decoded operands (unsigned order for `uint256`, two's complement for `int256`,
equality of the 256-bit words, `c ≠ 0` for `assertTrue(c)`). -/
theorem handler_semantics_words :
    ∀ e ∈ AssertTable.entries, e.isArray = false → (decide (e.ty = "bytes") || decide (e.ty = "string")) = false →
    ∀ (s : Simp), SimpSound s → ∀ (d : Calldata), CDWF d → ∀ (I : Interp) (c : B),
      entryHandler s e d = .ok c →
      ∀ o, Forge.runAssert e.signature (evalCD I d) = some o → o ≠ .reverts → o = Forge.ofBool (c.eval I) := by
  intro e he harr hty s hs d hd I c hc o ho hrev
  have hok := entry_ok he
  unfold entryOk at hok
  split at hok
  · -- unary
    next ex hk hb =>
    simp only [Bool.and_eq_true, beq_iff_eq, Bool.not_eq_true', decide_eq_true_eq] at hok
    obtain ⟨⟨⟨⟨hop, _⟩, hex⟩, hparse⟩, hkind⟩ := hok
    unfold Forge.runAssert at ho
    rw [hparse] at ho
    simp only [hkind, shapeOk_unary, if_true] at ho
    cases hdec : Forge.decodeArgs ((evalCD I d).drop 4) (⟨.bool, false⟩ :: msgTys e.hasMsg) 0 with
    | none => rw [hdec] at ho; simp at ho; exact absurd ho.symm hrev
    | some vals =>
      obtain ⟨tl, rfl⟩ := decode_static1 (b := .bool) rfl hdec
      rw [hdec] at ho
      simp only [Option.some.injEq] at ho
      have hc' : c = unaryCond s d (decide (e.op = "True")) := by
        unfold entryHandler handlerOf at hc
        simp only [hop, show ¬ ((1 : Nat) = 2) by omega, if_false] at hc
        exact vmAssertUnary_ok hc
      rw [← ho, hc', unaryCond_eval hs I hd, hex]
  · -- binary
    next r b hk hb =>
    simp only [Bool.and_eq_true, beq_iff_eq, decide_eq_true_eq, Bool.or_eq_true, Bool.not_eq_true'] at hok
    obtain ⟨⟨⟨⟨⟨hop, hbop⟩, hdyn⟩, hord⟩, hparse⟩, hkind⟩ := hok
    have hbd : b.isDynamic = false := by rw [← hdyn]; exact hty
    unfold Forge.runAssert at ho
    rw [hparse] at ho
    simp only [hkind, shapeOk_binary, if_true, harr] at ho
    cases hdec : Forge.decodeArgs ((evalCD I d).drop 4) (⟨b, false⟩ :: ⟨b, false⟩ :: msgTys e.hasMsg) 0 with
    | none => rw [hdec] at ho; simp at ho; exact absurd ho.symm hrev
    | some vals =>
      obtain ⟨tl, rfl⟩ := decode_static2 hbd hdec
      rw [hdec] at ho
      simp only at ho
      have hmk : mkCond (bopOf r b) (extractBytes s d 4 32) (extractBytes s d 36 32) = .ok c := by
        unfold entryHandler handlerOf at hc
        simp only [hop, if_true, harr, hbop] at hc
        exact vmAssertBinary_static hty hc
      have sp1 := extractBytes_spec hs I hd 4 32
      have sp2 := extractBytes_spec hs I hd 36 32
      generalize Assertions.beNat (zread (evalCD I d) 4 32) = x1 at *
      generalize Assertions.beNat (zread (evalCD I d) 36 32) = x2 at *
      cases r with
      | eq =>
        obtain ⟨c', h1, _, h2⟩ := mkCond_eqne I sp1 sp2 false
        simp only [Bool.false_eq_true, if_false] at h1
        simp only [bopOf] at hmk
        rw [hmk] at h1
        cases h1
        simp only [Forge.holds, Forge.Val.equal, Option.map_some, Option.some.injEq] at ho
        rw [← ho, h2]; simp
      | notEq =>
        obtain ⟨c', h1, _, h2⟩ := mkCond_eqne I sp1 sp2 true
        simp only [if_true] at h1
        simp only [bopOf] at hmk
        rw [hmk] at h1
        cases h1
        simp only [Forge.holds, Forge.Val.equal, Option.map_some, Option.some.injEq] at ho
        rw [← ho, h2]; simp
      | lt | gt | le | ge =>
        all_goals
          have hb2 : b = .uint256 ∨ b = .int256 := by
            simp only [isOrder] at hord
            rcases hord with h | h
            · exact absurd h (by decide)
            · exact h.1
          have := order_case I sp1 sp2 _ rfl b hb2 hmk
          rw [this] at ho
          simp only [Option.map_some, Option.some.injEq] at ho
          exact ho.symm
  · simp at hok


/-- `Eq` / `NotEq` on two operands that denote byte strings `B1`, `B2`: the condition says `B1 = B2` (resp. `≠`) -/
theorem eqne_blocks (I : Interp) {a1 a2 : Arg} {B1 B2 : List Nat} (hB1 : Bytes B1) (hB2 : Bytes B2)
    (sp1 : ArgSpec I a1 B1.length (Assertions.beNat B1)) (sp2 : ArgSpec I a2 B2.length (Assertions.beNat B2))
    (ne : Bool) {c : B} (hmk : mkCond (if ne then "NotEq" else "Eq") a1 a2 = .ok c) :
    c.eval I = (decide (B1 = B2) != ne) := by
  obtain ⟨c', h1, _, h2⟩ := mkCond_eqne I sp1 sp2 ne
  rw [hmk] at h1; cases h1
  rw [h2]
  congr 1
  exact decide_eq_decide.mpr (bytes_eq_iff hB1 hB2)

/-- `handler_semantics`, dynamic operands (`bytes`, `string`, `T[]` with a static element type; the model raises
NotImplementedError for `bytes[]` / `string[]`, so no condition exists there): whenever the handler returns a condition —
which requires concrete offsets and lengths, symbolic ones raise NotConcreteError → the path ends stuck → ERROR — and the
Spec's decoder accepts the calldata, the condition denotes the Forge-std relation: equal length and byte-wise equal for
`bytes`/`string`, equal length and element-wise equal for `T[]`. -/
theorem handler_semantics_dyn :
    ∀ e ∈ AssertTable.entries, (e.isArray = true ∨ (decide (e.ty = "bytes") || decide (e.ty = "string")) = true) →
    ∀ (s : Simp), SimpSound s → ∀ (d : Calldata), CDWF d → ∀ (I : Interp) (c : B),
      entryHandler s e d = .ok c →
      ∀ o, Forge.runAssert e.signature (evalCD I d) = some o → o ≠ .reverts → o = Forge.ofBool (c.eval I) := by
  intro e he hdynE s hs d hd I c hc o ho hrev
  have hok := entry_ok he
  unfold entryOk at hok
  split at hok
  · -- unary entries have static operands
    next ex hk hb =>
    simp only [Bool.and_eq_true, beq_iff_eq, Bool.not_eq_true', decide_eq_true_eq] at hok
    obtain ⟨⟨⟨⟨_, harr⟩, _⟩, _⟩, _⟩ := hok
    have hty : (decide (e.ty = "bytes") || decide (e.ty = "string")) = false := by
      have h1 : Forge.parseBase e.ty.toList = some .bool := hb
      by_cases hb1 : e.ty = "bytes"
      · rw [hb1] at h1; exact absurd h1 (by decide)
      · by_cases hb2 : e.ty = "string"
        · rw [hb2] at h1; exact absurd h1 (by decide)
        · simp [hb1, hb2]
    rcases hdynE with h | h
    · rw [harr] at h; cases h
    · rw [hty] at h; cases h
  · next r b hk hb =>
    simp only [Bool.and_eq_true, beq_iff_eq, decide_eq_true_eq, Bool.or_eq_true, Bool.not_eq_true'] at hok
    obtain ⟨⟨⟨⟨⟨hop, hbop⟩, hdyn⟩, hord⟩, hparse⟩, hkind⟩ := hok
    -- the relation is Eq or NotEq
    have hr : ∃ ne : Bool, bopOf r b = (if ne then "NotEq" else "Eq") ∧
        ∀ v1 v2, Forge.holds r ⟨b, e.isArray⟩ v1 v2 = some (v1.equal v2 != ne) := by
      cases r with
      | eq => exact ⟨false, rfl, fun _ _ => by simp [Forge.holds]⟩
      | notEq => exact ⟨true, rfl, fun _ _ => by simp [Forge.holds]⟩
      | lt | gt | le | ge =>
        all_goals
          exfalso
          simp only [isOrder] at hord
          rcases hord with h | h
          · exact absurd h (by decide)
          · obtain ⟨hbb, harr⟩ := h
            rcases hdynE with h' | h'
            · rw [harr] at h'; cases h'
            · rw [hdyn] at h'
              rcases hbb with rfl | rfl <;> cases h'
    obtain ⟨ne, hbopne, hholds⟩ := hr
    unfold Forge.runAssert at ho
    rw [hparse] at ho
    simp only [hkind, shapeOk_binary, if_true] at ho
    cases hdec : Forge.decodeArgs ((evalCD I d).drop 4) (⟨b, e.isArray⟩ :: ⟨b, e.isArray⟩ :: msgTys e.hasMsg) 0 with
    | none => rw [hdec] at ho; simp at ho; exact absurd ho.symm hrev
    | some vals =>
      obtain ⟨v1, v2, tl, hv1, hv2, rfl⟩ := decodeArgs_two hdec
      rw [hdec] at ho
      simp only [hholds, Option.map_some, Option.some.injEq] at ho
      have hbytes := evalCD_bytes I d
      unfold entryHandler handlerOf at hc
      simp only [hop, if_true, hbop, hbopne] at hc
      cases harr : e.isArray with
      | false =>
        have hty : (decide (e.ty = "bytes") || decide (e.ty = "string")) = true := by
          rcases hdynE with h | h
          · rw [harr] at h; cases h
          · exact h
        have hbd : b.isDynamic = true := by rw [← hdyn]; exact hty
        rw [harr] at hc hv1 hv2
        obtain ⟨a1, a2, he1, he2, hmk⟩ := vmAssertBinary_bytes hty hc
        obtain ⟨o1, n1, ho1, hn1, hb1, rfl⟩ := decodeArg_bytes hbd hv1
        obtain ⟨o2, n2, ho2, hn2, hb2, rfl⟩ := decodeArg_bytes hbd hv2
        obtain ⟨eo1, en1, hl⟩ := dyn_block ho1 hn1
        obtain ⟨eo2, en2, _⟩ := dyn_block ho2 hn2
        have sp1 := extractBytesArgument_spec hs I hd 0 he1
        have sp2 := extractBytesArgument_spec hs I hd 1 he2
        simp only [Nat.zero_mul, Nat.add_zero, Nat.one_mul] at sp1 sp2
        simp only [Nat.add_zero] at eo1
        rw [← eo1, ← en1] at sp1
        rw [← eo2, ← en2] at sp2
        simp only [List.length_drop] at hb1 hb2
        have z1 : zread (evalCD I d) (4 + o1 + 32) n1 = Forge.slice ((evalCD I d).drop 4) (o1 + 32) n1 := by
          rw [zread_eq_slice (by omega), slice_drop]; congr 1 <;> omega
        have z2 : zread (evalCD I d) (4 + o2 + 32) n2 = Forge.slice ((evalCD I d).drop 4) (o2 + 32) n2 := by
          rw [zread_eq_slice (by omega), slice_drop]; congr 1 <;> omega
        rw [z1] at sp1; rw [z2] at sp2
        have l1 : (Forge.slice ((evalCD I d).drop 4) (o1 + 32) n1).length = n1 := slice_length (by simp; omega)
        have l2 : (Forge.slice ((evalCD I d).drop 4) (o2 + 32) n2).length = n2 := slice_length (by simp; omega)
        have hB1 := slice_bytes (buf := (evalCD I d).drop 4) (fun x hx => hbytes x (List.mem_of_mem_drop hx)) (o1 + 32) n1
        have hB2 := slice_bytes (buf := (evalCD I d).drop 4) (fun x hx => hbytes x (List.mem_of_mem_drop hx)) (o2 + 32) n2
        rw [← l1] at sp1; rw [← l2] at sp2
        rw [l1] at sp1; rw [l2] at sp2
        have := eqne_blocks I hB1 hB2 (by rw [l1]; exact sp1) (by rw [l2]; exact sp2) ne hmk
        rw [← ho, this]
        simp [Forge.Val.equal, listEq_decide]
      | true =>
        rw [harr] at hc hv1 hv2
        by_cases hty : (decide (e.ty = "bytes") || decide (e.ty = "string")) = true
        · exact absurd hc (vmAssertBinary_bytesArray hty)
        · have hty' : (decide (e.ty = "bytes") || decide (e.ty = "string")) = false := by simpa using hty
          have hbd : b.isDynamic = false := by rw [← hdyn]; exact hty'
          obtain ⟨a1, a2, he1, he2, hmk⟩ := vmAssertBinary_array hty' hc
          obtain ⟨o1, n1, ws1, ho1, hn1, hw1, rfl⟩ := decodeArg_arr hbd hv1
          obtain ⟨o2, n2, ws2, ho2, hn2, hw2, rfl⟩ := decodeArg_arr hbd hv2
          obtain ⟨eo1, en1, hl⟩ := dyn_block ho1 hn1
          obtain ⟨eo2, en2, _⟩ := dyn_block ho2 hn2
          have sp1 := extractBytes32Array_spec hs I hd 0 he1
          have sp2 := extractBytes32Array_spec hs I hd 1 he2
          simp only [Nat.zero_mul, Nat.add_zero, Nat.one_mul] at sp1 sp2
          simp only [Nat.add_zero] at eo1
          rw [← eo1, ← en1] at sp1
          rw [← eo2, ← en2] at sp2
          obtain ⟨z1, l1⟩ := arr_block hw1 hl
          obtain ⟨z2, l2⟩ := arr_block hw2 hl
          rw [z1] at sp1; rw [z2] at sp2
          have hargs : Bytes ((evalCD I d).drop 4) := fun x hx => hbytes x (List.mem_of_mem_drop hx)
          have hB1 := slice_bytes hargs (o1 + 32) (32 * n1)
          have hB2 := slice_bytes hargs (o2 + 32) (32 * n2)
          have := eqne_blocks I hB1 hB2 (by rw [l1]; exact sp1) (by rw [l2]; exact sp2) ne hmk
          rw [← ho, this]
          simp only [Forge.Val.equal, listEq_decide]
          congr 2
          exact decide_eq_decide.mpr (words_eq_iff hargs hw1 hw2 l1 l2)
  · simp at hok

/-- **`handler_semantics`**: for every entry of the generated table (all operator kinds × operand type classes), every
meaning-preserving simplifier, all (symbolic) calldata and every interpretation: if the handler built by
`mk_assert_handler` returns a condition and the calldata is a valid ABI encoding of the signature's parameters, the
condition denotes exactly the Forge-std relation on the decoded operands. -/
theorem handler_semantics :
    ∀ e ∈ AssertTable.entries, ∀ (s : Simp), SimpSound s → ∀ (d : Calldata), CDWF d → ∀ (I : Interp) (c : B),
      entryHandler s e d = .ok c →
      ∀ o, Forge.runAssert e.signature (evalCD I d) = some o → o ≠ .reverts → o = Forge.ofBool (c.eval I) := by
  intro e he
  by_cases h1 : e.isArray = true
  · exact handler_semantics_dyn e he (Or.inl h1)
  · by_cases h2 : (decide (e.ty = "bytes") || decide (e.ty = "string")) = true
    · exact handler_semantics_dyn e he (Or.inr h2)
    · exact handler_semantics_words e he (by simpa using h1) (by simpa using h2)

theorem mkCond_exists (I : Interp) {a1 a2 : Arg} {x1 x2 : Nat} (sp1 : ArgSpec I a1 32 x1) (sp2 : ArgSpec I a2 32 x2)
    (r : Forge.Rel) (b : Forge.Base) (hord : isOrder r = true → b = .uint256 ∨ b = .int256) :
    ∃ c, mkCond (bopOf r b) a1 a2 = .ok c := by
  cases r with
  | eq => obtain ⟨c, h, _⟩ := mkCond_eqne I sp1 sp2 false; exact ⟨c, by simpa [bopOf] using h⟩
  | notEq => obtain ⟨c, h, _⟩ := mkCond_eqne I sp1 sp2 true; exact ⟨c, by simpa [bopOf] using h⟩
  | lt =>
    rcases hord rfl with rfl | rfl
    · exact (mkCond_ord I sp1 sp2 (bop := "ULt") (op := .ult) (by decide) (by decide) (by decide)).imp fun _ h => h.1
    · exact (mkCond_ord I sp1 sp2 (bop := "SLt") (op := .slt) (by decide) (by decide) (by decide)).imp fun _ h => h.1
  | gt =>
    rcases hord rfl with rfl | rfl
    · exact (mkCond_ord I sp1 sp2 (bop := "UGt") (op := .ugt) (by decide) (by decide) (by decide)).imp fun _ h => h.1
    · exact (mkCond_ord I sp1 sp2 (bop := "SGt") (op := .sgt) (by decide) (by decide) (by decide)).imp fun _ h => h.1
  | le =>
    rcases hord rfl with rfl | rfl
    · exact (mkCond_ord I sp1 sp2 (bop := "ULe") (op := .ule) (by decide) (by decide) (by decide)).imp fun _ h => h.1
    · exact (mkCond_ord I sp1 sp2 (bop := "SLe") (op := .sle) (by decide) (by decide) (by decide)).imp fun _ h => h.1
  | ge =>
    rcases hord rfl with rfl | rfl
    · exact (mkCond_ord I sp1 sp2 (bop := "UGe") (op := .uge) (by decide) (by decide) (by decide)).imp fun _ h => h.1
    · exact (mkCond_ord I sp1 sp2 (bop := "SGe") (op := .sge) (by decide) (by decide) (by decide)).imp fun _ h => h.1

/-- totality on the word types: for an entry with static word operands and no message argument the handler never
raises — whatever the calldata (also truncated: it is zero-padded) — so `handler_semantics` is not vacuous there, and
the error branches of the model (`valueError` of `mk_cond` in particular) are unreachable from the table -/
theorem handler_total_words :
    ∀ e ∈ AssertTable.entries, e.isArray = false → (decide (e.ty = "bytes") || decide (e.ty = "string")) = false →
    e.hasMsg = false → ∀ (s : Simp), SimpSound s → ∀ (d : Calldata), CDWF d → ∃ c, entryHandler s e d = .ok c := by
  intro e he harr hty hmsg s hs d hd
  have hok := entry_ok he
  unfold entryOk at hok
  split at hok
  · next ex hk hb =>
    simp only [Bool.and_eq_true, beq_iff_eq, Bool.not_eq_true', decide_eq_true_eq] at hok
    obtain ⟨⟨⟨⟨hop, _⟩, _⟩, _⟩, _⟩ := hok
    refine ⟨unaryCond s d (decide (e.op = "True")), ?_⟩
    unfold entryHandler handlerOf
    simp only [hop, show ¬ ((1 : Nat) = 2) by omega, if_false]
    unfold vmAssertUnary msgCheck
    simp [hmsg, bind, Except.bind, pure, Except.pure]
  · next r b hk hb =>
    simp only [Bool.and_eq_true, beq_iff_eq, decide_eq_true_eq, Bool.or_eq_true, Bool.not_eq_true'] at hok
    obtain ⟨⟨⟨⟨⟨hop, hbop⟩, _⟩, hord⟩, _⟩, _⟩ := hok
    have sp1 := extractBytes_spec hs Interp.zero hd 4 32
    have sp2 := extractBytes_spec hs Interp.zero hd 36 32
    have hmk : ∃ c, mkCond (bopOf r b) (extractBytes s d 4 32) (extractBytes s d 36 32) = .ok c := by
      refine mkCond_exists Interp.zero sp1 sp2 r b (fun hr => ?_)
      rw [hr] at hord
      rcases hord with h | h
      · exact absurd h (by decide)
      · exact h.1
    obtain ⟨c, hc⟩ := hmk
    refine ⟨c, ?_⟩
    unfold entryHandler handlerOf
    simp only [hop, if_true, harr, hbop]
    unfold vmAssertBinary msgCheck
    simp [hty, hmsg, AssertTable.off1, AssertTable.off2, AssertTable.word, hc, bind, Except.bind, pure, Except.pure]
  · simp at hok

/-- the Spec gives every signature of the table a meaning (no entry is outside forge-std's vocabulary), and the only
way it withholds a verdict is a decoding failure -/
theorem spec_total : ∀ e ∈ AssertTable.entries, ∀ cd, ∃ o, Forge.runAssert e.signature cd = some o := by
  intro e he cd
  have hok := entry_ok he
  unfold entryOk at hok
  split at hok
  · next ex hk hb =>
    simp only [Bool.and_eq_true, beq_iff_eq, Bool.not_eq_true', decide_eq_true_eq] at hok
    obtain ⟨⟨⟨⟨_, _⟩, _⟩, hparse⟩, hkind⟩ := hok
    unfold Forge.runAssert
    rw [hparse]
    simp only [hkind, shapeOk_unary, if_true]
    cases hdec : Forge.decodeArgs (cd.drop 4) (⟨.bool, false⟩ :: msgTys e.hasMsg) 0 with
    | none => exact ⟨_, rfl⟩
    | some vals =>
      obtain ⟨tl, rfl⟩ := decode_static1 (b := .bool) rfl hdec
      exact ⟨_, rfl⟩
  · next r b hk hb =>
    simp only [Bool.and_eq_true, beq_iff_eq, decide_eq_true_eq, Bool.or_eq_true, Bool.not_eq_true'] at hok
    obtain ⟨⟨⟨⟨⟨_, _⟩, hdyn⟩, hord⟩, hparse⟩, hkind⟩ := hok
    unfold Forge.runAssert
    rw [hparse]
    simp only [hkind, shapeOk_binary, if_true]
    cases hdec : Forge.decodeArgs (cd.drop 4) (⟨b, e.isArray⟩ :: ⟨b, e.isArray⟩ :: msgTys e.hasMsg) 0 with
    | none => exact ⟨_, rfl⟩
    | some vals =>
      obtain ⟨v1, v2, tl, hv1, hv2, rfl⟩ := decodeArgs_two hdec
      simp only
      cases r with
      | eq => exact ⟨_, rfl⟩
      | notEq => exact ⟨_, rfl⟩
      | lt | gt | le | ge =>
        all_goals
          simp only [isOrder] at hord
          rcases hord with h | h
          · exact absurd h (by decide)
          · obtain ⟨hbb, harr⟩ := h
            rw [harr] at hv1 hv2 ⊢
            have hbd : b.isDynamic = false := by rcases hbb with rfl | rfl <;> rfl
            obtain ⟨w1, _, rfl⟩ := decodeArg_static hbd hv1
            obtain ⟨w2, _, rfl⟩ := decodeArg_static hbd hv2
            rcases hbb with rfl | rfl <;> exact ⟨_, rfl⟩
  · simp at hok

/-- `bytes[]` / `string[]` operands: the handler always raises NotImplementedError (it escapes `SEVM.run`; nothing is
silently accepted) -/
theorem bytes_array_not_implemented (s : Simp) (bop ty : String) (log : Bool) (d : Calldata)
    (hty : (decide (ty = "bytes") || decide (ty = "string")) = true) :
    vmAssertBinary s bop ty true log d = .error .notImplemented := by
  unfold vmAssertBinary; simp [hty]

/-- a symbolic offset (or length) makes the extractor raise NotConcreteError: the path ends stuck and the test is
reported as ERROR — no condition is built -/
theorem symbolic_offset_raises (s : Simp) (d : Calldata) (idx : Nat) (t : T)
    (h : extractBytes s d (4 + idx * 32) 32 = .term t) :
    extractBytesArgument s d idx = .error .notConcrete ∧ extractBytes32Array s d idx = .error .notConcrete := by
  unfold extractBytesArgument extractBytes32Array
  simp [h, intOf, bind, Except.bind]

/-- truncated calldata is NOT rejected (finding `malformed-calldata:*`): `assertEq(uint256,uint256)` called with the
selector and one word only — the Spec's decoder fails (Forge reverts the call), the handler compares the word with the
zero padding -/
theorem truncated_accepted :
    ∃ (e : AssertTable.Entry) (d : Calldata), e ∈ AssertTable.entries ∧ CDWF d ∧
      Forge.runAssert e.signature (evalCD Interp.zero d) = some .reverts ∧
      (match entryHandler idSimp e d with | .ok c => c.eval Interp.zero | .error _ => true) = false := by
  refine ⟨⟨0x98296C54, "assertEq(uint256,uint256)", "Eq", 2, "uint256", false, false, false, "Eq"⟩,
    ([0x98, 0x29, 0x6C, 0x54] ++ List.replicate 31 0 ++ [7]).map CByte.con, by decide +kernel, ?_, by decide +kernel,
    by decide +kernel⟩
  intro b hb
  simp only [List.mem_map] at hb
  obtain ⟨n, hn, rfl⟩ := hb
  have : n < 256 := by
    simp only [List.mem_append, List.mem_cons, List.mem_replicate, List.not_mem_nil, or_false] at hn
    omega
  exact this

-- non-vacuity of the dynamic case: assertEq(bytes,bytes) on two 1-byte strings "A" / "B": the handler returns and the Spec says `fails`
example : ∃ e ∈ AssertTable.entries, (decide (e.ty = "bytes") || decide (e.ty = "string")) = true ∧
    ∃ d : Calldata, (match entryHandler idSimp e d with | .ok _ => true | .error _ => false) = true ∧
      Forge.runAssert e.signature (evalCD Interp.zero d) = some .fails := by
  refine ⟨⟨0x97624631, "assertEq(bytes,bytes)", "Eq", 2, "bytes", false, false, false, "Eq"⟩, by decide +kernel, rfl,
    ([0x97, 0x62, 0x46, 0x31] ++ List.replicate 31 0 ++ [0x40] ++ List.replicate 31 0 ++ [0x80]
      ++ List.replicate 31 0 ++ [1] ++ [0x41] ++ List.replicate 31 0
      ++ List.replicate 31 0 ++ [1] ++ [0x42] ++ List.replicate 31 0).map CByte.con, by decide +kernel, by decide +kernel⟩

-- non-vacuity: a table entry with word operands, calldata on which the handler returns and the Spec decodes
example : ∃ e ∈ AssertTable.entries, e.isArray = false ∧ (decide (e.ty = "bytes") || decide (e.ty = "string")) = false ∧
    ∃ d : Calldata, CDWF d ∧ (match entryHandler idSimp e d with | .ok _ => true | .error _ => false) = true ∧
      Forge.runAssert e.signature (evalCD Interp.zero d) = some .fails := by
  refine ⟨⟨0xB12FC005, "assertLt(uint256,uint256)", "Lt", 2, "uint256", false, false, false, "ULt"⟩, by decide +kernel, rfl, rfl,
    ([0xB1, 0x2F, 0xC0, 0x05] ++ List.replicate 31 0 ++ [7] ++ List.replicate 31 0 ++ [5]).map CByte.con, ?_, ?_, ?_⟩
  · intro b hb
    simp only [List.mem_map] at hb
    obtain ⟨n, hn, rfl⟩ := hb
    have : n < 256 := by
      simp only [List.mem_append, List.mem_cons, List.mem_replicate, List.not_mem_nil, or_false] at hn
      omega
    exact this
  · decide +kernel
  · decide +kernel

/-! ## `assert_fail_exact` -/

/-- the oracle `Exec.check` may answer `unsat` only for queries that no interpretation of the path satisfies -/
structure OracleSound (check : List B → B → Sat) : Prop where
  unsat : ∀ π q, check π q = .unsat → ∀ I, conj I π → q.eval I = false

/-- `assert_fail_exact`: for the `vm.assert*` branch of `handle`, with any sound simplifier, membership test and oracle:
 (a) every FailCheatcode successor's path condition is exactly `π ∧ ¬cond`;
 (b) every continuing successor keeps the path `π` unchanged (the code appends nothing: it over-approximates the
     inputs that continue, it never drops one);
 (c) nothing else of the state changes;
 (d) a failure is reported iff the oracle refutes `cond` or does not refute `¬cond`;
 (e) if some input of the path violates the relation a failure IS reported; (f) if some input satisfies it, a
     continuing successor exists. -/
theorem assert_fail_exact {σ : Type} {s : Simp} (hs : SimpSound s) {mem : B → List B → Bool} (hm : MemSound mem)
    {check : List B → B → Sat} (ho : OracleSound check) (π : List B) (st : σ) {cond : B} (hc : cond.WF) :
    (∀ σ' ∈ assertBranch s mem check π st cond, σ'.failed = true →
        ∀ I, conj I σ'.path ↔ (conj I π ∧ cond.eval I = false)) ∧
    (∀ σ' ∈ assertBranch s mem check π st cond, σ'.failed = false → σ'.path = π) ∧
    (∀ σ' ∈ assertBranch s mem check π st cond, σ'.rest = st) ∧
    ((∃ σ' ∈ assertBranch s mem check π st cond, σ'.failed = true) ↔
        (check π cond = .unsat ∨ check π (s.b (.not cond)) ≠ .unsat)) ∧
    ((∃ I, conj I π ∧ cond.eval I = false) → ∃ σ' ∈ assertBranch s mem check π st cond, σ'.failed = true) ∧
    ((∃ I, conj I π ∧ cond.eval I = true) → ∃ σ' ∈ assertBranch s mem check π st cond, σ'.failed = false) := by
  have hnw : (B.not cond).WF := hc
  have hnv : ∀ I, (s.b (.not cond)).eval I = !cond.eval I := fun I => by rw [hs.evalB I _ hnw]; rfl
  have hnwf : (s.b (.not cond)).WF := hs.wfB _ hnw
  by_cases h1 : check π cond = .unsat
  · have hb : assertBranch s mem check π st cond = [⟨π, true, st⟩] := by unfold assertBranch; simp [h1]
    rw [hb]
    refine ⟨?_, ?_, ?_, ?_, ?_, ?_⟩
    · intro σ' hσ' _ I
      rw [List.mem_singleton.mp hσ']
      exact ⟨fun h => ⟨h, ho.unsat _ _ h1 I h⟩, fun h => h.1⟩
    · intro σ' hσ' hf
      rw [List.mem_singleton.mp hσ'] at hf; simp at hf
    · intro σ' hσ'; rw [List.mem_singleton.mp hσ']
    · exact ⟨fun _ => Or.inl h1, fun _ => ⟨_, List.mem_singleton.mpr rfl, rfl⟩⟩
    · intro _; exact ⟨_, List.mem_singleton.mpr rfl, rfl⟩
    · rintro ⟨I, hπ, hcv⟩
      have := ho.unsat _ _ h1 I hπ
      rw [hcv] at this; simp at this
  · by_cases h2 : check π (s.b (.not cond)) = .unsat
    · have hb : assertBranch s mem check π st cond = [⟨π, false, st⟩] := by unfold assertBranch; simp [h1, h2]
      rw [hb]
      refine ⟨?_, ?_, ?_, ?_, ?_, ?_⟩
      · intro σ' hσ' hf
        rw [List.mem_singleton.mp hσ'] at hf; simp at hf
      · intro σ' hσ' _; rw [List.mem_singleton.mp hσ']
      · intro σ' hσ'; rw [List.mem_singleton.mp hσ']
      · constructor
        · rintro ⟨σ', hσ', hf⟩
          rw [List.mem_singleton.mp hσ'] at hf; simp at hf
        · rintro (h | h)
          · exact absurd h h1
          · exact absurd h2 h
      · rintro ⟨I, hπ, hcv⟩
        have := ho.unsat _ _ h2 I hπ
        rw [hnv, hcv] at this; simp at this
      · intro _; exact ⟨_, List.mem_singleton.mpr rfl, rfl⟩
    · have hb : assertBranch s mem check π st cond =
          [⟨π, false, st⟩, ⟨pathAppend s mem π (s.b (.not cond)), true, st⟩] := by unfold assertBranch; simp [h1, h2]
      rw [hb]
      have hmem : ∀ σ' : Succ σ, σ' ∈ [(⟨π, false, st⟩ : Succ σ), ⟨pathAppend s mem π (s.b (.not cond)), true, st⟩] →
          σ' = ⟨π, false, st⟩ ∨ σ' = ⟨pathAppend s mem π (s.b (.not cond)), true, st⟩ := by
        intro σ' h; simpa using h
      refine ⟨?_, ?_, ?_, ?_, ?_, ?_⟩
      · intro σ' hσ' hf I
        rcases hmem σ' hσ' with rfl | rfl
        · simp at hf
        · show conj I (pathAppend s mem π (s.b (.not cond))) ↔ _
          rw [pathAppend_conj hs hm I π hnwf, hnv]; simp
      · intro σ' hσ' hf
        rcases hmem σ' hσ' with rfl | rfl
        · rfl
        · simp at hf
      · intro σ' hσ'
        rcases hmem σ' hσ' with rfl | rfl <;> rfl
      · exact ⟨fun _ => Or.inr h2, fun _ => ⟨_, List.mem_cons_of_mem _ (List.mem_singleton.mpr rfl), rfl⟩⟩
      · intro _; exact ⟨_, List.mem_cons_of_mem _ (List.mem_singleton.mpr rfl), rfl⟩
      · intro _; exact ⟨_, List.mem_cons_self, rfl⟩

-- non-vacuity: a sound oracle exists (one that never answers `unsat`), and both successors do occur
example : OracleSound (fun _ _ => Sat.unknown) := ⟨fun _ _ h => by cases h⟩
example : (assertBranch idSimp (fun _ _ => false) (fun _ _ => Sat.sat) [] ()
    (.cmp .eq (.var "a0" 256) (.var "a1" 256))).map (·.failed) = [false, true] := by decide

/-! ## `assume_exact` -/

/-- `assume_exact`: `vm.assume(c)` either drops the state — then `c` is false under every interpretation — or continues
with a path condition that means exactly `π ∧ c ≠ 0`, not failed, everything else unchanged; on calldata that holds the
argument this is the Spec's `runAssume` (`continues` iff the decoded bool is true). -/
theorem assume_exact {σ : Type} {s : Simp} (hs : SimpSound s) {mem : B → List B → Bool} (hm : MemSound mem)
    (π : List B) (st : σ) {d : Calldata} (hd : CDWF d) :
    (∀ σ', assumeBranch s mem π st d = some σ' →
        σ'.failed = false ∧ σ'.rest = st ∧
        ∀ I, conj I σ'.path ↔ (conj I π ∧ (36 ≤ d.length → Forge.runAssume (evalCD I d) = .continues) ∧
              Assertions.beNat (zread (evalCD I d) 4 32) ≠ 0)) ∧
    (assumeBranch s mem π st d = none →
        ∀ I, Assertions.beNat (zread (evalCD I d) 4 32) = 0 ∧ (36 ≤ d.length → Forge.runAssume (evalCD I d) = .discarded)) := by
  have hlen : ∀ I, (evalCD I d).length = d.length := fun I => by simp [evalCD]
  constructor
  · intro σ' h
    unfold assumeBranch at h
    split at h
    · simp at h
    · next c hne =>
      simp only [Option.some.injEq] at h
      subst h
      refine ⟨rfl, rfl, fun I => ?_⟩
      obtain ⟨hv, hwf⟩ := assumeCond_eval hs I hd
      rw [pathAppend_conj hs hm I π hwf, hv]
      simp only [decide_eq_true_eq]
      constructor
      · rintro ⟨h1, h2⟩
        refine ⟨h1, fun hl => ?_, h2⟩
        rw [runAssume_spec (by rw [hlen]; exact hl), if_pos h2]
      · rintro ⟨h1, _, h2⟩; exact ⟨h1, h2⟩
  · intro h I
    unfold assumeBranch at h
    split at h
    · next heq =>
      obtain ⟨hv, _⟩ := assumeCond_eval hs I hd
      rw [heq] at hv
      simp only [B.eval] at hv
      have hz : Assertions.beNat (zread (evalCD I d) 4 32) = 0 := by
        by_cases hx : Assertions.beNat (zread (evalCD I d) 4 32) = 0
        · exact hx
        · simp [hx] at hv
      refine ⟨hz, fun hl => ?_⟩
      rw [runAssume_spec (by rw [hlen]; exact hl), hz]; simp
    · simp at h

-- non-vacuity: both outcomes of `assumeBranch` occur
example : (assumeBranch idSimp (fun _ _ => false) [] ()
    (([0x4C, 0x63, 0xE5, 0x62] ++ List.replicate 32 0).map CByte.con)).isNone = true := by decide +kernel
example : ((assumeBranch idSimp (fun _ _ => false) [] ()
    (([0x4C, 0x63, 0xE5, 0x62] ++ List.replicate 31 0 ++ [1]).map CByte.con)).map (·.path.length)) = some 0 := by
  decide +kernel

/-! ## `fail_propagates` -/

mutual
  theorem isGlobalFailSet_iff : ∀ c : Ctx, isGlobalFailSet c = true ↔ c.hasFail
    | .mk e h subs => by
      simp only [isGlobalFailSet, Ctx.hasFail, Bool.or_eq_true, beq_iff_eq]
      rw [anyFail_iff subs]
  theorem anyFail_iff : ∀ cs : List Ctx, anyFail cs = true ↔ hasFailList cs
    | [] => by simp [anyFail, hasFailList]
    | c :: cs => by
      simp only [anyFail, hasFailList, Bool.or_eq_true]
      rw [isGlobalFailSet_iff c, anyFail_iff cs]
end

/-- `fail_propagates`: whatever the rest of the interpreter does (`exec`), and at whatever nesting depth
(`it.callbacks` enclosing frames, any number): an execution state that sits on the worklist halted with `FailCheatcode`
(the delayed case created by the vm.assert* branch) is, once the worklist has drained, among the yielded end states —
the very same state: no callback of an enclosing frame ran, its frame is still the failing one — and
`is_global_fail_set` holds on its context. -/
theorem fail_propagates (exec : Item → StepOut) :
    ∀ (n : Nat) (wl ys : List Item) (it : Item), it ∈ wl → it.ctx.error = some .failCheatcode →
      (runN exec n wl ys).1 = [] →
      ∃ y ∈ (runN exec n wl ys).2, y.tag = it.tag ∧ y.callbacks = it.callbacks ∧ isGlobalFailSet y.ctx = true
  | 0, wl, ys, it, hin, _, hd => by simp only [runN] at hd; subst hd; simp at hin
  | _ + 1, [], _, it, hin, _, _ => by simp at hin
  | n + 1, x :: wl, ys, it, hin, herr, hd => by
    rcases List.mem_cons.mp hin with rfl | hin'
    · have hp : popStep exec it = .yielded (onFailCheatcode it) := by unfold popStep; rw [herr]
      unfold runN at hd ⊢
      rw [hp] at hd ⊢
      refine ⟨onFailCheatcode it, runN_mono exec n wl _ _ (by simp), ?_, ?_, onFail_isFail it (fun _ => herr)⟩
      · unfold onFailCheatcode; split <;> rfl
      · unfold onFailCheatcode; split <;> rfl
    · unfold runN at hd ⊢
      split at hd
      · exact fail_propagates exec n wl _ it hin' herr hd
      · exact fail_propagates exec n wl _ it hin' herr hd
      · exact fail_propagates exec n _ _ it (List.mem_append_right _ hin') herr hd

/-- the immediate case (`raise FailCheatcode` while executing the innermost of any number of nested frames): the state
is halted with the error and yielded without running a callback; the global-fail predicate holds on it, and it holds
on every enclosing context that records this context among its (transitive) subcalls -/
theorem fail_immediate (it : Item) (h : it.ctx.halted = false) :
    isGlobalFailSet (onFailCheatcode it).ctx = true ∧ (onFailCheatcode it).callbacks = it.callbacks :=
  ⟨onFail_isFail it (fun hh => by rw [h] at hh; cases hh), by unfold onFailCheatcode; split <;> rfl⟩

theorem fail_visible_from_ancestors (c : Ctx) (hc : isGlobalFailSet c = true) (e : Option ErrKind) (hl : Bool)
    (before after : List Ctx) : isGlobalFailSet (.mk e hl (before ++ c :: after)) = true := by
  rw [isGlobalFailSet_iff] at hc ⊢
  simp only [Ctx.hasFail]
  right
  induction before with
  | nil => exact Or.inl hc
  | cons b bs ih => exact Or.inr ih

-- non-vacuity: a state three frames deep, pushed halted with FailCheatcode below an unrelated state, is yielded unchanged
example : (runN (fun _ => .dropped) 5
    [⟨.mk none false [], 0, 1⟩, ⟨.mk (some .failCheatcode) true [], 3, 2⟩] []).2.map (fun y => (y.tag, y.callbacks)) = [(2, 3)] := by
  decide

end HalmosVerif.Props.C13
