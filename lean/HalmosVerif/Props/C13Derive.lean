/-
Props.C13Derive — C13, the table ties (kernel evaluation over the generated table of derivations).

Model: `Model/Assertions.lean` (assertions.py, the argument extractors of utils.py, the vm.assert*/vm.assume branches of
`hevm_cheat_code.handle`, the FailCheatcode path through `SEVM.run`, `is_global_fail_set`); Spec: `Spec/Forge.lean`;
table: `Gen/AssertTable.lean` (regenerated from /repo, with ast pins of everything the model mirrors by hand).
The Keccak side (`selectors_ok`: every selector is the selector of its signature) is in `Props/C13Tables*.lean`.
-/
import HalmosVerif.Lemmas.AssertionsTable
import HalmosVerif.Props.C13DeriveA
import HalmosVerif.Props.C13DeriveB
import HalmosVerif.Gen.Selectors

namespace HalmosVerif.Props.C13
open HalmosVerif.Model HalmosVerif.Model.Assertions HalmosVerif.Spec HalmosVerif.Gen HalmosVerif.Lemmas.Assertions

/-! ## the generated table and the hand-written vocabulary -/

/-- the table of derivations lists exactly the (selector, signature) pairs of the Keccak-checked selector table -/
theorem table_matches_selectors :
    AssertTable.entries.map (fun e => (e.selector, e.signature)) = Selectors.assertSelectors := by decide +kernel

/-- the model's `mk_assert_handler` (`derive`, working on the signature text with the constants read from the source)
decides, for every signature of the table, what the extractor derived independently -/
theorem derive_agrees : ∀ e ∈ AssertTable.entries,
    derive e.signature = some ⟨e.op, e.operands, e.ty, e.isArray, e.hasMsg, e.bop⟩ := by
  have h : AssertTable.entries.all deriveOk = true := by
    rw [entries_split]
    simp only [List.all_append, derive_chunk0, derive_chunk1, derive_chunk2, derive_chunk3, Bool.and_self]
  intro e he
  have := List.all_eq_true.mp h e he
  simpa [deriveOk] using this

/-- table tie: the operator / type / bop vocabulary of the generated table is exactly the hand-written enumeration the
Spec and the proofs range over (8 operators, 7 base types, the 10 `mk_cond` operators), no decimal variant -/
theorem table_vocabulary :
    (AssertTable.entries.map (·.op)).eraseDups = ["True", "False", "Eq", "NotEq", "Lt", "Gt", "Le", "Ge"] ∧
    (AssertTable.entries.map (·.ty)).eraseDups = ["bool", "uint256", "int256", "address", "bytes32", "string", "bytes"] ∧
    (AssertTable.entries.map (·.bop)).eraseDups = ["", "Eq", "NotEq", "ULt", "SLt", "UGt", "SGt", "ULe", "SLe", "UGe", "SGe"] ∧
    AssertTable.entries.all (fun e => !e.decimal) = true ∧
    AssertTable.entries.length = AssertTable.entriesCount := by decide +kernel

/-- every order operator of `mk_cond`'s chain is bound to the z3 operator of the same name and signedness -/
theorem condOps_meaning :
    condOp "ULt" = some .ult ∧ condOp "UGt" = some .ugt ∧ condOp "ULe" = some .ule ∧ condOp "UGe" = some .uge ∧
    condOp "SLt" = some .slt ∧ condOp "SGt" = some .sgt ∧ condOp "SLe" = some .sle ∧ condOp "SGe" = some .sge := by
  decide

/-- the source text of every function / branch that `Model/Assertions.lean` mirrors by hand is the text the model was
written against (sha256 prefixes of the normalised `ast.unparse`, regenerated from /repo each run) -/
theorem source_pins_ok : AssertTable.sourcePins = [
  ("assertions.is_empty_bytes", "851835daf13c682e"),
  ("assertions.mk_assert_handler", "ace8647027da0154"),
  ("assertions.mk_cond", "49960fcb9a61ba7a"),
  ("assertions.vm_assert_binary", "3dee750010c7fc55"),
  ("assertions.vm_assert_unary", "0dcfdcd76d5415bb"),
  ("cheatcodes.handle.assert_branch", "4da368cba5ad61d4"),
  ("cheatcodes.handle.assume_branch", "3d7313483f016dbc"),
  ("cheatcodes.handle.prologue", "3669758a57efddd7"),
  ("main.is_global_fail_set", "030cf7474989401e"),
  ("sevm.Exec.halt", "5c591284afc91042"),
  ("sevm.Exec.is_halted", "e5de64a304447a5e"),
  ("sevm.Path.append", "24af98fce5f27413"),
  ("sevm.Path.branch", "a207a0514b9fa270"),
  ("sevm.call.hevm_branch", "42efa3694c46b2f5"),
  ("sevm.create_branch", "b5e498b69301e76a"),
  ("sevm.run.delayed_reraise", "1ba99b6f9b7e2738"),
  ("sevm.run.except_FailCheatcode", "98302c7d4a45fbce"),
  ("sevm.run.except_InfeasiblePath", "5c9d2a2419bf56d7"),
  ("utils.bv_value_to_bytes", "e4b770d3054b6f06"),
  ("utils.bytes_to_bv_value", "fa66886b3d921170"),
  ("utils.extract_bytes", "099a85a5c83302b6"),
  ("utils.extract_bytes32_array_argument", "b79166ed4d103b79"),
  ("utils.extract_bytes_argument", "217455d6ffe75a7d"),
  ("utils.extract_string_argument", "5e83a39adec9799a"),
  ("utils.extract_word", "720cd76e82081d63"),
  ("utils.int_of", "361ad5af09726dc5"),
  ("utils.test", "20d7dd91da7f9ece"),
  ("utils.unbox_int", "4d183c24849990a5")
] := by decide +kernel

/-- every shape check of the extractor on the mirrored source passed (regex, operator lists, the `typ == "uint256"` sign
decision, arities, `mk_cond`'s chain and operand order, literal offsets, the exception hierarchy) -/
theorem source_shape_ok : AssertTable.sourceProblems = [] := by decide

/-- constants of `mk_assert_handler` / `vm_assert_*` read from the source are the ones the proofs assume -/
theorem source_constants_ok :
    AssertTable.unaryOps = ["True", "False"] ∧ AssertTable.eqOps = ["Eq", "NotEq"] ∧ AssertTable.unsignedTy = "uint256" ∧
    AssertTable.signPrefixUnsigned = "U" ∧ AssertTable.signPrefixSigned = "S" ∧ AssertTable.arityBinary = 2 ∧
    AssertTable.arityUnary = 1 ∧ AssertTable.off1 = 4 ∧ AssertTable.off2 = 36 ∧ AssertTable.word = 32 ∧
    AssertTable.unaryOff = 4 ∧ AssertTable.msgIdxBinary = 2 ∧ AssertTable.msgIdxUnary = 1 ∧
    AssertTable.assumeSelector = 0x4C63E562 := by decide

example : (AssertTable.entries.find? (fun e => e.selector = 0x3E914080)).map (·.bop) = some "SLt" := by decide +kernel

end HalmosVerif.Props.C13
