/-
Props.C13DeriveA — kernel evaluation of `derive_agrees` (C13) over the first two chunks of the generated table.
-/
import HalmosVerif.Lemmas.AssertionsTableA

namespace HalmosVerif.Props.C13
open HalmosVerif.Lemmas.Assertions

theorem derive_chunk0 : (chunk 0).all deriveOk = true := by decide +kernel
theorem derive_chunk1 : (chunk 1).all deriveOk = true := by decide +kernel

end HalmosVerif.Props.C13
