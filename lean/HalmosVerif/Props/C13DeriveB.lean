/-
Props.C13DeriveB — kernel evaluation of `derive_agrees` (C13) over the last two chunks of the generated table.
-/
import HalmosVerif.Lemmas.AssertionsTableB

namespace HalmosVerif.Props.C13
open HalmosVerif.Lemmas.Assertions

theorem derive_chunk2 : (chunkB 2).all deriveOk = true := by decide +kernel
theorem derive_chunk3 : (chunkB 3).all deriveOk = true := by decide +kernel

end HalmosVerif.Props.C13
