/-
Props.C13Tables — `selectors_ok` (C13): every selector constant halmos dispatches on is the 4-byte Keccak selector of
the Forge-std / halmos-cheatcodes / console signature it is bound to in the source.

The tables are regenerated from /repo by `tools/extract/selectors.py` (`Gen/Selectors.lean`); each table is the
concatenation of chunks, each chunk is evaluated by the kernel in `C13TablesA/B/C`, and the theorems below lift that to
membership in the whole table.  A new chunk that no theorem covers makes these proofs fail (the `++` no longer matches).
-/
import HalmosVerif.Props.C13TablesA
import HalmosVerif.Props.C13TablesB
import HalmosVerif.Props.C13TablesC
import HalmosVerif.Gen.HashTables

namespace HalmosVerif.Props.C13
open HalmosVerif.Spec HalmosVerif.Lemmas.KeccakTables HalmosVerif.Gen.Selectors

/-- every key of `assert_cheatcode_handler` is the selector of the signature given to `mk_assert_handler` -/
theorem assert_selectors_ok : ∀ e ∈ assertSelectors, Keccak.selector e.2 = e.1 := fun e he =>
  (selOk_iff e).mp (forall_mem_append (all_mem assertSelectors0_ok) (all_mem assertSelectors1_ok) e he)

/-- every `hevm_cheat_code.*_sig` is the selector of the signature in the comment above it -/
theorem hevm_selectors_ok : ∀ e ∈ hevmSelectors, Keccak.selector e.2 = e.1 := fun e he =>
  (selOk_iff e).mp (forall_mem_append (all_mem hevmSelectors0_ok) (all_mem hevmSelectors1_ok) e he)

/-- every key of `halmos_cheat_code.handlers` is the selector of the signature in its trailing comment -/
theorem halmos_selectors_ok : ∀ e ∈ halmosSelectors, Keccak.selector e.2 = e.1 := fun e he =>
  (selOk_iff e).mp (all_mem halmosSelectors0_ok e he)

/-- every key of `console.handlers` is the selector of `log(<argument types decoded by its handler>)` -/
theorem console_selectors_ok : ∀ e ∈ consoleSelectors, Keccak.selector e.2 = e.1 := fun e he =>
  (selOk_iff e).mp (all_mem consoleSelectors0_ok e he)

/-- C13 `selectors_ok`: all four tables at once -/
theorem selectors_ok :
    ∀ e ∈ assertSelectors ++ hevmSelectors ++ halmosSelectors ++ consoleSelectors, Keccak.selector e.2 = e.1 :=
  forall_mem_append (forall_mem_append (forall_mem_append assert_selectors_ok hevm_selectors_ok) halmos_selectors_ok)
    console_selectors_ok

-- non-vacuity: the tables are the sizes the extractor counted, and a concrete entry is covered
example : assertSelectors.length = assertSelectorsCount ∧ hevmSelectors.length = hevmSelectorsCount ∧
    halmosSelectors.length = halmosSelectorsCount ∧ consoleSelectors.length = consoleSelectorsCount := by decide
example : assertSelectorsCount > 0 ∧ hevmSelectorsCount > 0 ∧ halmosSelectorsCount > 0 ∧ consoleSelectorsCount > 0 := by
  decide
example : Keccak.selector "assertTrue(bool)" = 0x0C9FD581 :=
  assert_selectors_ok (0x0C9FD581, "assertTrue(bool)") (by decide)

/-- selectors within one dispatch table are pairwise distinct (Python dict keys; also enforced by the extractor) -/
theorem selectors_nodup : (assertSelectors.map (·.1)).Nodup ∧ (hevmSelectors.map (·.1)).Nodup ∧
    (halmosSelectors.map (·.1)).Nodup ∧ (consoleSelectors.map (·.1)).Nodup := by decide +kernel

/-! ### derived constants used by the cheat-code dispatch -/
open HalmosVerif.Gen.HashTables

/-- `PANIC_SELECTOR` is the selector of the signature named in its comment (`Panic(uint256)`) -/
theorem panic_selector_ok : Keccak.selector panicSignature = panicSelector := by decide +kernel

/-- `hevm_cheat_code.address` = `address(bytes20(uint160(uint256(keccak256('hevm cheat code')))))` -/
theorem hevm_address_ok : Keccak.keccak256 (Keccak.utf8 hevmAddressSeed) % 2 ^ 160 = hevmAddress := by decide +kernel

/-- `halmos_cheat_code.address` = `address(bytes20(uint160(uint256(keccak256('svm cheat code')))))` -/
theorem svm_address_ok : Keccak.keccak256 (Keccak.utf8 svmAddressSeed) % 2 ^ 160 = svmAddress := by decide +kernel

/-- `console.address` is the ASCII string "console.log" read as a number (forge-std `CONSOLE_ADDRESS`) -/
theorem console_address_ok : Keccak.beOfBytes (Keccak.utf8 "console.log") = consoleAddress := by decide +kernel

/-- `FOUNDRY_CALLER` = forge-std `DEFAULT_SENDER` = `address(uint160(uint256(keccak256("foundry default caller"))))` -/
theorem foundry_caller_ok :
    Keccak.keccak256 (Keccak.utf8 "foundry default caller") % 2 ^ 160 = foundryCaller := by decide +kernel

/-- the three cheat-code addresses are pairwise distinct and distinct from the test contract / caller -/
theorem magic_addresses_distinct : (cheatcodeAddresses ++ [foundryTest, foundryCaller]).Nodup := by decide +kernel

end HalmosVerif.Props.C13
