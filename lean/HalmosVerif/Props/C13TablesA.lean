/-
Props.C13TablesA — kernel evaluation of the `assert_cheatcode_handler` selector table (two chunks).
Each theorem says: for every (selector, signature) of the chunk, the first four bytes of Keccak-256 of the signature
are the selector.  `Props/C13Tables.lean` lifts these to the whole tables.
-/
import HalmosVerif.Lemmas.KeccakTables
import HalmosVerif.Gen.Selectors

namespace HalmosVerif.Props.C13
open HalmosVerif.Lemmas.KeccakTables HalmosVerif.Gen.Selectors

theorem assertSelectors0_ok : assertSelectors0.all selOk = true :=
  all_quarters 10 (by decide +kernel) (by decide +kernel) (by decide +kernel) (by decide +kernel)
theorem assertSelectors1_ok : assertSelectors1.all selOk = true :=
  all_quarters 10 (by decide +kernel) (by decide +kernel) (by decide +kernel) (by decide +kernel)

end HalmosVerif.Props.C13
