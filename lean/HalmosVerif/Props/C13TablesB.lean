/-
Props.C13TablesB — kernel evaluation of the `hevm_cheat_code.*_sig` selector table (two chunks).
-/
import HalmosVerif.Lemmas.KeccakTables
import HalmosVerif.Gen.Selectors

namespace HalmosVerif.Props.C13
open HalmosVerif.Lemmas.KeccakTables HalmosVerif.Gen.Selectors

theorem hevmSelectors0_ok : hevmSelectors0.all selOk = true :=
  all_quarters 10 (by decide +kernel) (by decide +kernel) (by decide +kernel) (by decide +kernel)
theorem hevmSelectors1_ok : hevmSelectors1.all selOk = true :=
  all_quarters 10 (by decide +kernel) (by decide +kernel) (by decide +kernel) (by decide +kernel)

end HalmosVerif.Props.C13
