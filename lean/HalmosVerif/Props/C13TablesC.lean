/-
Props.C13TablesC — kernel evaluation of the `halmos_cheat_code.handlers` and `console.handlers` selector tables.
-/
import HalmosVerif.Lemmas.KeccakTables
import HalmosVerif.Gen.Selectors

namespace HalmosVerif.Props.C13
open HalmosVerif.Lemmas.KeccakTables HalmosVerif.Gen.Selectors

theorem halmosSelectors0_ok : halmosSelectors0.all selOk = true :=
  all_quarters 10 (by decide +kernel) (by decide +kernel) (by decide +kernel) (by decide +kernel)
theorem consoleSelectors0_ok : consoleSelectors0.all selOk = true :=
  all_quarters 10 (by decide +kernel) (by decide +kernel) (by decide +kernel) (by decide +kernel)

end HalmosVerif.Props.C13
