/-
C14 — Prank, state-setting cheatcodes and fresh symbols behave as specified.

Model: `Model.Prank` (cheatcodes.py `Prank`, the prank handlers, `Exec.resolve_prank` and its consumption sites in
`SEVM.call` / `SEVM.create`, per-frame `CallContext.prank`, restoration at return, `run_message`; the state cheatcode
handlers; `create_generic` and the `create_*` encoders).  Spec: `Spec.Foundry`.  The lists `lookupExcluded`,
`cheatcodeAddresses` and `createLookupAddress` come from `Gen.Prank`, regenerated from the source on every run.
-/
import HalmosVerif.Lemmas.C14
import HalmosVerif.Lemmas.C14Enc
import HalmosVerif.Lemmas.C14Nest

namespace HalmosVerif.Props.C14
open HalmosVerif.Spec.Foundry HalmosVerif.Model.Prank HalmosVerif.Gen.Prank HalmosVerif.Lemmas.C14
open HalmosVerif.Spec.Evm (World Params lookupD addrMask)

/-! ## prank_refines

Full statement (FALSE of the current code, see `prank_refines_cex`):
  `∀ h : List Op, abs (Model.Prank.run {} h) = Spec.Foundry.run endpoints {} h`
— for every history (any length, any nesting, any interleaving of prank-family calls, CALL-family instructions,
creations, returns, new transactions) the frame stack with every frame's (address, msg.sender, tx.origin, prank record),
the (msg.sender, tx.origin) shown to every callee, and the error status are those of the Foundry state machine.

Proved: the same for every history that never calls console.log's address, from every well-formed state (induction
over the history with the frame-stack invariant `WF`: no record has an origin without a sender, in the running frame
and in every suspended caller). -/

theorem prank_refines_partial (h : List Op) (hc : ∀ op ∈ h, NoConsole op) (s : State) (hw : WF s) :
    abs (Model.Prank.run s h) = Spec.Foundry.run endpoints (abs s) h :=
  (run_sim h s hw hc).1

/-- from the initial state (no transaction yet) -/
theorem prank_refines_init_partial (h : List Op) (hc : ∀ op ∈ h, NoConsole op) :
    abs (Model.Prank.run {} h) = Spec.Foundry.run endpoints {} h :=
  prank_refines_partial h hc {} WF_init

/-- The invariant really is an invariant (so the hypothesis of `prank_refines_partial` is met by every reachable state). -/
theorem prank_wf_reachable (h : List Op) (hc : ∀ op ∈ h, NoConsole op) : WF (Model.Prank.run {} h) :=
  (run_sim h {} WF_init hc).2

def demoHist : List Op :=
  [.newTx 0xCAFE 0xBEEF 0x1000, .startPrank2 0xB0B 0x717, .call .call hevmAddress false, .call .call 0x3000 true,
   .prank 0xCA11, .call .staticcall 0x2000 true, .ret, .call .call 0x2000 true, .ret, .ret, .call .delegatecall 0x2000 true,
   .ret, .stopPrank, .create 0xAAAA0002, .ret, .ret, .newTx 1 2 3, .call .call 0x2000 false]

-- non-vacuity: a history with nesting, both prank forms, a cheatcode call, creation and a second transaction meets the
-- hypothesis, and what it shows is not trivial (the pranked sender and origin appear)
example : (∀ op ∈ demoHist, NoConsole op) ∧
    (Spec.Foundry.run endpoints {} demoHist).obs.map (fun o => (o.sender, o.origin)) =
      [(0x1000, 0xBEEF), (0xB0B, 0x717), (0xCA11, 0x717), (0x3000, 0x717), (0xCAFE, 0x717), (0x1000, 0xBEEF), (3, 2)] ∧
    abs (Model.Prank.run {} demoHist) = Spec.Foundry.run endpoints {} demoHist := by
  decide

/-- The full statement is false: `Prank.lookup` excludes only the vm and svm addresses, so a `console.log` between
    `vm.prank(a)` and the call it was meant for uses the prank up (and is itself "pranked").  Replayed on the real SEVM by
    the harness (key `prank:call-to-console:model-and-code-deviate-from-Foundry`). -/
theorem prank_refines_cex :
    ¬ ∀ h : List Op, abs (Model.Prank.run {} h) = Spec.Foundry.run endpoints {} h := by
  intro hall
  have := hall [.newTx 0xCAFE 0xBEEF 0x1000, .prank 0xA11CE, .call .call consoleAddress false, .call .call 0x2000 true]
  revert this
  decide

/-! ## prank_scope -/

/-- Calls to the vm / svm addresses never consume or observe a prank: the state is unchanged except for the recorded
    message, which shows the frame's own address and origin (Model, all states). -/
theorem prank_scope_cheat (s : State) (x : Exec) (hx : s.ex = some x) (k : CallKind) (to : Nat) (enters : Bool)
    (hto : to = hevmAddress ∨ to = halmosAddress) :
    stepExec s x (.call k to enters) =
      { s with obs := s.obs ++ [{ to := to,
                                   self := (match k with | .call | .staticcall => to | _ => x.context.message.target),
                                   sender := (match k with | .delegatecall => x.context.message.caller | _ => x.context.message.target),
                                   origin := x.context.message.origin }] } := by
  have hex : lookupExcluded.contains to = true := by rw [excluded_iff]; rcases hto with h | h <;> simp [h]
  have hch : cheatcodeAddresses.contains to = true := by rw [cheat_iff]; rcases hto with h | h <;> simp [h]
  obtain ⟨ex, obs, stuck⟩ := s
  simp only at hx
  subst hx
  have hm : to ∈ cheatcodeAddresses := by simpa using hch
  cases k <;> simp [stepExec, resolve_excluded hex, hm]

def demoExec : Exec := { context := { message := ⟨1, 2, 3⟩, prank := { active := { sender := some 9 } } } }

example : stepExec { ex := some demoExec } demoExec (.call .call hevmAddress false) =
    { ex := some demoExec, obs := [{ to := hevmAddress, self := hevmAddress, sender := 1, origin := 3 }] } := by decide

/-- A frame entered by a call starts with no prank, whatever its caller's record is; the caller's record (as left by
    `resolve_prank`) is what the matching return restores. -/
def entered (msg : Message) (x : Exec) (to : Nat) : Exec :=
  { context := { message := msg, prank := {} }, callbacks := (resolvePrank x.context to).2 :: x.callbacks }

theorem prank_scope_frame (s : State) (x : Exec) (k : CallKind) (to : Nat) (hto : cheatcodeAddresses.contains to = false) :
    ∃ msg, (stepExec s x (.call k to true)).ex = some (entered msg x to) ∧
      (stepExec (stepExec s x (.call k to true)) (entered msg x to) Op.ret).ex =
        some { context := (resolvePrank x.context to).2, callbacks := x.callbacks } := by
  have hm : to ∉ cheatcodeAddresses := by simpa using hto
  simp [stepExec, hm, entered]

/-- Nested frames, any depth: whatever the callee does — any history `inner` in which every frame it enters returns
    (`Body`: prank-family calls, cheatcode calls, calls, creations, nested to any depth) — the caller resumes with exactly
    the record `resolve_prank` left when it made the call and with the same suspended callers, unless the path got stuck. -/
theorem prank_scope_nested (s : State) (x : Exec) (hst : s.stuck = false) (hx : s.ex = some x) (k : CallKind) (to : Nat)
    (hto : cheatcodeAddresses.contains to = false) (inner : List Op) (hb : Body inner) :
    (Model.Prank.run s (.call k to true :: (inner ++ [.ret]))).stuck = true ∨
    (Model.Prank.run s (.call k to true :: (inner ++ [.ret]))).ex =
      some { context := (resolvePrank x.context to).2, callbacks := x.callbacks } :=
  nested_returns s x hst hx k to hto inner hb

-- non-vacuity: a callee that pranks, calls, creates and enters a further frame is a `Body`
example : Body [.startPrank 5, .call .call 0x2000 true, .prank 6, .ret, .create 7, .ret, .call .call hevmAddress true] :=
  .simple _ _ trivial (.nest .call 0x2000 [.prank 6] [.create 7, .ret, .call .call hevmAddress true] (by decide)
    (.simple _ _ trivial .nil) (.nestCreate 7 [] [.call .call hevmAddress true] .nil (.simple _ _ (Or.inl (by decide)) .nil)))

/-- the same for creations -/
theorem prank_scope_create (s : State) (x : Exec) (a : Nat) :
    ∃ msg, (stepExec s x (.create a)).ex =
        some { context := { message := msg, prank := {} },
               callbacks := (resolvePrank x.context createLookupAddress).2 :: x.callbacks } := by
  simp [stepExec]

/-- A later transaction never inherits a prank. -/
theorem prank_scope_tx (s : State) (hs : s.stuck = false) (a b t : Nat) :
    (Model.Prank.step s (.newTx a b t)).ex = some { context := { message := ⟨t, a, b⟩, prank := {} }, callbacks := [] } := by
  simp [Model.Prank.step, hs]

example : ((Model.Prank.run {} [.newTx 1 2 3, .startPrank 7, .ret, .newTx 4 5 6, .call .call 0x2000 false]).obs.map (·.sender)) = [6] := by
  decide

/-! ## prank_no_override -/

/-- `prank`/`startPrank` on an active record fail and leave it unchanged (all four entry points go through `prank`). -/
theorem prank_no_override (p : Prank) (hp : p.toBool = true) (a : Nat) (o : Option Nat) (k : Bool) :
    p.prank a o k = (false, p) ∧ p.startPrank a o = (false, p) := by
  simp [Prank.startPrank, Prank.prank, Prank.toBool] at *
  simp [hp]

/-- … and the handler turns that into a stuck path without touching the execution state. -/
theorem prank_no_override_step (s : State) (x : Exec) (hp : x.context.prank.toBool = true) (a o : Nat) :
    stepExec s x (.prank a) = { s with stuck := true } ∧ stepExec s x (.prank2 a o) = { s with stuck := true } ∧
    stepExec s x (.startPrank a) = { s with stuck := true } ∧ stepExec s x (.startPrank2 a o) = { s with stuck := true } := by
  have h := fun o k => (prank_no_override x.context.prank hp a o k)
  simp [stepExec, afterPrank, (h none false).1, (h (some o) false).1, (h none true).2, (h (some o) true).2]

/-- on an inactive record they succeed -/
theorem prank_sets (a : Nat) (o : Option Nat) (k : Bool) :
    ({} : Prank).prank a o k = (true, { active := { sender := some a, origin := o }, keep := k }) := by
  simp [Prank.prank, PrankResult.toBool, NO_PRANK]

example : ({ active := { sender := some 5 } } : Prank).toBool = true := by decide

/-! ## create_width_range -/

/-- `createUint(bits)`, `randomUint(bits)`, `createAddress` (160), `createBool` (1): the word is a valid `uintN`, and every
    `uintN` value is produced (by itself as the variable's value). -/
theorem create_width_range_uint (bits : Nat) (hb : bits ≤ 256) :
    (∀ v, IsUint bits (zext256 bits v)) ∧ (∀ w, IsUint bits w → zext256 bits w = w) := by
  refine ⟨fun v => ?_, fun w hw => ?_⟩
  · rw [zext256_eq hb]; exact Nat.mod_lt _ (Nat.two_pow_pos bits)
  · rw [zext256_eq hb]; exact Nat.mod_eq_of_lt hw

theorem create_width_range_address : (∀ v, IsAddress (zext256 160 v)) ∧ (∀ w, IsAddress w → zext256 160 w = w) :=
  create_width_range_uint 160 (by decide)

theorem create_width_range_bool : (∀ v, IsBool (zext256 1 v)) ∧ (∀ w, IsBool w → zext256 1 w = w) := by
  have h := create_width_range_uint 1 (by decide)
  refine ⟨fun v => ?_, fun w hw => h.2 w (by unfold IsUint; rcases hw with rfl | rfl <;> omega)⟩
  have := h.1 v
  unfold IsUint at this
  unfold IsBool
  omega

/-- `createInt(bits)`, `randomInt(bits)`: the word is a valid sign-extended `intN`; read as `int256` it is the variable read
    as `intN`; that value ranges over exactly `[-2^(bits-1), 2^(bits-1))`. -/
theorem create_width_range_int (bits : Nat) (h1 : 1 ≤ bits) (hb : bits ≤ 256) :
    (∀ v, IsInt bits (sext256 bits v)) ∧
    (∀ x : BitVec bits, (x.signExtend 256).toInt = x.toInt ∧ -2 ^ (bits - 1) ≤ x.toInt ∧ x.toInt < 2 ^ (bits - 1)) ∧
    (∀ i : Int, -2 ^ (bits - 1) ≤ i → i < 2 ^ (bits - 1) → ∃ x : BitVec bits, ((x.signExtend 256).toInt = i)) := by
  refine ⟨fun v => sext256_isInt h1 hb v, fun x => ⟨sext256_toInt hb x, BitVec.le_toInt x, BitVec.toInt_lt⟩, ?_⟩
  intro i hlo hhi
  refine ⟨BitVec.ofInt bits i, ?_⟩
  rw [sext256_toInt hb, BitVec.toInt_ofInt]
  have h4 : (2 : Int) ^ bits = 2 ^ (bits - 1) * 2 := by
    have := two_pow_pred h1
    exact_mod_cast this.symm
  apply Int.bmod_eq_of_le
  · have : ((2 ^ bits : Nat) : Int) = 2 ^ bits := by norm_cast
    rw [this, h4]; omega
  · have : ((2 ^ bits : Nat) : Int) = 2 ^ bits := by norm_cast
    rw [this, h4]; omega

example : sext256 8 0x80 = 2 ^ 256 - 128 ∧ sext256 8 0x7f = 127 ∧ zext256 8 0x1ff = 0xff := by decide

/-- `createBytes4` / `createBytes8` (n = 4, 8): `n` payload bytes followed by `32 - n` zero bytes; `createBytes(n)` /
    `createString(n)` / `randomBytes(n)`: head offset 32, length `n`, then the `n` payload bytes. -/
theorem create_width_range_bytes (n v : Nat) :
    DecodesToBytes (encodeTupleBytes n (beBytes n v)) (beBytes n v) ∧ (beBytes n v).length = n ∧
    ((beBytes n v ++ List.replicate (32 - n) 0).drop n = List.replicate (32 - n) 0) := by
  refine ⟨encodeTupleBytes_decodes n v, beBytes_length n v, ?_⟩
  exact List.drop_left' (beBytes_length n v)

/-- range variants: the path conditions admit exactly the values of `[lo, hi]`, and `lo > hi` is rejected. -/
theorem create_width_range_minmax (cnt : Nat) (name uid : List Char) (lo hi : Nat) :
    (lo > hi → create cnt name uid (.uintMinMax lo hi) = .halmosError) ∧
    (lo ≤ hi → ∃ sym, create cnt name uid (.uintMinMax lo hi) =
        .ok (cnt + 1) (some sym) (fun v => beBytes 32 (v % W)) (fun v => decide (lo ≤ v % W) && decide (v % W ≤ hi)) ∧
        sym.bits = 256 ∧ ∀ w, w < 2 ^ 256 → ((decide (lo ≤ w % W) && decide (w % W ≤ hi)) = true ↔ InRange lo hi w)) := by
  constructor
  · intro h; simp [create, h]
  · intro h
    refine ⟨_, by simp [create, createGeneric, Nat.not_lt.mpr h]; rfl, rfl, ?_⟩
    intro w hw
    have : w % W = w := Nat.mod_eq_of_lt hw
    simp [InRange, this, hw]

/-- the width each encoder must ask `create_generic` for -/
def requestedBits : Enc → Nat
  | .uint b | .int b => b
  | .uint256 | .int256 | .bytes32 | .uintMinMax .. => 256
  | .bytes n | .string n => n * 8
  | .bytes4 => 32 | .bytes8 => 64 | .address => 160 | .bool => 1

/-- every encoder's variable has exactly the width of the requested type, and the counter moves by one -/
theorem create_width (cnt : Nat) (name uid : List Char) (e : Enc) (cnt' : Nat) (sym : Sym) (d : Nat → List Nat)
    (c : Nat → Bool) (h : create cnt name uid e = .ok cnt' (some sym) d c) :
    sym.bits = requestedBits e ∧ cnt' = cnt + 1 ∧ ∃ n t u, sym.label = label n t u (cnt + 1) := by
  cases e <;> simp only [create, createGeneric, requestedBits] at h ⊢
  case uint b =>
    by_cases h1 : b > 256 <;> simp only [h1, ↓reduceIte] at h
    · cases h
    · by_cases h2 : b = 0 <;> simp only [h2, ↓reduceIte] at h
      · cases h
      · cases h; exact ⟨rfl, rfl, _, _, _, rfl⟩
  case int b =>
    by_cases h1 : b > 256 <;> simp only [h1, ↓reduceIte] at h
    · cases h
    · by_cases h2 : b = 0 <;> simp only [h2, ↓reduceIte] at h
      · cases h
      · cases h; exact ⟨rfl, rfl, _, _, _, rfl⟩
  case bytes n =>
    by_cases h2 : n * 8 = 0 <;> simp only [h2, ↓reduceIte] at h <;> cases h
    exact ⟨rfl, rfl, _, _, _, rfl⟩
  case string n =>
    by_cases h2 : n * 8 = 0 <;> simp only [h2, ↓reduceIte] at h <;> cases h
    exact ⟨rfl, rfl, _, _, _, rfl⟩
  case uintMinMax lo hi =>
    by_cases h1 : lo > hi <;> simp only [h1, ↓reduceIte] at h
    · cases h
    · simp at h; obtain ⟨rfl, rfl, _, _⟩ := h; exact ⟨rfl, rfl, _, _, _, rfl⟩
  all_goals (simp at h; obtain ⟨rfl, rfl, _, _⟩ := h; exact ⟨rfl, rfl, _, _, _, rfl⟩)

/-- the requests halmos rejects or crashes on: widths above 256 and empty ranges (HalmosException), width 0 (an internal
    Python exception escapes — outside the property's quantifier, reported in the evidence) -/
theorem create_rejects (cnt : Nat) (name uid : List Char) :
    (∀ b, b > 256 → create cnt name uid (.uint b) = .halmosError ∧ create cnt name uid (.int b) = .halmosError) ∧
    create cnt name uid (.uint 0) = .crash ∧ create cnt name uid (.int 0) = .crash := by
  refine ⟨fun b hb => ?_, ?_, ?_⟩ <;> simp [create, createGeneric]
  all_goals omega

/-! ## create_fresh -/

/-- `create_generic` increments the counter exactly when it makes a variable, and the variable carries the new count. -/
theorem create_generic_counter (cnt bits : Nat) (name type uid : List Char) :
    (bits = 0 → createGeneric cnt bits name type uid = (none, cnt)) ∧
    (bits ≠ 0 → createGeneric cnt bits name type uid = (some { label := label name type uid (cnt + 1), bits := bits }, cnt + 1)) := by
  constructor <;> intro h <;> simp [createGeneric, h]

/-- Labels made at different counter values differ, whatever the names, types and uids are (the text after the last
    underscore is the counter, and `f"{n:>02}"` is injective). -/
theorem create_fresh (n1 t1 u1 n2 t2 u2 : List Char) (c1 c2 : Nat) (h : c1 ≠ c2) :
    label n1 t1 u1 c1 ≠ label n2 t2 u2 c2 :=
  fun heq => h (label_injective_counter heq)

/-- a path's successive creations (`createMany`, Lemmas): a new label differs from every later one of the path -/
theorem create_fresh_path (cnt bits : Nat) (name type uid : List Char) (hb : bits ≠ 0)
    (rest : List (Nat × List Char × List Char × List Char)) :
    ∀ s ∈ (createMany (cnt + 1) rest).1, s.label ≠ label name type uid (cnt + 1) := by
  intro s hs heq
  obtain ⟨n, t, u, c, h1, h2, _⟩ := (createMany_labels rest (cnt + 1)).2 s hs
  rw [h1] at heq
  exact absurd (label_injective_counter heq) (by omega)

example : label "x".toList "uint8".toList "abcdefg".toList 1 = "halmos_x_uint8_abcdefg_01".toList ∧
    label "a_1".toList "bytes".toList "0123456".toList 100 = "halmos_a_1_bytes_0123456_100".toList ∧
    nameOf "my  var\tz".toList = "my_var_z".toList := by decide

/-! ## state_cheats_exact -/

/-- the Model's network state and the reference world / block parameters agree on every read -/
def Agree (n : Net) (w : World) (p : Params) : Prop :=
  (∀ a, n.balance a = w.balanceOf a) ∧ (∀ a, n.code a = w.codeOf a) ∧
  (∀ a k, n.sload a k = lookupD w.storage (a, k)) ∧
  n.block.timestamp = p.timestamp ∧ n.block.number = p.number ∧ n.block.basefee = p.basefee ∧
  n.block.chainid = p.chainid ∧ n.block.coinbase = p.coinbase ∧ n.block.difficulty = p.difficulty

/-- Every state cheatcode that halmos accepts updates the network state exactly as Foundry specifies: all subsequent reads
    (balance, code, every storage slot of every account, the six block fields) equal those of the reference world updated
    by `Spec.Foundry.applyWorld` / `applyParams` — the supplied value at the target, the old value everywhere else. -/
theorem state_cheats_exact (n : Net) (w : World) (p : Params) (c : StateCheat) (n' : Net) (ret : List Nat)
    (h : Agree n w p) (hr : hevmState n c = .ok n' ret) :
    Agree n' (applyWorld w c) (applyParams p c) ∧ ret = [] := by
  obtain ⟨hb, hc, hs, h1, h2, h3, h4, h5, h6⟩ := h
  cases c with
  | deal who amount =>
    simp only [hevmState, CheatRes.ok.injEq] at hr
    obtain ⟨rfl, rfl⟩ := hr
    refine ⟨⟨fun a => ?_, hc, hs, h1, h2, h3, h4, h5, h6⟩, rfl⟩
    have := hb a
    simp only [World.balanceOf] at this
    by_cases ha : a = who % 2 ^ 160 <;>
      simp [applyWorld, World.setBalance, World.balanceOf, lookupD_insert, fupd, uint160, uint256, addrMask, W,
        HalmosVerif.Spec.Evm.W, ha, this]
  | store who slot value =>
    simp only [hevmState] at hr
    split at hr
    · cases hr
    · simp only [CheatRes.ok.injEq] at hr
      obtain ⟨rfl, rfl⟩ := hr
      refine ⟨⟨hb, hc, fun a k => ?_, h1, h2, h3, h4, h5, h6⟩, rfl⟩
      have hsa := hs a k
      simp only [Net.sload] at hsa
      by_cases ha : a = who % 2 ^ 160
      · by_cases hk : k = slot % 2 ^ 256
        · simp [applyWorld, lookupD_insert, Net.sload, fupd, uint160, uint256, addrMask, W, HalmosVerif.Spec.Evm.W, ha, hk]
        · rw [ha] at hsa
          simp only [applyWorld, lookupD_insert, Net.sload, fupd, uint160, uint256, addrMask, W, HalmosVerif.Spec.Evm.W,
            ha, hk, Prod.mk.injEq, and_false, ↓reduceIte]
          rw [← hsa]
          cases n.storage (who % 2 ^ 160) <;> simp
      · simp [applyWorld, lookupD_insert, Net.sload, fupd, uint160, uint256, addrMask, W, HalmosVerif.Spec.Evm.W, ha, hsa]
  | etch who code =>
    simp only [hevmState, CheatRes.ok.injEq] at hr
    obtain ⟨rfl, rfl⟩ := hr
    refine ⟨⟨hb, fun a => ?_, fun a k => ?_, h1, h2, h3, h4, h5, h6⟩, rfl⟩
    · by_cases ha : a = who % 2 ^ 160 <;> simp [applyWorld, codeOf_setCode, fupd, uint160, addrMask, ha, hc a]
    · have := hs a k
      simp only [applyWorld, World.setCode]
      rw [← this]
      simp only [Net.sload, uint160]
      cases hst : n.storage (who % 2 ^ 160) with
      | some st => rfl
      | none =>
        simp only [fupd]
        by_cases ha : a = who % 2 ^ 160
        · subst ha; simp [hst]
        · simp [ha]
  | warp t =>
    simp only [hevmState, CheatRes.ok.injEq] at hr
    obtain ⟨rfl, rfl⟩ := hr
    exact ⟨⟨hb, hc, hs, rfl, h2, h3, h4, h5, h6⟩, rfl⟩
  | roll b =>
    simp only [hevmState, CheatRes.ok.injEq] at hr
    obtain ⟨rfl, rfl⟩ := hr
    exact ⟨⟨hb, hc, hs, h1, rfl, h3, h4, h5, h6⟩, rfl⟩
  | fee f =>
    simp only [hevmState, CheatRes.ok.injEq] at hr
    obtain ⟨rfl, rfl⟩ := hr
    exact ⟨⟨hb, hc, hs, h1, h2, rfl, h4, h5, h6⟩, rfl⟩
  | chainId c =>
    simp only [hevmState, CheatRes.ok.injEq] at hr
    obtain ⟨rfl, rfl⟩ := hr
    exact ⟨⟨hb, hc, hs, h1, h2, h3, rfl, h5, h6⟩, rfl⟩
  | coinbase a =>
    simp only [hevmState, CheatRes.ok.injEq] at hr
    obtain ⟨rfl, rfl⟩ := hr
    exact ⟨⟨hb, hc, hs, h1, h2, h3, h4, rfl, h6⟩, rfl⟩
  | difficulty d =>
    simp only [hevmState, CheatRes.ok.injEq] at hr
    obtain ⟨rfl, rfl⟩ := hr
    exact ⟨⟨hb, hc, hs, h1, h2, h3, h4, h5, rfl⟩, rfl⟩

/-- which requests halmos rejects: only `vm.store` on an account without code (Foundry accepts it: conservative) -/
theorem state_cheats_rejected (n : Net) (c : StateCheat) :
    hevmState n c = .halmosError ↔ ∃ who slot value, c = .store who slot value ∧ n.code (uint160 who) = none := by
  cases c <;> simp [hevmState]
  split <;> simp_all

/-- `vm.load` returns the stored word (0 for an account without code, whose storage is empty) -/
theorem state_load_exact (n : Net) (w : World) (p : Params) (h : Agree n w p)
    (hempty : ∀ a, n.code a = none → ∀ k, n.sload a k = 0) (who slot : Nat) :
    hevmLoad n who slot = Spec.Foundry.load w who slot := by
  obtain ⟨_, _, hs, _⟩ := h
  simp only [hevmLoad, Spec.Foundry.load, uint160, uint256, addrMask, W, HalmosVerif.Spec.Evm.W]
  split
  · next hc => rw [← hs, hempty _ hc]
  · rw [← hs]

-- non-vacuity: a cheat that is accepted changes the read at the target only (address arguments are masked to 160 bits);
-- the same cheat on an account without code is the rejected case
def demoNet : Net :=
  { balance := fun _ => 0, code := fun a => if a = 0x2000 then some [0] else none,
    storage := fun a => if a = 0x2000 then some (fun _ => 0) else none,
    block := { basefee := 0, chainid := 1, coinbase := 0, difficulty := 0, number := 1, timestamp := 1 } }

def readsAfter (c : StateCheat) : Option (List Nat) :=
  match hevmState demoNet c with
  | .ok n' _ => some [n'.sload 0x2000 1, n'.sload 0x2000 2, n'.sload 0x3000 1, n'.balance 0x2000, n'.balance 0x3000, n'.block.timestamp]
  | .halmosError => none

example : readsAfter (.store (0x2000 + 2 ^ 200) 1 7) = some [7, 0, 0, 0, 0, 1] ∧ readsAfter (.store 0x3000 1 7) = none ∧
    readsAfter (.deal 0x3000 5) = some [0, 0, 0, 0, 5, 1] ∧ readsAfter (.warp 99) = some [0, 0, 0, 0, 0, 99] := by decide

end HalmosVerif.Props.C14
