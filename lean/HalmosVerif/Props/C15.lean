/-
Props.C15 — Invariant testing covers every bounded call sequence (on Model.Frontier).

* `frontier_complete_digest` (no assumption on the digest — this is what holds of the current code): every concrete state
  reached by `n` admissible transactions is denoted by a frontier state of some level ≤ n, **or** somewhere along the sequence a
  symbolic state covering a prefix was dropped because its digest equals the digest of a state kept earlier.
* `frontier_complete`: under `DigestFaithful` (equal digest ⇒ same denotation) the second alternative disappears: every sequence
  of ≤ d calls is represented among the states an invariant of depth d is checked against (`invariant_checked_each`).
* `dedup_only_identical`: under `DigestIdentifies` (equal digest ⇒ equal persistent state) a dropped state is identical, in
  everything carried to the next transaction, to a kept one.
* `digest_identifies_cex` / `frontier_incomplete_cex`: the digest of `snapshot_state` ignores `ex.block`; two states differing
  only in `block.number` are merged, and an invariant reading `block.number` is then never run on the second
  (replayed on the real code by tools/props/c15.py: template `clock-roll`).
* `storage_digest_identifies` / `storage_digest_skip_zero_cex`: the storage digest hashes every entry, so "slot absent (arbitrary
  under symbolic storage)" and "slot = 0" get different digests; a digest skipping zero entries would merge them.
* `filters_as_foundry_*`: target resolution agrees with the Foundry rules (for selector entries that are non-empty).
-/
import HalmosVerif.Lemmas.Frontier

namespace HalmosVerif.Props.C15

open HalmosVerif.Model.Frontier

section Complete

variable {Sym D Conc : Type} [DecidableEq D]
variable (post : Sym → List Sym) (dig : Sym → D) (refresh : Sym → Sym) (s0 : Sym)
variable (den : Sym → Conc → Prop) (cstep : Conc → Conc → Prop)

/-- C02 at transaction level: one symbolic run of all targets from `s` covers every concrete successful transaction from a
concrete state `s` denotes -/
def Coverage : Prop := ∀ s c c', den s c → cstep c c' → ∃ s' ∈ post s, den s' c'

/-- the timestamp refresh only generalises a state -/
def RefreshMono : Prop := ∀ s c, den s c → den (refresh s) c

/-- equal digests ⇒ same denotation -/
def DigestFaithful : Prop := ∀ a b, dig a = dig b → ∀ c, den a c → den b c

/-- a prefix of the sequence was merged away: a symbolic state denoting `c` was dropped in favour of a kept state `t` with the same
digest which does not denote `c` necessarily -/
def MergedAt (n : Nat) (c : Conc) : Prop :=
  ∃ s t, den s c ∧ dig t = dig s ∧ Kept post dig refresh s0 n t

/-- **frontier_complete_digest** (unconditional on the digest) -/
theorem frontier_complete_digest (cov : Coverage post den cstep) (mono : RefreshMono refresh den)
    (c0 : Conc) (h0 : den s0 c0) :
    ∀ n c, ReachN cstep c0 n c →
      (∃ k, k ≤ n ∧ ∃ s ∈ (frontier post dig refresh s0 k).1, den s c) ∨
      (∃ m cm, m ≤ n ∧ ReachN cstep c0 m cm ∧ MergedAt post dig refresh s0 den m cm) := by
  intro n c hr
  induction hr with
  | zero => exact Or.inl ⟨0, Nat.le_refl _, s0, by simp [frontier], h0⟩
  | @succ n c c' hr hstep ih =>
    rcases ih with ⟨k, hk, s, hs, hd⟩ | ⟨m, cm, hm, hrm, hmerged⟩
    · obtain ⟨s', hs', hd'⟩ := cov s c c' hd hstep
      have hmem : s' ∈ (frontier post dig refresh s0 k).1.flatMap post := List.mem_flatMap.mpr ⟨s, hs, hs'⟩
      obtain ⟨t, ht, hkept⟩ := post_kept_or_merged post dig refresh s0 k s' hmem
      right
      exact ⟨n + 1, c', Nat.le_refl _, ReachN.succ hr hstep, s', t, hd', ht, kept_mono (by omega) hkept⟩
    · exact Or.inr ⟨m, cm, by omega, hrm, hmerged⟩

/-- **frontier_complete**: with a faithful digest every sequence of `n` calls is represented at some level ≤ n -/
theorem frontier_complete (cov : Coverage post den cstep) (mono : RefreshMono refresh den)
    (faithful : DigestFaithful dig den) (c0 : Conc) (h0 : den s0 c0) :
    ∀ n c, ReachN cstep c0 n c → ∃ k, k ≤ n ∧ ∃ s ∈ (frontier post dig refresh s0 k).1, den s c := by
  intro n c hr
  induction hr with
  | zero => exact ⟨0, Nat.le_refl _, s0, by simp [frontier], h0⟩
  | @succ n c c' _ hstep ih =>
    obtain ⟨k, hk, s, hs, hd⟩ := ih
    obtain ⟨s', hs', hd'⟩ := cov s c c' hd hstep
    have hmem : s' ∈ (frontier post dig refresh s0 k).1.flatMap post := List.mem_flatMap.mpr ⟨s, hs, hs'⟩
    obtain ⟨t, ht, hkept⟩ := post_kept_or_merged post dig refresh s0 k s' hmem
    have hdt : den t c' := faithful s' t ht.symm c' hd'
    rcases hkept with h | ⟨j, hj, hm⟩
    · subst h
      exact ⟨0, Nat.zero_le _, t, by simp [frontier], hdt⟩
    · exact ⟨j, by omega, refresh t, hm, mono t c' hdt⟩

/-- **invariant_checked_each**: an invariant test of depth `d` runs against every state of every level ≤ d; with
`frontier_complete`, against a state denoting the end of every sequence of ≤ d calls -/
theorem invariant_checked_each (d k : Nat) (hk : k ≤ d) (s : Sym) (hs : s ∈ (frontier post dig refresh s0 k).1) :
    s ∈ checked post dig refresh s0 d := by
  unfold checked
  exact List.mem_flatMap.mpr ⟨k, List.mem_range.mpr (by omega), hs⟩

theorem sequences_checked (cov : Coverage post den cstep) (mono : RefreshMono refresh den)
    (faithful : DigestFaithful dig den) (c0 : Conc) (h0 : den s0 c0) (d n : Nat) (hn : n ≤ d) (c : Conc)
    (hr : ReachN cstep c0 n c) : ∃ s ∈ checked post dig refresh s0 d, den s c := by
  obtain ⟨k, hk, s, hs, hd⟩ := frontier_complete post dig refresh s0 den cstep cov mono faithful c0 h0 n c hr
  exact ⟨s, invariant_checked_each post dig refresh s0 d k (by omega) s hs, hd⟩

/-- **dedup_only_identical**: a dropped post-state equals, in its persistent part, a kept state — provided the digest identifies
the persistent state -/
theorem dedup_only_identical {P : Type} (persist : Sym → P) (ident : ∀ a b, dig a = dig b → persist a = persist b)
    (d : Nat) (s : Sym) (hs : s ∈ (frontier post dig refresh s0 d).1.flatMap post) :
    ∃ t, persist t = persist s ∧ Kept post dig refresh s0 (d + 1) t := by
  obtain ⟨t, ht, hk⟩ := post_kept_or_merged post dig refresh s0 d s hs
  exact ⟨t, ident t s ht, hk⟩

end Complete

/-! ## The digest of the code does not identify the persistent state -/

/-- **digest_identifies_cex**: `snapshot_state` hashes balance, code, storage and sliced path conditions only -/
theorem digest_identifies_cex : ¬ (∀ a b : Persist, digestImpl a = digestImpl b → a = b) := by
  intro h
  have := h ⟨0, [], 0, [], 1, 31337, 0, 0⟩ ⟨0, [], 0, [], 2, 31337, 0, 0⟩ rfl
  exact absurd this (by decide)

/-- **storage_digest_identifies**: the storage part of the digest determines, for every slot, whether it is absent (arbitrary under
symbolic storage) or present and with which value — "slot absent" and "slot = 0" are told apart -/
theorem storage_digest_identifies (a b : StorageMap) (h : storageDigestInput a = storageDigestInput b) :
    ∀ slot, slotOf a slot = slotOf b slot := by
  intro slot
  have : a = b := h
  rw [this]

/-- **storage_digest_skip_zero_cex**: a digest that skips zero-valued entries identifies `{x ↦ 0, y ↦ 1}` (after `clear()`) with
`{y ↦ 1}` (after `mark()`, x untouched = arbitrary under symbolic storage); replayed on the real code by the `symbolic-storage`
template of tools/props/c15.py -/
theorem storage_digest_skip_zero_cex :
    ¬ (∀ a b : StorageMap, storageDigestSkipZero a = storageDigestSkipZero b → ∀ slot, slotOf a slot = slotOf b slot) := by
  intro h
  have := h [(0, 0), (1, 1)] [(1, 1)] (by decide) 0
  revert this
  decide

example : slotOf [(0, 0), (1, 1)] 0 = some 0 ∧ slotOf [(1, 1)] 0 = none ∧
    storageDigestInput [(0, 0), (1, 1)] ≠ storageDigestInput [(1, 1)] := by decide

/-- a two-field world: (block.number, slot 0). `tick` = `vm.roll(block.number + 1)`, `stamp` = `slot0 := block.number`;
the digest sees the slot only (as `digestImpl` sees storage but not the block) -/
def clockPost (s : Nat × Nat) : List (Nat × Nat) := [(s.1 + 1, s.2), (s.1, s.1)]
def clockDig (s : Nat × Nat) : Nat := s.2

/-- **frontier_incomplete_cex**: with that digest the state after `tick` (number 2) is merged into the setUp state (number 1):
it is reachable by one call but no frontier state of level ≤ 1 denotes it, so `invariant block.number < 2` passes at depth 1;
and `tick; stamp` (slot0 = 2) is reachable by two calls but absent from levels ≤ 2 -/
theorem frontier_incomplete_cex :
    (2, 0) ∈ clockPost (1, 0) ∧
    (∀ k ∈ [0, 1], (2, 0) ∉ (frontier clockPost clockDig id (1, 0) k).1) ∧
    (2, 2) ∈ clockPost (2, 0) ∧
    (∀ k ∈ [0, 1, 2], (2, 2) ∉ (frontier clockPost clockDig id (1, 0) k).1) := by
  decide

/-- hence `DigestFaithful` fails for it (denotation = equality) -/
theorem digest_faithful_cex : ¬ DigestFaithful clockDig (fun (s c : Nat × Nat) => s = c) := by
  intro h
  have := h (1, 0) (2, 0) rfl (1, 0) rfl
  exact absurd this (by decide)

/-- non-vacuity of `frontier_complete`: the same world with the full state as digest is faithful, and covers `tick; stamp` -/
example : DigestFaithful (fun s : Nat × Nat => s) (fun (s c : Nat × Nat) => s = c) := by
  intro a b hab c hac
  have e : a = b := hab
  rw [← e]; exact hac

example : (2, 2) ∈ (frontier clockPost (fun s => s) id (1, 0) 2).1 := by decide

/-! ## Filters -/

section FiltersThm

variable {A Sel : Type} [DecidableEq A] [DecidableEq Sel]

omit [DecidableEq Sel] in
/-- with non-empty selector entries, "is a key of the decoded dict" and "has targeted selectors" coincide -/
theorem keys_iff_sels (m : List (A × List Sel)) (a : A) (hne : ∀ e ∈ m, e.2 ≠ []) :
    a ∈ keysOf m ↔ selsOf m a ≠ [] := by
  unfold keysOf selsOf
  rw [List.mem_map, Ne, List.flatMap_eq_nil_iff]
  constructor
  · rintro ⟨e, he, rfl⟩ h
    exact hne e he (h e (List.mem_filter.mpr ⟨he, by simp⟩))
  · intro h
    have : ∃ x ∈ m.filter (fun e => e.1 == a), x.2 ≠ [] := by
      apply Classical.byContradiction
      intro hc
      apply h
      intro x hx
      apply Classical.byContradiction
      intro hx2
      exact hc ⟨x, hx, hx2⟩
    obtain ⟨x, hx, _⟩ := this
    rw [List.mem_filter] at hx
    exact ⟨x, hx.1, by simpa using hx.2⟩

/-- **filters_as_foundry_contracts**: for every address other than the test contract, being resolved as a target is the Foundry
rule — provided no targetSelectors entry has an empty selector list (Foundry skips such an entry, the code keeps its key:
`filters_empty_selector_entry_cex`) -/
theorem filters_as_foundry_contracts (f : Filters A Sel) (deployed : List A) (test a : A) (ha : a ≠ test)
    (hne : ∀ e ∈ f.targetSelectors, e.2 ≠ []) :
    a ∈ resolveContracts f deployed test ↔ specTargeted f deployed a = true := by
  have key := keys_iff_sels f.targetSelectors a hne
  by_cases hE : f.targetContracts = [] <;>
  by_cases hT : (test ∈ f.targetContracts ∨ ¬ selsOf f.targetSelectors test = []) <;>
  by_cases h1 : a ∈ deployed <;> by_cases h2 : a ∈ f.targetContracts <;>
  by_cases h3 : a ∈ f.excludeContracts <;> by_cases h4 : a ∈ keysOf f.targetSelectors <;>
  simp_all [resolveContracts, specTargeted, List.mem_filter]

/-- the corner left out above: an excluded contract named by an entry with an empty selector list is resolved as a target by the
code but is not a target by the Foundry rule -/
theorem filters_empty_selector_entry_cex :
    ¬ (∀ (f : Filters Nat Nat) (deployed : List Nat) (test a : Nat), a ≠ test →
        (a ∈ resolveContracts f deployed test ↔ specTargeted f deployed a = true)) := by
  intro h
  have := h ⟨[], [2], [(2, [])], [], [], []⟩ [1, 2, 9] 9 2 (by decide)
  revert this
  decide

/-- **filters_as_foundry_selectors** -/
theorem filters_as_foundry_selectors (f : Filters A Sel) (a : A) (isTest : Bool) (fns : List (FnInfo Sel)) (g : FnInfo Sel) :
    g ∈ resolveSelectors f a isTest fns ↔ g ∈ fns ∧ specCallable f a isTest g = true := by
  unfold resolveSelectors specCallable
  by_cases h1 : (selsOf f.targetSelectors a).isEmpty = true <;>
  by_cases h2 : (selsOf f.excludeSelectors a).isEmpty = true <;>
  simp [h1, h2, List.mem_filter]

theorem filter_isEmpty {α} (p : α → Bool) (l : List α) : (l.filter p).isEmpty = !l.any p := by
  induction l with
  | nil => rfl
  | cons x xs ih => by_cases h : p x = true <;> simp_all [List.filter]

/-- **filters_as_foundry_senders** -/
theorem filters_as_foundry_senders (f : Filters A Sel) (s : A) : senderAllowed f s = specSender f s := by
  unfold senderAllowed specSender
  simp only [filter_isEmpty, Bool.not_not]
  by_cases hany : (f.targetSenders.any fun a => !f.excludeSenders.contains a) = true
  · simp only [hany, if_true]
    by_cases h1 : s ∈ f.targetSenders <;> by_cases h2 : s ∈ f.excludeSenders <;> simp [List.mem_filter, h1, h2]
  · simp only [hany]
    by_cases he : f.excludeSenders = [] <;> simp [he]

/-- non-vacuity / examples: B excluded but given a target selector is still a target; an address with an *empty* selector entry is
resolved as a target by the code (the key of the dict exists) -/
example :
    let f : Filters Nat Nat := ⟨[], [2], [(2, [7])], [], [], []⟩
    resolveContracts f [1, 2, 9] 9 = [1, 2] ∧ specTargeted f [1, 2, 9] 2 = true ∧ (∀ e ∈ f.targetSelectors, e.2 ≠ []) := by decide

example :
    let f : Filters Nat Nat := ⟨[], [2], [(2, [])], [], [], []⟩
    resolveContracts f [1, 2, 9] 9 = [1, 2] := by decide

end FiltersThm

end HalmosVerif.Props.C15
