/-
Props.C16 — "The unsat-core cache never changes a verdict".

The cache is keyed by assertion ids, which are z3 ast ids read when a path is serialised (sevm.Path.to_smt2).  The theorem
is conditional on `IdStable` (no id denotes two different conditions along the history); `IdStable` is *not* guaranteed by
solve.py/sevm.py (z3 recycles the ids of freed terms) and without it the cache is unsound: `cache_unsound_recycled_cex`.
tools/props/c16.py monitors `IdStable` on real runs, compares cache-on/off verdicts and searches for a recycled top-level id.
-/
import HalmosVerif.Lemmas.Cache

namespace HalmosVerif.Props.C16
open HalmosVerif.Model.ReBT HalmosVerif.Model.Cache HalmosVerif.Lemmas.Cache HalmosVerif.Gen.SolveTables

variable {ι κ : Type} [DecidableEq ι]

/-! ### soundness under stable ids -/

theorem cache_sound_aux (Unsat : List κ → Prop) (hmono : Monotone Unsat) (solver : Solver ι κ)
    (hs : SolverOk Unsat solver) : ∀ (qs past : List (Query ι κ)) (cores : List (List ι)),
    Inv Unsat past cores → IdStable (past ++ qs) →
    ∀ p ∈ qs.zip (runCached solver cores qs), p.2 = .unsat → Unsat p.1.conds := by
  intro qs
  induction qs with
  | nil => intro past cores _ _ p hp; simp [runCached] at hp
  | cons q qs ih =>
    intro past cores hinv hst p hp hv
    simp only [runCached, List.zip_cons_cons, List.mem_cons] at hp
    rcases hp with rfl | hp
    · refine step_verdict_sound Unsat hmono solver hs past cores q hinv ?_ hv
      intro q0 hq0 i c1 c2 h1 h2
      exact hst q0 (List.mem_append_left _ hq0) q (List.mem_append_right _ List.mem_cons_self) i c1 c2 h1 h2
    · refine ih (past ++ [q]) _ (step_inv Unsat solver hs past cores q hinv) ?_ p hp hv
      simpa [List.append_assoc] using hst

/-- If no id ever denotes two different conditions along the history, every `unsat` answered with the cache on —
    from the cache or from the solver — is for an unsatisfiable query (a superset of a stored unsatisfiable core). -/
theorem cache_sound_if_stable (Unsat : List κ → Prop) (hmono : Monotone Unsat) (solver : Solver ι κ)
    (hs : SolverOk Unsat solver) (h : List (Query ι κ)) (hst : IdStable h) :
    ∀ p ∈ h.zip (runCached solver [] h), p.2 = .unsat → Unsat p.1.conds :=
  cache_sound_aux Unsat hmono solver hs h [] [] (fun _ hc => by simp at hc) (by simpa using hst)

theorem cache_transparent_aux (Unsat : List κ → Prop) (hmono : Monotone Unsat) (solver : Solver ι κ)
    (hs : SolverOk Unsat solver) (hc : SolverComplete Unsat solver) : ∀ (qs past : List (Query ι κ)) (cores : List (List ι)),
    Inv Unsat past cores → IdStable (past ++ qs) → runCached solver cores qs = runPlain solver qs := by
  intro qs
  induction qs with
  | nil => intro _ _ _ _; rfl
  | cons q qs ih =>
    intro past cores hinv hst
    simp only [runCached, runPlain, List.map_cons, List.cons.injEq]
    refine ⟨?_, ?_⟩
    · unfold step
      split
      · rename_i hit
        have hu : Unsat q.conds := by
          refine hit_sound Unsat hmono past cores q hinv ?_ hit
          intro q0 hq0 i c1 c2 h1 h2
          exact hst q0 (List.mem_append_left _ hq0) q (List.mem_append_right _ List.mem_cons_self) i c1 c2 h1 h2
        exact (hc q hu).symm
      · rfl
    · refine ih (past ++ [q]) _ (step_inv Unsat solver hs past cores q hinv) ?_
      simpa [List.append_assoc] using hst

/-- …and with a solver that decides every unsatisfiable query the verdicts are exactly the cache-off verdicts. -/
theorem cache_transparent_if_stable (Unsat : List κ → Prop) (hmono : Monotone Unsat) (solver : Solver ι κ)
    (hs : SolverOk Unsat solver) (hc : SolverComplete Unsat solver) (h : List (Query ι κ)) (hst : IdStable h) :
    runCached solver [] h = runPlain solver h :=
  cache_transparent_aux Unsat hmono solver hs hc h [] [] (fun _ hc => by simp at hc) (by simpa using hst)

/-! ### the witness: conditions are numbers, `0` is `false`, everything else is satisfiable together -/

def UnsatW (cs : List Nat) : Prop := 0 ∈ cs
instance (cs : List Nat) : Decidable (UnsatW cs) := inferInstanceAs (Decidable (0 ∈ cs))

/-- a sound and complete solver for the witness logic; its core is the ids of the `false` conditions -/
def solverW : Solver Nat Nat := fun q =>
  if 0 ∈ q.conds then (.unsat, some ((q.filter (fun e => e.2 == 0)).map (·.1))) else (.sat, none)

theorem monoW : Monotone UnsatW := fun _ _ h hu => h 0 hu

theorem solverW_ok : SolverOk UnsatW solverW := by
  constructor
  · intro q h
    unfold solverW at h
    split at h
    · assumption
    · simp at h
  · intro q core h
    unfold solverW at h
    split at h
    · rename_i h0
      simp only [Prod.mk.injEq, Option.some.injEq, true_and] at h
      subst h
      simp only [Query.conds, List.mem_map] at h0
      obtain ⟨e, he, h0⟩ := h0
      simp only [UnsatW, Query.restrict, List.mem_map, List.mem_filter, List.contains_iff_mem]
      refine ⟨e, ⟨he, ?_⟩, h0⟩
      exact ⟨e, ⟨he, by simp [h0]⟩, rfl⟩
    · simp at h

theorem solverW_complete : SolverComplete UnsatW solverW := by
  intro q h
  simp only [UnsatW] at h
  simp [solverW, h]

/-- path 1 asserts `false` under id 5 and is proved unsat (core ⟨5⟩); its conditions are freed; path 2 gets the recycled
    id 5 for a satisfiable condition -/
def historyW : List (Query Nat Nat) := [[(5, 0)], [(5, 1)]]

/-- Without `IdStable` the cache is unsound: a sound, complete solver and a 2-query history on which the cache answers
    `unsat` for a satisfiable query (and the cache-off verdict is `sat`). -/
theorem cache_unsound_recycled_cex :
    ¬ (∀ (solver : Solver Nat Nat) (h : List (Query Nat Nat)), SolverOk UnsatW solver →
        ∀ p ∈ h.zip (runCached solver [] h), p.2 = .unsat → UnsatW p.1.conds) := by
  intro hall
  have := hall solverW historyW solverW_ok ([(5, 1)], .unsat) (by decide) rfl
  exact absurd this (by decide)

example : runCached solverW [] historyW = [.unsat, .unsat] ∧ runPlain solverW historyW = [.unsat, .sat] := by decide

/-- the witness breaks exactly the hypothesis -/
example : ¬ IdStable historyW := by
  intro h
  have := h [(5, 0)] (by decide) [(5, 1)] (by decide) 5 0 1 (by decide) (by decide)
  exact absurd this (by decide)

/-- non-vacuity of `cache_sound_if_stable`: a stable history with a cache hit (third query ⊇ core of the first) -/
example : IdStable ([[(5, 0), (6, 1)], [(6, 1), (7, 2)], [(5, 0), (7, 2), (8, 3)]] : List (Query Nat Nat)) ∧
    runCached solverW [] [[(5, 0), (6, 1)], [(6, 1), (7, 2)], [(5, 0), (7, 2), (8, 3)]] = [.unsat, .sat, .unsat] ∧
    checkUnsatCores (Query.ids ([(5, 0), (7, 2), (8, 3)] : Query Nat Nat)) [[5]] = true := by
  refine ⟨?_, by decide, by decide⟩
  intro q1 h1 q2 h2 i c1 c2 m1 m2
  simp only [List.mem_cons, List.not_mem_nil, or_false] at h1 h2
  rcases h1 with rfl | rfl | rfl <;> rcases h2 with rfl | rfl | rfl <;>
    simp only [List.mem_cons, Prod.mk.injEq, List.not_mem_nil, or_false] at m1 m2 <;> omega

/-- an empty core is never stored (`if solver_output.unsat_core:`): it would make every later query `unsat` -/
theorem empty_core_not_stored (solver : Solver ι κ) (cores : List (List ι)) (q : Query ι κ)
    (h : solver q = (.unsat, some [])) (hmiss : checkUnsatCores q.ids cores = false) :
    (step solver cores q).2 = cores := by
  simp [step, hmiss, h]

/-! ### parse_unsat_core -/

/-- the hand transcription `unsatCoreRe` is of this regex -/
theorem core_pattern_pinned :
    unsatCorePattern = "unsat\\s*(\\(\\s*error\\s+[^)]*\\)\\s*)?\\(\\s*((<[0-9]+>\\s*)*)\\)" := by decide +kernel

/-
Full statement (not proved): for every list of ids `is`, each of the three output shapes
  "unsat\n(" ++ " ".join("<i>") ++ ")\n",   "unsat\n(error \"…\")\n(" ++ … ++ ")\n",   "unsat (" ++ … ++ ")"
parses to `some (is.map toString)`.  That needs a proof about the backtracking matcher on symbolic input; what is proved
is the statement on concrete instances of the three shapes (real yices and z3 outputs), the rest is covered by the
differential run of tools/props/c16.py against the real function.
-/
theorem core_parse_ok_partial :
    parseUnsatCore "unsat\n(<41702> <37030> <36248> <47880>)\n".toList
      = some ["41702".toList, "37030".toList, "36248".toList, "47880".toList] ∧
    parseUnsatCore "unsat\n(error \"the context is unsatisfiable\")\n(<5> <6>)\n".toList = some [['5'], ['6']] ∧
    parseUnsatCore "unsat\n(error \"line 1 column 268: model is not available\")\n(<6> <5>)\n".toList = some [['6'], ['5']] ∧
    parseUnsatCore "unsat\n()\n".toList = some [] ∧
    parseUnsatCore "sat\n(model)\n".toList = none ∧
    parseUnsatCore "unsat\n".toList = none := by
  decide +kernel

/-- ids printed without a blank between them are read as one id (a quirk of `split()` + `re.sub`; solvers print blanks) -/
example : parseUnsatCore "unsat (<12><34>)".toList = some ["1234".toList] := by decide +kernel

end HalmosVerif.Props.C16
