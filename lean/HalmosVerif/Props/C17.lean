/-
Props.C17 — Solver subprocess lifecycle is safe under every schedule.

All statements are about `Model.Popen` (tied to halmos/processes.py and solve_low_level by the schedule replay of
tools/props/c17.py) and quantify over every configuration (any number of jobs and shutdown callers) and every
reachable state / every trace; no bound on length. `v : Variant` selects current or repaired code per site.
-/
import HalmosVerif.Lemmas.PopenShutdown
import HalmosVerif.Lemmas.PopenJoin
import HalmosVerif.Lemmas.PopenResult

namespace HalmosVerif.Props.C17
open HalmosVerif.Model.Popen

/-! ## result_once -/

/-- `set_result` has been executed at most once per future, and exactly once iff the worker thread has finished
(so `Future.set_result` never raises InvalidStateError and `done()` tells the truth). -/
theorem result_once {v c σ} (h : Reach v c σ) (i : Nat) :
    σ.results i ≤ 1 ∧ (σ.results i = 1 ↔ σ.wpc i = .fin) := by
  have := (inv_reach h).results i
  split at this <;> simp_all

/-- a delivered result stays delivered (no second worker, no reset) -/
theorem result_once_stable {v c σ σ'} (h : Reach v c σ) (hs : Steps v c σ σ') (i : Nat) (hf : σ.wpc i = .fin) :
    σ'.wpc i = .fin ∧ σ'.results i = 1 := by
  have : σ'.wpc i = .fin := by
    induction hs with
    | refl => exact hf
    | step l hst h1 ih => exact fin_stable h1 (inv_reach (steps_reach h hst)) ih
  exact ⟨this, (result_once (steps_reach h hs) i).2.2 this⟩

/-- Progress: a started worker that has not delivered yet always has an enabled step, except when it waits in
`communicate` for a live process without time limit — then the process' own termination is enabled, and -/
theorem result_once_progress {v c σ} (i : Nat) (hi : i < c.nsub) (h1 : σ.wpc i ≠ .notStarted)
    (h2 : σ.wpc i ≠ .fin) :
    (∃ t, enabled v c σ (.w i t) = true) ∨
    (σ.wpc i = .comm ∧ σ.proc i = .running ∧ (c.job i).hasTimeout = false ∧ enabled v c σ (.exit i) = true) :=
  worker_enabled hi h1 h2

/-- … as soon as the process has terminated or was killed, `communicate` returns. -/
theorem result_once_unblocks {v c σ} (i : Nat) (hi : i < c.nsub) (hw : σ.wpc i = .comm) (hp : σ.proc i ≠ .running) :
    enabled v c σ (.w i false) = true :=
  comm_returns hi hw hp

/-- Every step of the worker lowers its rank (≤ 9 own steps to `set_result`), and no other thread moves it: with the
two statements above, under fair scheduling `set_result` is reached whenever the process terminates or is killed. -/
theorem result_once_rank {v c σ σ' l} (h : Reach v c σ) (hs : step v c σ l = some σ') (i : Nat)
    (hw : σ.wpc i ≠ .notStarted) :
    (l.isWorker i = true → wrank (σ'.wpc i) < wrank (σ.wpc i)) ∧ (l.isWorker i = false → σ'.wpc i = σ.wpc i) := by
  refine ⟨fun hl => ?_, fun hl => worker_frame hs (inv_reach h) hw hl⟩
  cases l <;> simp [Label.isWorker] at hl
  subst hl
  exact worker_step_rank hs

/-- waiting returns: once `set_result` ran, the submitter's `future.result()` (entry or wake-up) is enabled and
finishes `solve_low_level` -/
theorem result_once_waiter {v c σ} (s : Nat) (hs : s < c.nsub) (hw : σ.wpc s = .fin)
    (hp : σ.sub s = .accepted ∨ σ.sub s = .waiting) :
    ∃ σ', step v c σ (.sub s) = some σ' ∧ σ'.sub s = .done :=
  result_returns hs hw hp

/-- non-vacuity: a job with a time limit runs, times out, is killed, delivers exactly once, the waiter returns -/
def exTimeoutCfg : Cfg := mkCfg [⟨true, true, false, .unsat⟩] []
def exTimeoutTrace : List Label :=
  [.sub 0, .sub 0, .sub 0, .sub 0, .sub 0, .sub 0, .w 0 false, .w 0 true, .w 0 false, .w 0 false, .w 0 false,
   .w 0 false, .sub 0]
def exTimeoutState : State := (run .current exTimeoutCfg init exTimeoutTrace).getD init

example : Reach .current exTimeoutCfg exTimeoutState ∧ exTimeoutState.results 0 = 1 ∧
    exTimeoutState.wpc 0 = .fin ∧ exTimeoutState.proc 0 = .killed ∧ exTimeoutState.sub 0 = .done :=
  ⟨reach_run exTimeoutTrace (by rfl), by decide, by decide, by decide, by decide⟩

/-! ## timeout_is_unknown -/

/-- If the time limit of job `i` fires (`communicate` raises TimeoutExpired), then in every later state the future
stores TimeoutExpired in the slot `Future.result()` re-raises, and what `solve_low_level` returns for the job, once
it returns, is `unknown` — never `unsat`, `sat` or an error. -/
theorem timeout_is_unknown {v c σ σ1 σ2} (i : Nat) (h : Reach v c σ) (ht : step v c σ (.w i true) = some σ1)
    (hs : Steps v c σ1 σ2) :
    σ2.exn i = .timeout ∧ (σ2.sub i = .done → outcome c σ2 i = .unknown) ∧ outcome c σ2 i ≠ .unsat := by
  have he : σ2.exn i = .timeout := timeout_steps (Reach.step _ h ht) (timeout_stored ht) hs
  refine ⟨he, fun hd => by simp [outcome, hd, he, lowLevel], ?_⟩
  unfold outcome
  split <;> simp [he, lowLevel]

/-- `unsat` is reported only when no exception was stored and the solver itself exited having printed `unsat` -/
theorem unsat_only_from_solver {c σ} (s : Nat) (h : outcome c σ s = .unsat) :
    σ.sub s = .done ∧ σ.exn s = .none ∧ σ.proc s = .exited ∧ (c.job s).answer = .unsat := by
  unfold outcome at h
  split at h <;> try (cases h)
  next hd =>
    refine ⟨hd, ?_⟩
    unfold lowLevel at h
    cases he : σ.exn s <;> cases hp : σ.proc s <;> cases ha : (c.job s).answer <;> simp_all

/-- non-vacuity: in the run above the time limit fired and the job is reported `unknown`
although the solver would have answered `unsat` -/
example : exTimeoutState.exn 0 = .timeout ∧ outcome exTimeoutCfg exTimeoutState 0 = .unknown ∧
    (exTimeoutCfg.job 0).answer = .unsat := by decide

/-! ## after_shutdown_quiescent -/

/-- After `shutdown(wait=False)` has returned: no process is running; and in everything that can happen afterwards
no job is added to `_futures` (nothing is accepted) and no process is running (none starts). -/
def Quiescent (v : Variant) : Prop :=
  ∀ (c : Cfg) (σ : State) (k : Nat), Reach v c σ → σ.sh k = .ret →
    (∀ i, σ.proc i ≠ .running) ∧
    ∀ σ', Steps v c σ σ' → σ'.futs = σ.futs ∧ ∀ i, σ'.proc i ≠ .running

/-- repaired code (flag read under `_lock`; cancel flag under the start lock): quiescence holds -/
theorem after_shutdown_quiescent {v : Variant} (h1 : v.submitLocked = true) (h2 : v.cancelFlag = true) :
    Quiescent v := by
  intro c σ k hr hk
  refine ⟨fixed_quiescent h1 h2 hr hk, fun σ' hs => ?_⟩
  have := fixed_closed h1 hr hk hs
  exact ⟨this.2, fixed_quiescent h1 h2 (steps_reach hr hs) this.1⟩

theorem not_quiescent_of_run {v : Variant} {c : Cfg} (tr : List Label) {σ : State} {k i : Nat}
    (h : run v c init tr = some σ) (hk : σ.sh k = .ret) (hp : σ.proc i = .running) : ¬ Quiescent v :=
  fun q => (q c σ k (reach_run tr h) hk).1 i hp

/-- the code at the pinned commit: `submit` reads `_shutdown` before taking the lock — a submit racing with
`shutdown(wait=False)` is accepted and its process runs after shutdown returned (schedule `cexSubmit`) -/
theorem after_shutdown_quiescent_cex_submit (v : Variant) (h : v.submitLocked = false) : ¬ Quiescent v := by
  obtain ⟨a, b, d⟩ := v
  simp only at h
  subst h
  refine not_quiescent_of_run (c := cexSubmitCfg) (k := 0) (i := 0) (cexSubmit ⟨false, b, d⟩)
    (σ := (run ⟨false, b, d⟩ cexSubmitCfg init (cexSubmit ⟨false, b, d⟩)).getD init) ?_ ?_ ?_ <;>
  cases b <;> cases d <;> first | rfl | decide

/-- the code at the pinned commit: `cancel()` before the worker thread reached `Popen` is a no-op — the process
starts after `shutdown(wait=False)` returned (schedule `cexCancel`) -/
theorem after_shutdown_quiescent_cex_cancel (v : Variant) (h : v.cancelFlag = false) : ¬ Quiescent v := by
  obtain ⟨a, b, d⟩ := v
  simp only at h
  subst h
  refine not_quiescent_of_run (c := cexCancelCfg) (k := 0) (i := 0) cexCancel
    (σ := (run ⟨a, false, d⟩ cexCancelCfg init cexCancel).getD init) ?_ ?_ ?_ <;>
  cases a <;> cases d <;> first | rfl | decide

/-- both repairs are necessary and together sufficient -/
theorem after_shutdown_quiescent_iff (v : Variant) :
    Quiescent v ↔ (v.submitLocked = true ∧ v.cancelFlag = true) := by
  constructor
  · intro q
    refine ⟨?_, ?_⟩
    · cases h : v.submitLocked
      · exact absurd q (after_shutdown_quiescent_cex_submit v h)
      · rfl
    · cases h : v.cancelFlag
      · exact absurd q (after_shutdown_quiescent_cex_cancel v h)
      · rfl
  · exact fun h => after_shutdown_quiescent h.1 h.2

/- Full statement for the current code (`Quiescent Variant.current`) is false (the two `_cex` theorems); what holds of
every variant, the current code included, is quiescence under the side condition that at the moment
`shutdown(wait=False)` has set the flag no submit is between its flag read and its `Thread.start`
and no worker thread is still before `Popen` (`Calm`): -/
theorem after_shutdown_quiescent_partial {v c σ0 σ} (k : Nat) (h : Reach v c σ0) (hk : σ0.sh k = .acq)
    (hc : Calm σ0) (hs : Steps v c σ0 σ) :
    σ.futs = σ0.futs ∧ (σ.sh k = .ret → ∀ i, σ.proc i ≠ .running) :=
  calm_quiescent h hk hc hs

/-- non-vacuity of the repaired theorem and of the side condition: a job is accepted, its process runs,
`shutdown(wait=False)` is called (σ0 is `Calm`, the process is running) and returns after killing it. -/
def exShutCfg : Cfg := mkCfg [plainJob] [false]
def exShutPrefix : List Label := [.sub 0, .sub 0, .sub 0, .sub 0, .sub 0, .w 0 false, .sh 0]
def exShutRest : List Label := [.sh 0, .sh 0, .c 0 0, .c 0 0, .c 0 0, .c 0 0, .sh 0, .sh 0]
def exShut0 : State := (run .current exShutCfg init exShutPrefix).getD init
def exShut1 : State := (run .current exShutCfg exShut0 exShutRest).getD init

theorem exShut0_calm : Calm exShut0 := by
  refine ⟨by decide, fun s => ?_, fun i => ?_⟩
  · by_cases hs : s = 0
    · subst hs; decide
    · have : exShut0.sub s = .start := by
        simp [exShut0, exShutPrefix, exShutCfg, run, step, stepOp, subStep, wStep, shStep, mkCfg, init, upd, hs,
          Variant.current, plainJob]
      simp [this]
  · by_cases hi : i = 0
    · subst hi; decide
    · have : exShut0.wpc i = .notStarted := by
        simp [exShut0, exShutPrefix, exShutCfg, run, step, stepOp, subStep, wStep, shStep, mkCfg, init, upd, hi,
          Variant.current, plainJob]
      simp [this]

example : Reach .current exShutCfg exShut0 ∧ exShut0.sh 0 = .acq ∧ Calm exShut0 ∧ exShut0.proc 0 = .running ∧
    Steps .current exShutCfg exShut0 exShut1 ∧ exShut1.sh 0 = .ret ∧ exShut1.proc 0 = .killed :=
  ⟨reach_run exShutPrefix (by rfl), by decide, exShut0_calm, by decide, steps_run exShutRest (by rfl), by decide,
   by decide⟩

/-- non-vacuity of `after_shutdown_quiescent`: in the repaired variant the same scenario reaches `ret` -/
def exFixedTrace : List Label :=
  [.sub 0, .sub 0, .sub 0, .sub 0, .sub 0, .w 0 false, .w 0 false, .sh 0, .sh 0, .sh 0, .c 0 0, .c 0 0, .c 0 0,
   .c 0 0, .c 0 0, .sh 0, .sh 0]
def exFixed : State := (run .fixed exShutCfg init exFixedTrace).getD init
example : Reach .fixed exShutCfg exFixed ∧ exFixed.sh 0 = .ret ∧ exFixed.proc 0 = .killed ∧ exFixed.futs = [0] :=
  ⟨reach_run exFixedTrace (by rfl), by decide, by decide, by decide⟩

/-! ## shutdown(wait=True) -/

/-- After `shutdown(wait=True)` has returned — normally or by raising —: every registered job has delivered its
result, no process is running, and nothing is accepted afterwards. -/
def JoinQuiescent (v : Variant) : Prop :=
  ∀ (c : Cfg) (σ : State) (k : Nat), Reach v c σ → (σ.sh k = .jret ∨ σ.sh k = .raised) →
    (∀ i, i ∈ σ.futs → σ.wpc i = .fin) ∧ (∀ i, σ.proc i ≠ .running) ∧
    ∀ σ', Steps v c σ σ' → σ'.futs = σ.futs

/-- repaired code (`submit` reads the flag under `_lock`; `_join` snapshots under `_lock` and waits for all) -/
theorem after_join_quiescent {v : Variant} (h1 : v.submitLocked = true) (h3 : v.joinFixed = true) :
    JoinQuiescent v := by
  intro c σ k hr hk
  have J := jinv_reach h1 h3 hr
  rcases hk with hk | hk
  · have q := fixed_join_quiescent h1 h3 hr hk
    exact ⟨q.1, q.2, fun σ' hs => (fixed_join_closed h1 h3 hr hk hs).2⟩
  · have := J.nojoin k
    simp [hk, ShPc.oldJoin] at this

/-- the code at the pinned commit: `_join` calls `future.result()` in a loop, which re-raises the first stored job
exception (Popen failure, TimeoutExpired) — `shutdown(wait=True)` then leaves the remaining jobs running (`cexJoin`) -/
theorem after_join_quiescent_cex_join (v : Variant) (h : v.joinFixed = false) : ¬ JoinQuiescent v := by
  obtain ⟨a, b, d⟩ := v
  simp only at h
  subst h
  intro q
  have hr : Reach ⟨a, b, false⟩ cexJoinCfg
      ((run ⟨a, b, false⟩ cexJoinCfg init (cexJoin ⟨a, b, false⟩)).getD init) :=
    reach_run (cexJoin ⟨a, b, false⟩) (by cases a <;> cases b <;> rfl)
  have := (q cexJoinCfg _ 0 hr (Or.inr (by cases a <;> cases b <;> decide))).2.1 1
  exact this (by cases a <;> cases b <;> decide)

/-- … and with the repaired `submit` but the unlocked snapshot of the current `_join`, a submit inside its critical
section is missed by the snapshot (`cexJoinSnap`): both parts of the `_join` repair are needed -/
theorem after_join_quiescent_cex_snapshot (b : Bool) : ¬ JoinQuiescent ⟨true, b, false⟩ := by
  intro q
  have hr : Reach ⟨true, b, false⟩ cexJoinSnapCfg
      ((run ⟨true, b, false⟩ cexJoinSnapCfg init (cexJoinSnap ⟨true, b, false⟩)).getD init) :=
    reach_run (cexJoinSnap ⟨true, b, false⟩) (by cases b <;> rfl)
  have := (q cexJoinSnapCfg _ 0 hr (Or.inl (by cases b <;> decide))).2.1 0
  exact this (by cases b <;> decide)

/-- non-vacuity: repaired variant, two jobs (one fails to start), `shutdown(wait=True)` waits for both and returns -/
def exJoinTrace : List Label :=
  [.sub 0, .sub 0, .sub 0, .sub 0, .sub 0, .sub 1, .sub 1, .sub 1, .sub 1, .sub 1,
   .w 0 false, .w 0 false, .w 0 false, .w 1 false, .w 1 false, .sh 0, .sh 0, .sh 0, .sh 0,
   .exit 1, .w 1 false, .w 1 false, .w 1 false, .w 1 false, .sh 0]
def exJoin : State := (run .fixed cexJoinCfg init exJoinTrace).getD init
example : Reach .fixed cexJoinCfg exJoin ∧ exJoin.sh 0 = .jret ∧ exJoin.futs = [0, 1] ∧ exJoin.exn 0 = .other ∧
    exJoin.results 1 = 1 ∧ exJoin.proc 1 = .exited :=
  ⟨reach_run exJoinTrace (by rfl), by decide, by decide, by decide, by decide, by decide⟩

/-! ## the refinement pipeline (`solve_end_to_end`) -/

/-- `solve_end_to_end` reports `unsat` only if the query hit a known unsat core or a solver job that it ran actually
answered `unsat` (the first one, or — when refinement happened — the second one): a job that timed out, crashed,
printed garbage or failed to start never becomes `unsat`, on neither step. -/
theorem refined_timeout_is_unknown (coreHit isRefined changes : Bool) (r1 r2 : Reply)
    (h : pipeline coreHit isRefined changes r1 r2 = .unsat) :
    coreHit = true ∨ r1 = .unsat ∨
    (r1 = .satInvalid ∧ isRefined = false ∧ changes = true ∧ r2 = .unsat) := by
  cases coreHit <;> cases isRefined <;> cases changes <;> cases r1 <;> cases r2 <;> simp_all [pipeline, classify]

/-- a refined job that exceeds its time limit makes the whole pipeline `unknown` -/
theorem refined_hang_is_unknown (r1 : Reply) (changes isRefined : Bool)
    (h : pipelineJobs false isRefined changes r1 = 2) : pipeline false isRefined changes r1 .hang = .unknown := by
  cases isRefined <;> cases changes <;> cases r1 <;> simp_all [pipeline, pipelineJobs, classify]

/-- … and a first job that exceeds its time limit is `unknown` without a second job -/
theorem first_hang_is_unknown (isRefined changes : Bool) (r2 : Reply) :
    pipeline false isRefined changes .hang r2 = .unknown ∧ pipelineJobs false isRefined changes .hang = 1 := by
  cases isRefined <;> cases changes <;> simp [pipeline, pipelineJobs, classify]

/-- non-vacuity: the refinement path with a timed-out second job, and one with a genuine unsat -/
example : pipelineJobs false false true .satInvalid = 2 ∧ pipeline false false true .satInvalid .hang = .unknown ∧
    pipeline false false true .satInvalid .unsat = .unsat ∧ pipeline false false true .satInvalid .crash = .err := by decide

end HalmosVerif.Props.C17
