/-
Props.C18 — Configuration resolves by precedence and round-trips.

Theorems about `Model.Config` (the executable model of halmos' `config.py` & co.), stated against the independent
`Spec.Precedence`.  Helper lemmas: `Lemmas.Config`, `Lemmas.ConfigStrings`.
-/
import HalmosVerif.Lemmas.Config
import HalmosVerif.Lemmas.ConfigStrings
import HalmosVerif.Lemmas.ConfigTime
import HalmosVerif.Lemmas.ConfigLengths

namespace HalmosVerif.Props.C18
open HalmosVerif.Model.Config
open HalmosVerif.Spec.Precedence
open HalmosVerif.Bridge
open HalmosVerif.Lemmas.Config
open HalmosVerif.Lemmas.ConfigStrings
open HalmosVerif.Lemmas.ConfigTime
open HalmosVerif.Lemmas.ConfigLengths
open HalmosVerif.Gen

/-! ## The generated tables agree with the hand-written model -/

/-- the `ConfigSource` order used by the model is the one in `config.py` (regenerated each run) -/
theorem source_table : Source.table = ConfigTable.sources := by decide

/-- the trace events and action classes the model knows are those of `config.py` -/
theorem action_table :
    ConfigTable.traceEvents = ["LOG", "SSTORE", "SLOAD"] ∧
    ConfigTable.actions = ["ParseTimeout", "ParseCSVTraceEvent", "ParseCSVInt", "ParseErrorCodes", "ParseArrayLengths"] ∧
    (ConfigTable.fields.filter (fun f => f.action != "")).map (fun f => (f.name, f.action)) =
      [("panic_error_codes", "ParseErrorCodes"), ("array_lengths", "ParseArrayLengths"),
       ("default_array_lengths", "ParseCSVInt"), ("default_bytes_lengths", "ParseCSVInt"),
       ("trace_events", "ParseCSVTraceEvent"), ("solver_timeout_branching", "ParseTimeout"),
       ("solver_timeout_assertion", "ParseTimeout")] := by decide

/-! ## Precedence -/

/-- **precedence.**  For every stack of layers (any length, any sources, any subset of options set, `None` allowed) and
every option name, `value_with_source` returns exactly what the Spec calls the effective value: the value given by the
newest layer among those of maximal source that set the option (command line > function annotation > contract annotation >
config file > default; `void` layers never count), together with that source. -/
theorem precedence {α : Type} (name : String) (c : Config α) :
    toSpecResult (valueWithSource name c) = effective name (toSpec c) :=
  toSpecResult_valueWithSource name c

example : valueWithSource "loop"
    ([⟨.configFile, [("loop", some 7)], .none⟩, ⟨.commandLine, [("loop", none), ("width", some 1)], .none⟩,
      ⟨.configFile, [("loop", some 3)], .none⟩, ⟨.default, [("loop", some 2)], .none⟩] : Config Nat)
    = (some 7, .configFile) := by decide

/-- the same statement without reference to the Spec function: the winner sets the option, no layer that sets it has a
higher source, and no *newer* layer that sets it has an equal source; if no (non-void) layer sets it, the result is
`(None, void)`. -/
theorem precedence_explicit {α : Type} (name : String) (c : Config α) :
    ((∀ l ∈ c, l.get name = none ∨ l.source = .void) ∧ valueWithSource name c = (none, .void)) ∨
    (∃ newer l older v, c = newer ++ l :: older ∧ l.get name = some v ∧ l.source ≠ .void ∧
      valueWithSource name c = (some v, l.source) ∧
      (∀ t ∈ c, t.get name ≠ none → t.source.ord ≤ l.source.ord) ∧
      (∀ t ∈ newer, t.get name ≠ none → t.source.ord < l.source.ord)) := by
  have hrk : ∀ t : Layer α, (toSetting t).rankFor name = match t.get name with | some _ => t.source.ord | none => 0 :=
    fun t => rankFor_toSetting t name
  by_cases h0 : maxRankM name c = 0
  · left
    refine ⟨?_, ?_⟩
    · intro l hl
      have hle := le_maxRank name (toSpec c) (toSetting l) (List.mem_map_of_mem hl)
      have : (toSetting l).rankFor name = 0 := by unfold maxRankM at h0; omega
      rw [hrk] at this
      cases hg : l.get name with
      | none => left; rfl
      | some v =>
        right
        rw [hg] at this
        simp only [] at this
        cases hs : l.source <;> simp [hs, Source.ord] at this ⊢
    · rw [valueWithSource_eq]; simp [h0]
  · right
    have hpos : maxRank name (toSpec c) ≠ 0 := h0
    have heff := precedence name c
    cases hE : effective name (toSpec c) with
    | mk ev eo =>
    rw [hE] at heff
    obtain ⟨newer, s, older, hsplit, hv, ho, hmax, hall, hnew⟩ :=
      effective_some name (toSpec c) ev eo hpos hE
    -- pull the split back through `map`
    unfold toSpec at hsplit
    obtain ⟨newerL, restL, hc, hn, hrest⟩ := List.map_eq_append_iff.mp hsplit
    obtain ⟨l, olderL, hrestL, hl, _⟩ := List.map_eq_cons_iff.mp hrest
    subst hc hrestL
    have hsr : (toSetting l).rankFor name ≠ 0 := by rw [hl, hmax]; exact hpos
    rw [hrk] at hsr
    cases hg : l.get name with
    | none => rw [hg] at hsr; exact absurd rfl hsr
    | some v =>
      rw [hg] at hsr
      simp only [] at hsr
      refine ⟨newerL, l, olderL, v, rfl, hg, ?_, ?_, ?_, ?_⟩
      · intro hs; rw [hs] at hsr; exact hsr rfl
      · have h1 : (valueWithSource name (newerL ++ l :: olderL)).1 = some v := by
          have := congrArg Prod.fst heff
          simp only [toSpecResult] at this
          rw [this, ← hv, ← hl, ← hg]; rfl
        have h2 : toOrigin (valueWithSource name (newerL ++ l :: olderL)).2 = toOrigin l.source := by
          have := congrArg Prod.snd heff
          simp only [toSpecResult] at this
          rw [this, ← ho, ← hl]; rfl
        have h3 : (valueWithSource name (newerL ++ l :: olderL)).2 = l.source := by
          have hne := source_pos_of_value name _ v h1
          revert h2 hne hsr
          generalize (valueWithSource name (newerL ++ l :: olderL)).2 = x
          cases x <;> cases l.source <;> simp [toOrigin, Source.ord]
        exact Prod.ext h1 h3
      · intro t ht hset
        have := hall (toSetting t) (List.mem_map_of_mem ht)
        rw [← hl, hrk, hrk, hg] at this
        cases hgt : t.get name with
        | none => exact absurd hgt hset
        | some w => rw [hgt] at this; exact this
      · intro t ht hset
        have := hnew (toSetting t) (by rw [← hn]; exact List.mem_map_of_mem ht)
        rw [← hl, hrk, hrk, hg] at this
        cases hgt : t.get name with
        | none => exact absurd hgt hset
        | some w => rw [hgt] at this; exact this

/-- `with_overrides` pushes one layer and changes nothing below it; unknown keys are rejected (`sys.exit(2)`), never dropped -/
theorem with_overrides_layer {α : Type} (c : Config α) (src : Source) (ov : List (String × Option α)) :
    (ov.all (fun kv => isField kv.1) = true → withOverrides c src ov = .ok (⟨src, ov, .none⟩ :: c)) ∧
    (ov.all (fun kv => isField kv.1) = false → withOverrides c src ov = .error .exit2) := by
  unfold withOverrides
  constructor <;> intro h <;> simp [h]

example : (match withOverrides ([] : Config Nat) .commandLine [("loop", some 3)] with
    | .ok [l] => l.source == .commandLine && l.get "loop" == some 3 | _ => false) = true := by decide
example : (match withOverrides ([] : Config Nat) .commandLine [("loops", some 3)] with
    | .error .exit2 => true | _ => false) = true := by decide

/-! ## `--solver-command` versus `--solver` -/

def forgetWarn {α : Type} : Model.Config.SolverChoice α → Spec.Precedence.SolverChoice α
  | .command c _ => .command c
  | .solver s => .solver s

/-- **solver_command_rule.**  The exact command is used iff a non-empty `--solver-command` is in effect from a source at
least as strong as the one `--solver` is in effect from; otherwise the named solver.  (The `solver_command_source` truthiness
test in the code is redundant.)  The warning is raised exactly when both come from the same source. -/
theorem solver_command_rule {α : Type} (truthy : α → Bool) (c : Config α) :
    forgetWarn (resolvedSolverCommand truthy c) = solverChoice truthy (toSpec c) ∧
    (∀ cmd w, resolvedSolverCommand truthy c = .command cmd w →
      (w = true ↔ (valueWithSource "solver_command" c).2 = (valueWithSource "solver" c).2)) := by
  have hs := precedence "solver" c
  have hc := precedence "solver_command" c
  have hpos := source_pos_of_value "solver_command" c
  unfold resolvedSolverCommand solverChoice
  rw [← hs, ← hc]
  revert hpos
  generalize valueWithSource "solver" c = a
  generalize valueWithSource "solver_command" c = b
  obtain ⟨s, ss⟩ := a
  obtain ⟨cm, cs⟩ := b
  intro hpos
  simp only [toSpecResult, rank_toOrigin]
  cases cm with
  | none => simp [forgetWarn]
  | some v =>
    have hne : cs.ord ≠ 0 := hpos v rfl
    constructor
    · by_cases ht : truthy v = true <;> by_cases hge : cs.ord ≥ ss.ord <;> simp [forgetWarn, ht, hge, hne]
    · intro cmd w
      by_cases ht : truthy v = true <;> by_cases hge : cs.ord ≥ ss.ord <;> simp [ht, hge, hne]
      intro _ hw
      rw [← hw]
      constructor
      · intro h; cases cs <;> cases ss <;> simp_all [Source.ord]
      · intro h; rw [h]; simp

example : resolvedSolverCommand (fun s : String => s != "")
    [⟨.commandLine, [("solver", some "z3")], .none⟩, ⟨.configFile, [("solver_command", some "mysolver -x")], .none⟩,
     ⟨.default, [("solver", some "yices"), ("solver_command", some "")], .none⟩] = .solver (some "z3") := by decide
example : resolvedSolverCommand (fun s : String => s != "")
    [⟨.configFile, [("solver_command", some "mysolver -x"), ("solver", some "z3")], .none⟩,
     ⟨.default, [("solver", some "yices"), ("solver_command", some "")], .none⟩] = .command "mysolver -x" true := by decide

/-! ## Annotation scoping -/

/-- **annotation_scope.**  In the loops of `_main` / `run_tests`, the configuration a test function `f` of contract `K` runs with
is `args` with at most two layers on top: `K`'s own contract annotation (if its natspec carries `@custom:halmos` options) and
`f`'s own function annotation (if its devdoc carries them) — whatever the other contracts and functions are annotated with,
and in whatever order they are processed.  With ghost labels: a layer created for function `(k', g)` occurs in the config
of `(K, f)` only if `(k', g) = (K, f)`; a layer created for contract `k'` only if `k' = K`. -/
theorem annotation_scope {α : Type} (parse : Str → Except Err (List (String × Option α))) (args : Config α)
    (arts : List ContractArt) (k f : String) (cfg : Config α)
    (hargs : ∀ l ∈ args, l.label = .none)
    (h : (k, f, Except.ok cfg) ∈ deriveAllG parse args arts) :
    (∃ K ∈ arts, ∃ fn ∈ K.funs, K.name = k ∧ fn.1 = f ∧
      ∃ fl cl : List (Layer α), cfg = fl ++ cl ++ args ∧
        ((fl = [] ∧ (fn.2 = none ∨ fn.2 = some [])) ∨
          ∃ t ov, fn.2 = some t ∧ t ≠ [] ∧ parse t = .ok ov ∧ fl = [⟨.functionAnnotation, ov, .function k f⟩]) ∧
        ((cl = [] ∧ (K.natspec = none ∨ ∃ t, K.natspec = some t ∧ parseNatspec t = [])) ∨
          ∃ t ov, K.natspec = some t ∧ parseNatspec t ≠ [] ∧ parse (parseNatspec t) = .ok ov ∧
            cl = [⟨.contractAnnotation, ov, .contract k⟩])) ∧
    (∀ l ∈ cfg, ∀ k' g, l.label = .function k' g → k' = k ∧ g = f) ∧
    (∀ l ∈ cfg, ∀ k', l.label = .contract k' → k' = k) := by
  unfold deriveAllG at h
  rw [List.mem_flatMap] at h
  obtain ⟨K, hK, hin⟩ := h
  have main : ∃ fn ∈ K.funs, K.name = k ∧ fn.1 = f ∧
      ∃ fl cl : List (Layer α), cfg = fl ++ cl ++ args ∧
        ((fl = [] ∧ (fn.2 = none ∨ fn.2 = some [])) ∨
          ∃ t ov, fn.2 = some t ∧ t ≠ [] ∧ parse t = .ok ov ∧ fl = [⟨.functionAnnotation, ov, .function k f⟩]) ∧
        ((cl = [] ∧ (K.natspec = none ∨ ∃ t, K.natspec = some t ∧ parseNatspec t = [])) ∨
          ∃ t ov, K.natspec = some t ∧ parseNatspec t ≠ [] ∧ parse (parseNatspec t) = .ok ov ∧
            cl = [⟨.contractAnnotation, ov, .contract k⟩]) := by
    cases hn : withNatspecG parse args (.contract K.name) K.natspec with
    | error e =>
      rw [hn] at hin
      simp only [List.mem_map] at hin
      obtain ⟨fn, _, heq⟩ := hin
      simp only [Prod.mk.injEq] at heq
      exact absurd heq.2.2 (by intro h; cases h)
    | ok ca =>
      rw [hn] at hin
      simp only [List.mem_map] at hin
      obtain ⟨fn, hfn, heq⟩ := hin
      simp only [Prod.mk.injEq] at heq
      obtain ⟨hk, hf, hd⟩ := heq
      refine ⟨fn, hfn, hk, hf, ?_⟩
      subst hk hf
      have hca := withNatspecG_ok parse hn
      have hfd := withDevdocG_ok parse hd
      rcases hfd with ⟨hcfg, hdd⟩ | ⟨t, ov, hdd, hne, hp, hcfg⟩
      · rcases hca with ⟨hca', hns⟩ | ⟨t2, ov2, hns, hne2, hp2, hca'⟩
        · exact ⟨[], [], by simp [hcfg, hca'], Or.inl ⟨rfl, hdd⟩, Or.inl ⟨rfl, hns⟩⟩
        · exact ⟨[], [_], by simp [hcfg, hca'], Or.inl ⟨rfl, hdd⟩, Or.inr ⟨t2, ov2, hns, hne2, hp2, rfl⟩⟩
      · rcases hca with ⟨hca', hns⟩ | ⟨t2, ov2, hns, hne2, hp2, hca'⟩
        · exact ⟨[_], [], by simp [hcfg, hca'], Or.inr ⟨t, ov, hdd, hne, hp, rfl⟩, Or.inl ⟨rfl, hns⟩⟩
        · exact ⟨[_], [_], by simp [hcfg, hca'], Or.inr ⟨t, ov, hdd, hne, hp, rfl⟩, Or.inr ⟨t2, ov2, hns, hne2, hp2, rfl⟩⟩
  obtain ⟨fn, hfn, hk, hf, fl, cl, hcfg, hfl, hcl⟩ := main
  refine ⟨⟨K, hK, fn, hfn, hk, hf, fl, cl, hcfg, hfl, hcl⟩, ?_, ?_⟩
  · intro l hl k' g hlab
    rw [hcfg] at hl
    simp only [List.mem_append] at hl
    rcases hl with (hl | hl) | hl
    · rcases hfl with ⟨hnil, _⟩ | ⟨t, ov, _, _, _, hone⟩
      · rw [hnil] at hl; cases hl
      · rw [hone] at hl
        simp only [List.mem_singleton] at hl
        rw [hl] at hlab
        simp only [Label.function.injEq] at hlab
        exact ⟨hlab.1.symm, hlab.2.symm⟩
    · rcases hcl with ⟨hnil, _⟩ | ⟨t, ov, _, _, _, hone⟩
      · rw [hnil] at hl; cases hl
      · rw [hone] at hl
        simp only [List.mem_singleton] at hl
        rw [hl] at hlab
        cases hlab
    · rw [hargs l hl] at hlab; cases hlab
  · intro l hl k' hlab
    rw [hcfg] at hl
    simp only [List.mem_append] at hl
    rcases hl with (hl | hl) | hl
    · rcases hfl with ⟨hnil, _⟩ | ⟨t, ov, _, _, _, hone⟩
      · rw [hnil] at hl; cases hl
      · rw [hone] at hl
        simp only [List.mem_singleton] at hl
        rw [hl] at hlab
        cases hlab
    · rcases hcl with ⟨hnil, _⟩ | ⟨t, ov, _, _, _, hone⟩
      · rw [hnil] at hl; cases hl
      · rw [hone] at hl
        simp only [List.mem_singleton] at hl
        rw [hl] at hlab
        simp only [Label.contract.injEq] at hlab
        exact hlab.symm
    · rw [hargs l hl] at hlab; cases hlab

def exArts : List ContractArt :=
  [⟨"K", some "@custom:halmos --width 4".toList, [("f", some "--loop 3".toList), ("g", some "--loop 9".toList), ("h", none)]⟩,
   ⟨"L", some "@custom:halmos --depth 7".toList, [("f", none)]⟩]
def exBase : Config Val := [⟨.default, [("loop", some (.int 2))], .none⟩]

def exInt : Option Val → Option Int
  | some (.int i) => some i
  | _ => none

/-- non-vacuity: two contracts, annotated functions; `K.g`'s `--loop 9` does not reach `K.f`, `L`'s natspec does not reach `K` -/
def exResult : List (String × Option (Option Int × Option Int × Option Int)) :=
  (deriveAll exBase exArts).map (fun r => (r.1 ++ "." ++ r.2.1, (r.2.2.toOption.map (fun c =>
      (exInt (valueWithSource "loop" c).1, exInt (valueWithSource "width" c).1, exInt (valueWithSource "depth" c).1)))))

example : exResult =
    [("K.f", some (some 3, some 4, none)), ("K.g", some (some 9, some 4, none)),
     ("K.h", some (some 2, some 4, none)), ("L.f", some (some 2, none, some 7))] := by
  decide +kernel

/-! ## Round trips of the structured option values

For each structured type: `parse (unparse v) = ok v` for **every** value `v` that `parse` can produce (no size bounds).
Values outside the range of `parse` (the empty list for CSV-int, which `ensure_non_empty` rejects) are covered explicitly. -/

/-- **CSV integer lists** (`--default-array-lengths`, `--default-bytes-lengths`): every non-empty list of integers -/
theorem csvint_roundtrip (l : List Int) (hne : l ≠ []) : parseCsvInt (unparseCsvInt l) = .ok l := by
  unfold parseCsvInt unparseCsvInt
  rw [parseCsv_join (l.map showInt) (by
    intro p hp
    obtain ⟨i, _, rfl⟩ := List.mem_map.mp hp
    exact ⟨showInt_ne_nil i, showInt_chars i⟩)]
  rw [mapM?_map pyInt10 showInt l (fun i _ => pyInt10_showInt i)]
  cases l with
  | nil => exact absurd rfl hne
  | cons a t => rfl

example : parseCsvInt (unparseCsvInt [0, -65, 1024]) = .ok [0, -65, 1024] := csvint_roundtrip _ (by simp)

/-- the empty list is not a CSV-int value: its rendering `""` is rejected, not defaulted -/
theorem csvint_empty_rejected : parseCsvInt (unparseCsvInt []) = .error .valueError := by decide

/-- **trace events**: every list (empty, repeated elements allowed) over the `TraceEvent` members -/
theorem events_roundtrip (l : List Str) (h : ∀ e ∈ l, e ∈ traceEventNames) :
    parseTraceEvents (unparseTraceEvents l) = .ok l := by
  have hclean : ∀ e ∈ traceEventNames, e ≠ [] ∧ ∀ c ∈ e, isSpace c = false ∧ c ≠ ',' := by decide
  unfold parseTraceEvents unparseTraceEvents
  simp only []
  rw [parseCsv_join l (fun e he => hclean e (h e he))]
  have : l.all (fun t => traceEventNames.contains t) = true := by
    rw [List.all_eq_true]
    intro e he
    exact List.contains_iff_mem.mpr (h e he)
  rw [if_pos this]

example : parseTraceEvents (unparseTraceEvents ["SLOAD".toList, "LOG".toList, "SLOAD".toList])
    = .ok ["SLOAD".toList, "LOG".toList, "SLOAD".toList] := by decide

/-- **error-code sets**: every finite set of natural numbers, in any enumeration order (`*` ↔ the empty set) -/
theorem errorcodes_roundtrip (l : List Int) (hnn : ∀ v ∈ l, 0 ≤ v) (hnd : l.Nodup) :
    parseErrorCodes (unparseErrorCodes l) = .ok l := by
  cases hl : l with
  | nil => decide
  | cons a t =>
    rw [← hl]
    have hshow : ∀ v ∈ l, ∃ n : Nat, v = Int.ofNat n := by
      intro v hv
      have := hnn v hv
      cases v with
      | ofNat n => exact ⟨n, rfl⟩
      | negSucc n => exact absurd this (by omega)
    have hpieces : ∀ p ∈ l.map showHexInt, p ≠ [] ∧ ∀ c ∈ p, isSpace c = false ∧ c ≠ ',' := by
      intro p hp
      obtain ⟨v, hv, rfl⟩ := List.mem_map.mp hp
      obtain ⟨n, rfl⟩ := hshow v hv
      exact ⟨by simp [showHexInt], showHexInt_chars n⟩
    unfold parseErrorCodes unparseErrorCodes
    have hemp : l.isEmpty = false := by rw [hl]; rfl
    simp only [hemp, Bool.false_eq_true, if_false]
    have hstrip : strip (join [','] (l.map showHexInt)) = join [','] (l.map showHexInt) := by
      apply strip_id
      intro c hc
      rcases join_chars _ _ c hc with h | ⟨p, hp, hcp⟩
      · simp only [List.mem_singleton] at h; rw [h]; decide
      · exact ((hpieces p hp).2 c hcp).1
    rw [hstrip]
    have hstar : join [','] (l.map showHexInt) ≠ ['*'] := by
      rw [hl]
      obtain ⟨n, hn⟩ := hshow a (by rw [hl]; exact List.mem_cons_self ..)
      rw [hn]
      cases t <;> simp [join, showHexInt]
    rw [if_neg hstar, parseCsv_join _ hpieces]
    rw [mapM?_map pyInt0 showHexInt l (fun v hv => by obtain ⟨n, rfl⟩ := hshow v hv; exact pyInt0_showHexInt n)]
    simp only [dedup_nodup l hnd, ensureNonEmpty, hemp, Bool.false_eq_true, if_false]

example : parseErrorCodes (unparseErrorCodes [0x11, 1, 0x32]) = .ok [0x11, 1, 0x32] :=
  errorcodes_roundtrip _ (by decide) (by decide)

/-- Full-strength statement "every set `parse` can produce round-trips" is **false of the current code**: `parse` accepts
negative literals (`"-1"` ↦ `{-1}`), `unparse` renders `-1` as `0x-1`, which `parse` rejects.  (Replayed by the harness:
finding `ParseErrorCodes.unparse:negative`.) -/
theorem errorcodes_roundtrip_negative_cex :
    ¬ (∀ s l, parseErrorCodes s = .ok l → parseErrorCodes (unparseErrorCodes l) = .ok l) := by
  intro h
  have := h "-1".toList [-1] (by decide +kernel)
  revert this
  decide +kernel

/-! ## Malformed values are rejected, never silently defaulted -/

/-- **malformed_rejected.**
(1) CSV-int: a string without any token (empty, blanks, commas only) or with a token that is not an integer literal;
(2) error codes: no token (and not `*`), or a token that is not a literal of its base (`0b102`, `0x`, `08`, …);
(3) trace events: any token outside the `TraceEvent` members;
(4) array lengths: a non-empty string outside `(NAME=(\{[\d,]+\}|\d+)(,|$))*` — e.g. unbalanced braces — or an empty size list;
(5) TOML: anything but exactly one top-level table named `global`;
(6) option names unknown to `Config` (`with_overrides`, see `with_overrides_layer`): `sys.exit(2)`.
Every case ends in an error; none yields a default value. -/
theorem malformed_rejected :
    (∀ s, (parseCsv s = [] ∨ ∃ t ∈ parseCsv s, pyInt10 t = none) → parseCsvInt s = .error .valueError) ∧
    (∀ s, strip s ≠ ['*'] → (parseCsv (strip s) = [] ∨ ∃ t ∈ parseCsv (strip s), pyInt0 t = none) →
      parseErrorCodes s = .error .valueError) ∧
    (∀ s, (∃ t ∈ parseCsv s, t ∉ traceEventNames) → parseTraceEvents s = .error .valueError) ∧
    (∀ s, s ≠ [] → parseItems ((s.filter (fun c => !isSpace c)).length + 1) (s.filter (fun c => !isSpace c)) = none →
      parseArrayLengths s = .error .valueError) ∧
    (∀ doc : TomlDoc, (¬ ∃ data, doc = [("global", data)]) → tomlParseDict doc = .error .exit2) ∧
    (∀ (c : Config Val) src ov, (∃ kv ∈ ov, isField kv.1 = false) → withOverrides c src ov = .error .exit2) := by
  refine ⟨?_, ?_, ?_, ?_, ?_, ?_⟩
  · intro s h
    unfold parseCsvInt
    rcases h with h | h
    · rw [h]; rfl
    · rw [mapM?_none _ _ h]
  · intro s hstar h
    unfold parseErrorCodes
    simp only [hstar, if_false]
    rcases h with h | h
    · rw [h]; rfl
    · rw [mapM?_none _ _ h]
  · intro s ⟨t, ht, hnot⟩
    unfold parseTraceEvents
    simp only []
    have : (parseCsv s).all (fun t => traceEventNames.contains t) = false := by
      rw [List.all_eq_false]
      exact ⟨t, ht, by simpa [List.contains_iff_mem] using hnot⟩
    rw [this]; rfl
  · intro s hne h
    unfold parseArrayLengths
    cases s with
    | nil => exact absurd rfl hne
    | cons a t => simp only [List.isEmpty_cons, Bool.false_eq_true, if_false]; rw [h]
  · intro doc h
    unfold tomlParseDict
    split
    · rename_i sec data
      by_cases hs : sec = "global"
      · exact absurd ⟨data, by rw [hs]⟩ h
      · simp [hs]
    · rfl
  · intro c src ov ⟨kv, hkv, hf⟩
    unfold withOverrides
    have : ov.all (fun kv => isField kv.1) = false := by
      rw [List.all_eq_false]; exact ⟨kv, hkv, by simp [hf]⟩
    rw [this]; rfl

/-- concrete malformed strings of each grammar (non-vacuity of the hypotheses above, and the stated examples:
empty list, bad base, unbalanced braces, unknown trace event, unknown key, non-`[global]` TOML, bad time) -/
theorem malformed_examples :
    parseCsvInt "".toList = .error .valueError ∧ parseCsvInt " , ,".toList = .error .valueError ∧
    parseCsvInt "1,x".toList = .error .valueError ∧ parseCsvInt "1__0".toList = .error .valueError ∧
    parseErrorCodes "".toList = .error .valueError ∧ parseErrorCodes "0b102".toList = .error .valueError ∧
    parseErrorCodes "0x".toList = .error .valueError ∧ parseErrorCodes "08".toList = .error .valueError ∧
    parseErrorCodes "1,*".toList = .error .valueError ∧
    parseTraceEvents "LOG,log".toList = .error .valueError ∧
    parseArrayLengths "x={1".toList = .error .valueError ∧ parseArrayLengths "x=1}".toList = .error .valueError ∧
    parseArrayLengths "x={{1}}".toList = .error .valueError ∧ parseArrayLengths "x={}".toList = .error .valueError ∧
    parseArrayLengths "x={,}".toList = .error .valueError ∧ parseArrayLengths "x=1,2".toList = .error .valueError ∧
    parseTimeout "".toList = .error .valueError ∧ parseTimeout "abc".toList = .error .valueError ∧
    parseTimeout "1 2s".toList = .error .valueError ∧ parseTimeout "1d".toList = .error .valueError ∧
    tomlParseDict [] = .error .exit2 ∧ tomlParseDict [("profile", some [])] = .error .exit2 ∧
    tomlParseDict [("global", some []), ("extra", some [])] = .error .exit2 ∧
    withConfigFile [] [("global", some [("no-such-option", .int 1)])] = .error .exit2 := by
  repeat' constructor
  all_goals exact errIs_eq (by decide +kernel)

/-- **array-length maps** (`--array-lengths`): every map `parse` can produce — insertion-ordered, distinct names that are
non-empty and contain neither `= , { }` nor white space, each with a non-empty list of natural numbers; no bound on the number
of entries, the name length or the magnitudes.  (`{}` ↔ the empty string.) -/
theorem arraylengths_roundtrip (d : List (Str × List Int)) (h : ∀ kv ∈ d, GoodKey kv.1 ∧ GoodSizes kv.2)
    (hd : (d.map (·.1)).Nodup) : parseArrayLengths (unparseArrayLengths d) = .ok d :=
  lengths_roundtrip d h hd

example : parseArrayLengths (unparseArrayLengths [("a.b".toList, [1, 2]), ("x".toList, [0])])
    = .ok [("a.b".toList, [1, 2]), ("x".toList, [0])] := by decide +kernel
example : GoodKey "a.b".toList ∧ GoodSizes [1, 2] :=
  ⟨⟨by decide, by decide⟩, ⟨by decide, by decide⟩⟩

/-- names with a brace, an empty size list or a negative size are not values of the type: their rendering is rejected -/
theorem arraylengths_outside_range :
    parseArrayLengths (unparseArrayLengths [("x".toList, [])]) = .error .valueError ∧
    parseArrayLengths (unparseArrayLengths [("x".toList, [-1])]) = .error .valueError ∧
    parseArrayLengths (unparseArrayLengths [("a{".toList, [1])]) = .error .valueError := by
  repeat' constructor
  all_goals exact errIs_eq (by decide +kernel)

/-! ## Timeouts -/

/-- **timeout_roundtrip** (repaired `unparse`: whole seconds as `Ns`, whole milliseconds as `Kms`, anything else as the
exact decimal number of seconds).  For **every** time value `parse` can produce — every decimal rational, of any size and
precision, negative ones included — `parse (unparse v) = v`.  (Exact values; binary rounding of Python floats is covered by
the exhaustive grid run on the real code.) -/
theorem timeout_roundtrip (d : Dec) (h : d.Normal) : parseTimeout (unparseTimeoutFixed d) = .ok (.fin d) := by
  unfold unparseTimeoutFixed
  by_cases h0 : d.scale = 0
  · rw [if_pos h0]
    have := parse_showInt_s d.mant
    rw [show "s".toList = ['s'] from rfl, this]
    obtain ⟨m, s⟩ := d
    simp only at h0
    subst h0; rfl
  · rw [if_neg h0]
    by_cases h3 : d.scale ≤ 3
    · rw [if_pos h3, show "ms".toList = ['m', 's'] from rfl, parse_showInt_ms, normalize_ms d h h0 h3]
    · rw [if_neg h3, show "s".toList = ['s'] from rfl, parse_showDec d (by omega), normalize_normal d h]

example : unparseTimeoutFixed ⟨15, 1⟩ = "1500ms".toList ∧ unparseTimeoutFixed ⟨5, 4⟩ = "0.0005s".toList ∧
    unparseTimeoutFixed ⟨60, 0⟩ = "60s".toList ∧ unparseTimeoutFixed ⟨-12345, 4⟩ = "-1.2345s".toList ∧
    Dec.Normal ⟨5, 4⟩ := by
  refine ⟨by decide +kernel, by decide +kernel, by decide +kernel, by decide +kernel, Or.inr (by decide)⟩

/-- every value `parse` produces is normal (so the hypothesis of `timeout_roundtrip` is exactly "a value of the type") -/
theorem normalize_is_normal (m : Int) (s : Nat) : (Dec.normalize m s).Normal := by
  induction s generalizing m with
  | zero => left; rfl
  | succ s ih =>
    unfold Dec.normalize
    by_cases hm : m % 10 = 0
    · rw [if_pos hm]; exact ih _
    · rw [if_neg hm]; right; exact hm

/-- the two counterexamples to the round trip of the **pinned** `ParseTimeout.unparse` (truncation): 1.5 s ↦ `"1s"` ↦ 1 s,
and 0.5 ms ↦ `"0ms"` ↦ 0 = *no timeout*.  Replayed on the real code by the harness (finding `ParseTimeout.unparse:truncates`). -/
theorem timeout_roundtrip_current_cex :
    ¬ (∀ d : Dec, d.Normal → parseTimeout (unparseTimeoutCurrent d) = .ok (.fin d)) := by
  intro h
  have := h ⟨15, 1⟩ (Or.inr (by decide))
  revert this
  decide +kernel

theorem timeout_current_examples :
    parseTimeout "1.5s".toList = .ok (.fin ⟨15, 1⟩) ∧ unparseTimeoutCurrent ⟨15, 1⟩ = "1s".toList ∧
    parseTimeout "1s".toList = .ok (.fin ⟨1, 0⟩) ∧
    parseTimeout "0.5ms".toList = .ok (.fin ⟨5, 4⟩) ∧ unparseTimeoutCurrent ⟨5, 4⟩ = "0ms".toList ∧
    parseTimeout "0ms".toList = .ok (.fin ⟨0, 0⟩) := by decide +kernel

end HalmosVerif.Props.C18
