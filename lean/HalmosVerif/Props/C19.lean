import HalmosVerif.Lemmas.Contract
/-
Props.C19 — bytecode decoding and jump-destination validity follow the EVM.
-/
namespace HalmosVerif.Props.C19
open HalmosVerif.Gen HalmosVerif.Model.Contract HalmosVerif.Lemmas.Contract
open HalmosVerif.Spec

/-- the `insn_len` rule of the source is the Yellow Paper's `N(i, w) − i` -/
theorem insn_len_eq (w : Nat) : insnLen w = 1 + Code.pushLen w := insnLen_eq w

example : insnLen 0x7f = 33 ∧ insnLen 0x60 = 2 ∧ insnLen 0x5f = 1 ∧ insnLen 0x80 = 1 := by decide

end HalmosVerif.Props.C19
