import HalmosVerif.Lemmas.Contract
/-
Props.C19 — bytecode decoding and jump-destination validity follow the EVM.

Model: `Model.Contract` (contract.py, branch for branch; constants and `insn_len` regenerated from the source into
`Gen.Opcodes`).  Spec: `Spec.Code` (Yellow Paper §9.4.3 `D(c)`, `N(i,w)`, PUSH/CODECOPY reads).

All theorems quantify over **every** chunk list `cs` the contract can be built from — hence every byte string, every
position where the concrete prefix `_fastcode` ends (the first non-empty chunk, if concrete), every mixture of
concrete chunks, numeral bytes inside symbolic chunks and unknown bytes — every `pc`/offset/size, and every valuation
`σ` of the unknown bytes.  No bounds.

Views of a model byte (Lemmas.Contract): `conc σ` = its value under `σ`; `known` = its value if known (native int
or z3 numeral); `strict` = its value if it is a native Python int (what `type(opcode) is int` lets through).
-/
namespace HalmosVerif.Props.C19
open HalmosVerif.Gen HalmosVerif.Model.Contract HalmosVerif.Lemmas.Contract
open HalmosVerif.Spec

/-- the code of the contract built from `cs`, under the valuation `σ` of its unknown bytes -/
abbrev concCode (σ : Nat → Nat) (cs : List Chunk) : List Nat := (ofChunks cs).code.map (conc σ)

/-- a chunk list with three chunks: `PUSH1 3; JUMP; JUMPDEST` | a PUSH2 whose data is one unknown and one numeral byte | `JUMPDEST` -/
def exChunks : List Chunk := [.conc [0x60, 0x03, 0x56, 0x5b, 0x61], .symb [.sym 5, .num 0x5b], .conc [0x5b]]

/-! ### the `insn_len` rule -/

/-- the `insn_len` rule of the source is the Yellow Paper's `N(i, w) − i` -/
theorem insn_len_eq (w : Nat) : insnLen w = 1 + Code.pushLen w := insnLen_eq w

example : insnLen 0x7f = 33 ∧ insnLen 0x60 = 2 ∧ insnLen 0x5f = 1 ∧ insnLen 0x80 = 1 ∧ insnLen 0x5b = 1 := by decide

/-! ### jump destinations -/

/-- **Fully concrete code, however it is chunked** (wherever `_fastcode` ends, whichever PUSH straddles a chunk
boundary): `valid_jumpdests()` terminates and is exactly the Yellow Paper's `D(c)`. -/
theorem jumpdests_eq (bss : List (List Nat)) :
    jumpdests (ofChunks (bss.map Chunk.conc)) = some (Code.validJumpdests bss.flatten) := by
  rw [jumpdests_eq_sweep _ (ofChunks_wf _), ofChunks_code]
  have : (bss.map Chunk.conc).flatMap Chunk.bytes = bss.flatten.map CodeByte.lit := by
    induction bss with
    | nil => rfl
    | cons b r ih => simp [List.flatMap_cons, Chunk.bytes, ih]
  rw [this, List.map_map]
  have h2 : (strict ∘ CodeByte.lit) = (some : Nat → Option Nat) := by funext x; rfl
  rw [h2]; exact congrArg some (sweepFrom_map_some _ 0 0)

example : jumpdests (ofChunks [.conc [0x61], .conc [0x5b, 0x5b, 0x5b], .conc [], .conc [0x60, 0x5b, 0x5b]]) = some [3, 6] := by
  decide

/-- **Any code** (symbolic regions included): `valid_jumpdests()` terminates and is the linear sweep over the bytes that
are native ints, up to the first opcode position holding anything else (an unknown byte *or* a numeral inside a
symbolic chunk) — stated explicitly, not excluded. -/
theorem jumpdests_sweep (cs : List Chunk) :
    jumpdests (ofChunks cs) = some (Code.sweep ((ofChunks cs).code.map strict)) :=
  jumpdests_eq_sweep _ (ofChunks_wf cs)

example : jumpdests (ofChunks exChunks) = some [3, 7] := by decide

/-- Yellow Paper fact used below: a position inside PUSH data (`skip` pending bytes) is never in `D_J`. -/
theorem spec_push_data_never_valid (c : List Nat) (pc skip d : Nat) (h : d ∈ Code.jumpdestsFrom c pc skip) :
    pc + skip ≤ d := jumpdestsFrom_ge c pc skip d h

/-- **Execution never jumps into PUSH data**: whenever the JUMP/JUMPI check accepts `target` (and `advance` moves to
`target + 1`), then for *every* value of the unknown bytes `target ∈ D(c)` — it is an instruction boundary holding the
byte JUMPDEST. -/
theorem never_jumps_into_push_data (cs : List Chunk) (target pc' : Nat) (h : jumpTo (ofChunks cs) target = some pc')
    (σ : Nat → Nat) :
    pc' = target + 1 ∧ Code.jumpAccepted (concCode σ cs) target = true ∧
      target < (concCode σ cs).length ∧ Code.byteAt (concCode σ cs) target = Code.JUMPDEST := by
  unfold jumpTo at h
  rw [jumpdests_sweep] at h
  simp only at h
  split at h
  · rename_i hc
    have hm : target ∈ Code.sweep ((ofChunks cs).code.map strict) := by simpa using hc
    have hv : target ∈ Code.validJumpdests (concCode σ cs) :=
      sweepFrom_sound _ _ (matches_strict σ _) 0 0 target hm
    have hb := jumpdestsFrom_byte _ 0 0 target hv
    refine ⟨by simpa using h.symm, ?_, ?_, ?_⟩
    · simpa [Code.jumpAccepted] using hv
    · simpa using hb.2.1
    · simpa [Code.byteAt] using hb.2.2
  · simp at h

example : jumpTo (ofChunks exChunks) 7 = some 8 := by decide
example : jumpTo (ofChunks exChunks) 6 = none := by decide    -- 0x5b inside PUSH2 data

/-- **Execution never rejects a genuine JUMPDEST**, provided the sweep meets only native-int bytes at opcode positions:
then for every value of the unknown bytes every `d ∈ D(c)` is accepted and execution continues at `d + 1`. -/
theorem accepts_every_jumpdest (cs : List Chunk)
    (hb : Code.sweepBlocked ((ofChunks cs).code.map strict) = false) (σ : Nat → Nat) (d : Nat)
    (hd : d ∈ Code.validJumpdests (concCode σ cs)) : jumpTo (ofChunks cs) d = some (d + 1) := by
  have hs := sweepFrom_complete _ _ (matches_strict σ (ofChunks cs).code) 0 0 hb
  unfold jumpTo
  rw [jumpdests_sweep]
  have : d ∈ Code.sweep ((ofChunks cs).code.map strict) := by unfold Code.sweep; rw [hs]; exact hd
  simp [this]

/-- unknown bytes confined to PUSH data do not block: the sweep of `exChunks` is complete -/
example : Code.sweepBlocked ((ofChunks exChunks).code.map strict) = false := by decide

/-- corollary for fully concrete code, however chunked: accepted ⇔ `d ∈ D(c)` -/
theorem jump_accepted_iff_concrete (bss : List (List Nat)) (d : Nat) :
    jumpTo (ofChunks (bss.map Chunk.conc)) d = (if Code.jumpAccepted bss.flatten d then some (d + 1) else none) := by
  unfold jumpTo Code.jumpAccepted
  rw [jumpdests_eq]

/-- the sweep stops at, and yields nothing beyond, the first opcode position that is not a native int -/
theorem jumpdests_below_stop (cs : List Chunk) (ds : List Nat) (h : jumpdests (ofChunks cs) = some ds) (d : Nat) (hd : d ∈ ds) :
    d < Code.sweepStop ((ofChunks cs).code.map strict) := by
  rw [jumpdests_sweep] at h
  simp only [Option.some.injEq] at h
  subst h
  exact sweepFrom_lt_stop _ 0 0 d hd

/-- Full-strength completeness — "every destination the EVM sweep over the *known* bytes reaches is accepted" — is
**false of the current code**: a byte of a symbolic chunk that simplifies to a numeral is accepted by
`decode_instruction` (via `int_of`) but ends the sweep of `__get_jumpdests` (`type(opcode) is not int`).
Witness: `Contract(Concat(0x5b, x))`; replayed on the real code by tools/props/c19.py (`replay_numeral_witness`). -/
theorem accepts_every_known_jumpdest_cex :
    ¬ (∀ (cs : List Chunk) (d : Nat), d ∈ Code.sweep ((ofChunks cs).code.map known) → jumpTo (ofChunks cs) d = some (d + 1)) := by
  intro h
  have := h [.symb [.num 0x5b, .sym 1]] 0 (by decide)
  exact absurd this (by decide)

/-- what does hold with numerals present: without numeral bytes `strict` and `known` coincide, so the sweep over the known
bytes is what `valid_jumpdests()` returns -/
theorem jumpdests_known_of_no_numeral (cs : List Chunk) (h : ∀ b ∈ (ofChunks cs).code, ∀ x, b ≠ CodeByte.num x) :
    jumpdests (ofChunks cs) = some (Code.sweep ((ofChunks cs).code.map known)) := by
  rw [jumpdests_sweep, strict_eq_known _ h]

example : ∀ b ∈ (ofChunks [.conc [0x7f], .symb [.sym 1, .sym 2], .conc [0x5b]]).code, ∀ x, b ≠ CodeByte.num x := by
  intro b hb x
  simp [ofChunks, Chunk.isEmpty, Chunk.bytes, SByte.toCode] at hb
  rcases hb with rfl | rfl | rfl | rfl <;> simp

/-! ### instruction decoding -/

/-- **decode**: at a `pc` inside the code whose opcode byte is known (native int or numeral), `decode_instruction(pc)`
succeeds and agrees with the EVM on opcode, next pc and — for every value of the unknown bytes — on the operand
(big-endian value of the immediate, zero bytes beyond the end of the code). -/
theorem decode_eq (cs : List Chunk) (pc op : Nat) (hpc : pc < (ofChunks cs).code.length)
    (hop : getitem (ofChunks cs) pc = .lit op ∨ getitem (ofChunks cs) pc = .num op) (σ : Nat → Nat) :
    ∃ insn, Model.Contract.decode (ofChunks cs) pc = .ok insn ∧
      insn.opcode = (Code.decode (concCode σ cs) pc).opcode ∧
      insn.pc = pc ∧
      insn.nextPc = (Code.decode (concCode σ cs) pc).nextPc ∧
      insn.operand.map (operandVal σ) = (Code.decode (concCode σ cs) pc).operand := by
  rw [Lemmas.Contract.decode_eq, if_pos hpc]
  exact decodeRaw_known σ _ (ofChunks_wf cs) pc op hop

example : Model.Contract.decode (ofChunks exChunks) 4
    = .ok { opcode := 0x61, pc := 4, nextPc := 7, operand := some [.sym 5, .num 0x5b] } := by rfl
/-- a PUSH32 truncated by the end of the code: the operand is right-padded with zeros -/
example : (Code.decode [0x7f, 0xab] 0).operand = some (0xab * 256 ^ 31) := by decide

/-- **implicit STOP**: beyond the end of the code `decode_instruction` returns `Instruction.STOP`, the EVM's `w = STOP` -/
theorem decode_past_end (cs : List Chunk) (pc : Nat) (hpc : (ofChunks cs).code.length ≤ pc) (σ : Nat → Nat) :
    Model.Contract.decode (ofChunks cs) pc = .ok Insn.stop ∧
      Insn.stop.opcode = (Code.decode (concCode σ cs) pc).opcode ∧ Insn.stop.operand = none ∧
      (Code.decode (concCode σ cs) pc).operand = none := by
  rw [Lemmas.Contract.decode_eq, if_neg (by omega)]
  have : Code.byteAt (concCode σ cs) pc = 0 := by
    have hn : (ofChunks cs).code[pc]? = none := List.getElem?_eq_none (by omega)
    unfold Code.byteAt; simp [hn]
  refine ⟨rfl, ?_, rfl, ?_⟩
  · simp [Code.decode, this, Insn.stop, OP_STOP]
  · simp [Code.decode, this, Code.pushLen, Code.PUSH1]

example : Model.Contract.decode (ofChunks exChunks) 8 = .ok Insn.stop := by rfl

/-- the error branch, explicitly: an unknown opcode byte makes `decode_instruction` raise `NotConcreteError` -/
theorem decode_unknown_opcode (cs : List Chunk) (pc i : Nat) (hpc : pc < (ofChunks cs).code.length)
    (h : getitem (ofChunks cs) pc = .sym i) : Model.Contract.decode (ofChunks cs) pc = .error .notConcrete := by
  rw [Lemmas.Contract.decode_eq, if_pos hpc]; exact decodeRaw_sym _ pc i h

example : Model.Contract.decode (ofChunks exChunks) 5 = .error .notConcrete := by rfl

/-- the operand bytes are exactly the immediate (at most 32 bytes, so `uint256(...)` only zero-extends) -/
theorem operand_length (cs : List Chunk) (pc : Nat) (insn : Insn) (bs : List CodeByte)
    (h : decodeRaw (ofChunks cs) pc = .ok insn) (ho : insn.operand = some bs) :
    bs.length = Code.pushLen insn.opcode ∧ bs.length ≤ 32 := by
  have key : ∀ op, (bs = unwrappedSlice (ofChunks cs) (pc + 1) (pc + insnLen op) ∧ insn.opcode = op) →
      bs.length = Code.pushLen insn.opcode ∧ bs.length ≤ 32 := by
    intro op ⟨hb, ho'⟩
    have hl : bs.length = insnLen op - 1 := by
      have := congrArg List.length (unwrappedSlice_conc (fun _ => 0) (ofChunks cs) (ofChunks_wf cs) (pc + 1) (pc + insnLen op))
      rw [List.length_map, read_length] at this
      rw [hb, this]; omega
    have h1 := insnLen_eq op
    have h2 : Code.pushLen op ≤ 32 := by unfold Code.pushLen Code.PUSH1 Code.PUSH32; split <;> omega
    rw [ho']; omega
  unfold decodeRaw at h
  cases hg : getitem (ofChunks cs) pc with
  | sym i => simp [hg] at h
  | lit op =>
    simp only [hg] at h
    split at h
    · simp only [Except.ok.injEq] at h; subst h; simp only [Option.some.injEq] at ho; exact key op ⟨ho.symm, rfl⟩
    · simp only [Except.ok.injEq] at h; subst h; simp at ho
  | num op =>
    simp only [hg] at h
    split at h
    · simp only [Except.ok.injEq] at h; subst h; simp only [Option.some.injEq] at ho; exact key op ⟨ho.symm, rfl⟩
    · simp only [Except.ok.injEq] at h; subst h; simp at ho

/-- the `_insn` cache is transparent: after any sequence of earlier `decode_instruction` calls, the answer is the one a
fresh contract gives -/
def cacheAfter (c : Contract) : List Nat → Cache
  | [] => Cache.empty c
  | pc :: earlier => (decodeInstruction c (cacheAfter c earlier) pc).2

theorem decode_cache_transparent (cs : List Chunk) (history : List Nat) (pc : Nat) :
    (decodeInstruction (ofChunks cs) (cacheAfter (ofChunks cs) history) pc).1 = Model.Contract.decode (ofChunks cs) pc := by
  have hok : CacheOK (ofChunks cs) (cacheAfter (ofChunks cs) history) := by
    induction history with
    | nil => exact cacheOK_empty _
    | cons p r ih => exact (decodeInstruction_cached _ _ ih p).2
  exact (decodeInstruction_cached _ _ hok pc).1

example : (decodeInstruction (ofChunks exChunks) (cacheAfter (ofChunks exChunks) [4, 0, 4, 9]) 4).1
    = .ok { opcode := 0x61, pc := 4, nextPc := 7, operand := some [.sym 5, .num 0x5b] } := by rfl

/-! ### code reads -/

/-- **slice**: `slice(start, size)` with `size ≤ MAX_MEMORY_SIZE` returns, for every value of the unknown bytes, the EVM's
zero-padded read (CODECOPY); larger sizes are refused with `OutOfGasError` (the guard of the real code, stated). -/
theorem slice_eq_read (cs : List Chunk) (start size : Nat) (σ : Nat → Nat) :
    (size ≤ MAX_MEMORY_SIZE → ∃ bs, slice (ofChunks cs) start size = .ok bs ∧
        bs.map (conc σ) = Code.read (concCode σ cs) start size) ∧
    (MAX_MEMORY_SIZE < size → slice (ofChunks cs) start size = .error .outOfGas) :=
  slice_conc σ _ (ofChunks_wf cs) start size

example : slice (ofChunks exChunks) 3 7 = .ok [.lit 0x5b, .lit 0x61, .sym 5, .num 0x5b, .lit 0x5b, .lit 0, .lit 0] := by rfl
example : slice (ofChunks exChunks) 1 2 = .ok [.lit 0x03, .lit 0x56] := by rfl     -- fast path (stop < len(_fastcode))
example : Code.read [1, 2, 3] 2 3 = [3, 0, 0] := by decide

/-- `unwrapped_slice(start, stop)` (the PUSH operand read) is the same zero-padded read -/
theorem unwrapped_slice_eq_read (cs : List Chunk) (start stop : Nat) (σ : Nat → Nat) :
    (unwrappedSlice (ofChunks cs) start stop).map (conc σ) = Code.read (concCode σ cs) start (stop - start) :=
  unwrappedSlice_conc σ _ (ofChunks_wf cs) start stop

/-- **getitem**: `Contract[key]` is the code byte at `key`, `0` beyond the end -/
theorem getitem_eq (cs : List Chunk) (key : Nat) (σ : Nat → Nat) :
    conc σ (getitem (ofChunks cs) key) = Code.byteAt (concCode σ cs) key :=
  getitem_conc σ _ (ofChunks_wf cs) key

example : getitem (ofChunks exChunks) 5 = .sym 5 ∧ getitem (ofChunks exChunks) 7 = .lit 0x5b ∧
    getitem (ofChunks exChunks) 8 = .lit 0 := by decide

end HalmosVerif.Props.C19
