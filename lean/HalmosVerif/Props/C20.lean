/-
Props.C20 — Tests are isolated from each other and results are deterministic.

* `isolation`: after a fork whose copy modes reach at least as deep as the in-place changes the child may make, no sequence of
  operations on the child changes anything the parent (sibling path / frontier state / post-setUp state) can observe.
* `isolation_needs_copy_cex`: the premise is needed — a field passed by reference and updated in place is seen by the parent
  (this is the situation of `known_keys` / `known_sigs`, shared on purpose).
* `copy_table_ok`: the table extracted from sevm.py (`Gen.CopyTable`) satisfies the premise at `create_branch`,
  `run_message`, `Path.branch`, `Path.extend_path`, the continuation sites start from fresh `context` / `st` / `jumpis`
  which the callbacks restore by deep copy, and the per-CALL / per-CREATE state backups as well as every failure-branch restore
  from them (run once per callee path) are copies as deep as the in-place changes. Changing e.g. `deepcopy(ex.storage)` to `ex.storage` breaks this theorem.
* `table_allows`: with `copy_table_ok`, every operation whose depth is within `mutDepth` of its field is `Allowed`.
* `order_independent`: on the abstract `runTests` model, per-test results do not depend on order, subset or repetition.
-/
import HalmosVerif.Lemmas.Heap
import HalmosVerif.Lemmas.Main

namespace HalmosVerif.Props.C20

open HalmosVerif.Model.Heap
open HalmosVerif.Gen.CopyTable

/-- **isolation**: whatever the child does within the copied depth, every field of the parent reads as before -/
theorem isolation {mode : Nat → Mode} {bound : Nat} {h : Heap} {parent child : Rec}
    (F : Forked mode bound h parent child) (ops : List Op) (A : ∀ op ∈ ops, Allowed mode op) :
    ∀ f, view (run h child ops).1 parent f = view h parent f := by
  intro f
  have I := inv_run ops (inv_of_forked F) A
  have hp := F.parentBelow f
  unfold view
  rw [I.frame1 _ hp]
  apply List.map_congr_left
  intro x hx
  exact I.frame2 x (F.closed _ hp x hx)

/-- non-vacuity of `isolation`: field 0 deep-copied (parent container 0 ↦ item 2; child container 10 ↦ item 11), the other
fields by reference (container 1); the child pushes to and rewrites field 0 and rebinds field 1 -/
def exMode : Nat → Mode := fun f => if f = 0 then .deep else .byRef
def exHeap : Heap :=
  { h1 := fun l => if l = 0 then [2] else if l = 10 then [11] else [], h2 := fun l => if l = 2 then 7 else if l = 11 then 7 else 0,
    next := 12 }
def exParent : Rec := fun f => if f = 0 then 0 else 1
def exChild : Rec := fun f => if f = 0 then 10 else 1
def exOps : List Op := [.push 0 5, .setInner 0 0 9, .rebind 1]

example : Forked exMode 10 exHeap exParent exChild ∧ (∀ op ∈ exOps, Allowed exMode op) := by
  refine ⟨⟨?_, ?_, ?_, ?_, ?_⟩, ?_⟩
  · intro f; unfold exParent; split <;> omega
  · intro l hl x hx
    unfold exHeap at hx
    simp only at hx
    split at hx
    · simp at hx; omega
    · split at hx
      · omega
      · cases hx
  · decide
  · intro f hf
    unfold exChild
    by_cases e : f = 0
    · simp [e]
    · simp [exMode, e, copyDepth] at hf
  · intro f hf x hx
    by_cases e : f = 0
    · subst e
      simp [exChild, exHeap] at hx
      omega
    · simp [exMode, e, copyDepth] at hf
  · intro op hop
    simp only [exOps, List.mem_cons, List.not_mem_nil, or_false] at hop
    rcases hop with h | h | h <;> subst h <;> simp [Allowed, Op.depth, Op.field, exMode, copyDepth]

example : view (run exHeap exChild exOps).1 exParent 0 = [7] ∧ view (run exHeap exChild exOps).1 exChild 0 = [9, 5] := by
  decide

/-- the premise cannot be dropped: a container passed by reference and updated in place changes under the parent -/
theorem isolation_needs_copy_cex :
    ¬ (∀ (mode : Nat → Mode) (h : Heap) (parent child : Rec) (ops : List Op),
        (∀ f, mode f = .byRef → child f = parent f) → ∀ f, view (run h child ops).1 parent f = view h parent f) := by
  intro H
  have := H (fun _ => .byRef) { h1 := fun _ => [], h2 := fun _ => 0, next := 5 } (fun _ => 0) (fun _ => 0) [.push 0 1]
    (fun _ _ => rfl) 0
  revert this
  decide

/-- **copy_table_ok**: the copy modes found in sevm.py reach as deep as the in-place changes -/
theorem copy_table_ok :
    (forkSites.all fun s => forkSiteOk s.2 && forkSiteComplete s.2) = true
      ∧ (pathSites.all fun s => pathSiteOk s.2) = true
      ∧ (contSites.all fun s => contSiteOk s.2) = true
      ∧ (callbackRestores.all fun s => callbackOk s.2) = true
      ∧ (backupSites.all fun s => backupOk s.2) = true
      ∧ (failureRestores.all fun s => backupOk s.2) = true
      ∧ failureRestores.map (·.1) = ["call.callback.failure", "create.callback.failure"]
      ∧ forkSites.map (·.1) = ["create_branch", "run_message"]
      ∧ contSites.map (·.1) = ["call", "create"]
      ∧ pathSites.map (·.1) = ["branch", "extend_path"] := by
  decide

/-- with the table in order, an operation no deeper than its field's `mutDepth` is allowed at every fork site
(`known_keys` / `known_sigs` excepted) -/
theorem table_allows (site : String × List (String × Mode)) (hs : site ∈ forkSites) (p : String × Mode) (hp : p ∈ site.2)
    (hx : sharedByDesign.contains p.1 = false) (d : Nat) (hd : d ≤ mutDepth p.1) : d ≤ copyDepth p.2 := by
  have h1 := copy_table_ok.1
  rw [List.all_eq_true] at h1
  have h2 := h1 site hs
  rw [Bool.and_eq_true] at h2
  have h3 := h2.1
  unfold forkSiteOk at h3
  rw [List.all_eq_true] at h3
  have h4 := h3 p hp
  rw [hx] at h4
  simp only [Bool.false_or, decide_eq_true_eq] at h4
  omega

example : ∃ site ∈ forkSites, ∃ p ∈ site.2, p.1 = "storage" ∧ sharedByDesign.contains p.1 = false ∧ copyDepth p.2 = 2 := by
  decide

/-! ## Order independence on the `runTests` model -/

open HalmosVerif.Model.Main

/-- **order_independent**: if the shared per-contract cache is transparent (`CacheTransparent`: a test's result does not depend on
which cache state, reachable from the initial one, it starts from — the frontier cache only memoises a function of the setUp
state) then the result recorded for a test is `runTest` from the initial cache, whatever tests ran before it -/
theorem order_independent {C S F R : Type} (runTest : C → S → F → R × C) (c0 : C) (s : S)
    (T : CacheTransparent runTest c0 s) (fs : List F) :
    (runTests runTest c0 s fs).map (·.2) = fs.map (fun f => (runTest c0 s f).1) := by
  exact runTests_results runTest c0 s T fs c0 (Reach.init)

/-- any two runs (other order, subset, repetitions) agree on every test they share -/
theorem order_independent_lookup {C S F R : Type} (runTest : C → S → F → R × C) (c0 : C) (s : S)
    (T : CacheTransparent runTest c0 s) (fs gs : List F) (f : F) (r r' : R)
    (h1 : (f, r) ∈ runTests runTest c0 s fs) (h2 : (f, r') ∈ runTests runTest c0 s gs) : r = r' := by
  have a := runTests_mem runTest c0 s T fs c0 Reach.init f r h1
  have b := runTests_mem runTest c0 s T gs c0 Reach.init f r' h2
  rw [a, b]

/-- non-vacuity: a cache that counts the tests run so far and a result that ignores it -/
example : CacheTransparent (fun (c : Nat) (s : Nat) (f : Nat) => (s + f, c + 1)) 0 3 := by
  intro c _ f; rfl

end HalmosVerif.Props.C20
