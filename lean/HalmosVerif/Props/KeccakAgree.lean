/-
Props.KeccakAgree — F3: the packed Keccak-256 (`Spec.Keccak.Fast`, the one the kernel evaluates in the table theorems)
agrees with the readable reference (`Spec.Keccak.Ref`).

A general proof (∀ message) would need a bit-level refinement argument over the 1600-bit packed state; what is proved here
is (1) the literal tables of the packed version are the ones the reference *derives* (round constants by LFSR, rotation
offsets by the ρ walk, π positions), and (2) agreement of the two hash functions, by kernel evaluation, on vectors that
cover every padding shape: empty, 1 byte, 135 (pad = single 0x81 byte), 136 (extra block of pure padding), 137, and
a 200-byte input.  `keccak_agree_partial` is therefore partial: the full statement
    ∀ msg, Fast.keccak256 msg = Ref.keccak256 msg
is additionally tested (not proved) on ≥ 1000 random inputs per run against `eth_hash` through Driver/Keccak.lean.
-/
import HalmosVerif.Spec.Keccak

namespace HalmosVerif.Props.KeccakAgree
open HalmosVerif.Spec.Keccak

/-- the 24 literal round constants are the LFSR-derived ones -/
theorem rc_table_ok : (List.range 24).map Ref.roundConstant = Fast.RC := by decide +kernel

/-- the ρ/π table is the derived one: entry for source lane x+5y rotates by r[x,y] and lands on lane y + 5((2x+3y) mod 5) -/
theorem rhopi_table_ok :
    Fast.RHOPI.all (fun e =>
      let x := e.1 % 5
      let y := e.1 / 5
      e.2.1 == Ref.rhoOffset x y && e.2.2 == y + 5 * ((2 * x + 3 * y) % 5)) = true
    ∧ Fast.RHOPI.length = 25 ∧ (List.range 25).all (fun i => Fast.RHOPI.any (·.1 == i)) = true := by decide +kernel

/-- one application of the permutation on a dense state -/
theorem keccakF_agree_vector :
    let lanes := (List.range 25).map fun i => (0x9E3779B97F4A7C15 * (i + 1) * (i + 7)) % 2 ^ 64
    let packed := (lanes.zipIdx.map fun (l, i) => l <<< (64 * i)).foldl (· ||| ·) 0
    (Ref.keccakF lanes).zipIdx.all (fun (l, i) => (Fast.keccakF packed >>> (64 * i)) &&& M64 == l) = true := by
  decide +kernel

/-- test messages: `n` bytes 7·i + 3 mod 256 -/
def msg (n : Nat) : List Nat := (List.range n).map fun i => (7 * i + 3) % 256

theorem agree_0 : Fast.keccak256 [] = Ref.keccak256 [] := by decide +kernel
theorem agree_1 : Fast.keccak256 [0xFF] = Ref.keccak256 [0xFF] := by decide +kernel
theorem agree_135 : Fast.keccak256 (msg 135) = Ref.keccak256 (msg 135) := by decide +kernel
theorem agree_136 : Fast.keccak256 (msg 136) = Ref.keccak256 (msg 136) := by decide +kernel
theorem agree_137 : Fast.keccak256 (msg 137) = Ref.keccak256 (msg 137) := by decide +kernel
theorem agree_200 : Fast.keccak256 (msg 200) = Ref.keccak256 (msg 200) := by decide +kernel

/-- known answers (independent of both implementations): Keccak-256("") and Keccak-256("abc") -/
theorem kat_empty : keccak256 [] = 0xC5D2460186F7233C927E7DB2DCC703C0E500B653CA82273B7BFAD8045D85A470 := by
  decide +kernel
theorem kat_abc : keccak256 (utf8 "abc") = 0x4E03657AEA45A94FC7D47BA826C8D667C0D1E6E33A64A036EC44F58FA12D6C45 := by
  decide +kernel

/-- F3 agreement, partial (see the header): the vectors above -/
theorem keccak_agree_partial :
    ∀ m ∈ [[], [0xFF], msg 135, msg 136, msg 137, msg 200], Fast.keccak256 m = Ref.keccak256 m := by
  intro m hm
  simp only [List.mem_cons, List.not_mem_nil, or_false] at hm
  rcases hm with h | h | h | h | h | h <;> subst h
  · exact agree_0
  · exact agree_1
  · exact agree_135
  · exact agree_136
  · exact agree_137
  · exact agree_200

end HalmosVerif.Props.KeccakAgree
