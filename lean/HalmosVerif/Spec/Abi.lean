/-
Spec.Abi — the Solidity contract ABI encoding, written from the public specification
(https://docs.soliditylang.org/en/latest/abi-spec.html, "Formal Specification of the Encoding"),
with no reference to halmos.

* `Ty`   — ABI type trees: `uint<M>`, `int<M>`, `address`, `bool`, `bytes<M>`, `bytes`, `string`, `T[]`, `T[k]`,
           tuples `(T1,…,Tn)`.
* `Val`  — values; `wt t v` says that `v` is a value of type `t`.
* `isDyn`, `headSize` — "dynamic type" and the size of the head part of a component.
* `enc t v` — the encoding function of the specification:
    `enc(X) = head(X(1)) … head(X(k)) tail(X(1)) … tail(X(k))` for tuples, `enc(k) enc((X[0],…,X[k-1]))` for `T[]`,
    `enc(len) pad_right(X)` for `bytes`/`string`, left/right padded 32-byte words for the elementary types.
* `dec t buf` — an offset-following decoder from a flat byte list (structurally recursive on the type, no fuel):
    static components are read in place, dynamic components are read at `base + offset` where the offset is the
    word found in the head.  It accepts every encoding in which the offsets point at the components — in
    particular the canonical `enc`, but also non-canonical layouts (gaps, garbage after a `bytes` payload) — which
    is what "valid ABI encoding" means for a consumer (this is how the decoders of solc/ethers/alloy read calldata
    in non-strict mode).  Elementary values are range-checked (`uint8` word ≥ 256 is rejected, `bool` must be 0/1).

`dec t (enc t v) = some v` is proved in `Lemmas/Abi.lean` (`dec_enc`).
-/
namespace HalmosVerif.Spec.Abi

abbrev Bytes := List UInt8

inductive Ty where
  | uint (n : Nat)
  | int (n : Nat)
  | address
  | bool
  | bytesN (n : Nat)
  | bytes
  | string
  | darr (t : Ty)
  | farr (t : Ty) (k : Nat)
  | tuple (ts : List Ty)
  deriving Repr, Inhabited

inductive Val where
  | uint (x : Nat)
  | int (x : Int)
  | addr (x : Nat)
  | bool (b : Bool)
  | fbytes (bs : Bytes)      -- bytes<M>
  | bytes (bs : Bytes)
  | str (bs : Bytes)         -- the UTF-8 bytes of a string
  | list (vs : List Val)     -- T[], T[k] and tuples
  deriving Repr, Inhabited

/-! ### types -/

mutual
/-- the widths allowed by the specification: `0 < M ≤ 256, M % 8 = 0` for integers, `0 < M ≤ 32` for `bytes<M>` -/
def Ty.valid : Ty → Bool
  | .uint n => 0 < n && n ≤ 256 && n % 8 == 0
  | .int n => 0 < n && n ≤ 256 && n % 8 == 0
  | .bytesN n => 0 < n && n ≤ 32
  | .address | .bool | .bytes | .string => true
  | .darr t => t.valid
  | .farr t _ => t.valid
  | .tuple ts => validList ts
def validList : List Ty → Bool
  | [] => true
  | t :: ts => t.valid && validList ts
end

mutual
/-- "dynamic" types: `bytes`, `string`, `T[]`, `T[k]` for dynamic `T` (any `k ≥ 0`), tuples with a dynamic component -/
def isDyn : Ty → Bool
  | .bytes | .string => true
  | .darr _ => true
  | .farr t _ => isDyn t
  | .tuple ts => anyDyn ts
  | _ => false
def anyDyn : List Ty → Bool
  | [] => false
  | t :: ts => isDyn t || anyDyn ts
end

mutual
/-- number of bytes a component of this type occupies in the head of the enclosing tuple -/
def headSize : Ty → Nat
  | .darr _ | .bytes | .string => 32
  | .farr t k => if isDyn t then 32 else k * headSize t
  | .tuple ts => if anyDyn ts then 32 else sumHead ts
  | _ => 32
def sumHead : List Ty → Nat
  | [] => 0
  | t :: ts => headSize t + sumHead ts
end

/-! ### values -/

def intMin (n : Nat) : Int := -((2 ^ (n - 1) : Nat) : Int)
def intMax (n : Nat) : Int := ((2 ^ (n - 1) : Nat) : Int)

mutual
/-- `wt t v`: `v` is a value of type `t` -/
def wt : Ty → Val → Bool
  | .uint n, .uint x => x < 2 ^ n
  | .int n, .int x => intMin n ≤ x && x < intMax n
  | .address, .addr x => x < 2 ^ 160
  | .bool, .bool _ => true
  | .bytesN n, .fbytes bs => bs.length == n
  | .bytes, .bytes _ => true
  | .string, .str _ => true
  | .darr t, .list vs => vs.length < 2 ^ 256 && vs.all (fun v => wt t v)   -- the length is encoded as a uint256
  | .farr t k, .list vs => vs.length == k && vs.all (fun v => wt t v)
  | .tuple ts, .list vs => wtList ts vs
  | _, _ => false
def wtList : List Ty → List Val → Bool
  | [], [] => true
  | t :: ts, v :: vs => wt t v && wtList ts vs
  | _, _ => false
end

/-! ### bytes and words -/

/-- big-endian, exactly `n` bytes (the low `8n` bits of `x`) -/
def toBE : Nat → Nat → Bytes
  | 0, _ => []
  | n + 1, x => UInt8.ofNat (x / 256 ^ n % 256) :: toBE n x

def fromBE (bs : Bytes) : Nat := bs.foldl (fun a b => a * 256 + b.toNat) 0

def zeros (n : Nat) : Bytes := List.replicate n 0

/-- `enc` of an unsigned word -/
def word (x : Nat) : Bytes := toBE 32 x

/-- round up to a multiple of 32 -/
def pad32 (n : Nat) : Nat := (n + 31) / 32 * 32

/-- two's complement of a signed value as a 256-bit word -/
def ofInt256 (i : Int) : Nat := (i % ((2 ^ 256 : Nat) : Int)).toNat

/-- signed reading of a 256-bit word -/
def toInt256 (w : Nat) : Int := if w < 2 ^ 255 then (w : Int) else (w : Int) - ((2 ^ 256 : Nat) : Int)

def slice (buf : Bytes) (p n : Nat) : Bytes := (buf.drop p).take n

/-- the 32-byte word at byte position `p`, `none` when it does not lie inside the buffer -/
def readWord (buf : Bytes) (p : Nat) : Option Nat :=
  if p + 32 ≤ buf.length then some (fromBE (slice buf p 32)) else none

/-! ### the encoding function of the specification -/

/-- Layout of a sequence of already encoded components `(dynamic?, enc(X(i)))`:
`tot` is the length of `head(X(1)) … head(X(k)) tail(X(1)) … tail(X(i-1))`; returns (heads, tails). -/
def layoutGo : List (Bool × Bytes) → Nat → Bytes × Bytes
  | [], _ => ([], [])
  | (false, b) :: r, tot => let ht := layoutGo r tot; (b ++ ht.1, ht.2)
  | (true, b) :: r, tot => let ht := layoutGo r (tot + b.length); (word tot ++ ht.1, b ++ ht.2)

def headTotal : List (Bool × Bytes) → Nat
  | [] => 0
  | (false, b) :: r => b.length + headTotal r
  | (true, _) :: r => 32 + headTotal r

/-- `enc((X(1),…,X(k)))` from the encodings of the components -/
def encSeq (xs : List (Bool × Bytes)) : Bytes :=
  let ht := layoutGo xs (headTotal xs)
  ht.1 ++ ht.2

mutual
/-- the ABI encoding of `v` at type `t` (empty on ill-typed input; all statements are under `wt t v`) -/
def enc : Ty → Val → Bytes
  | .uint _, .uint x => word x
  | .int _, .int x => word (ofInt256 x)
  | .address, .addr x => word x
  | .bool, .bool b => word (if b then 1 else 0)
  | .bytesN _, .fbytes bs => bs ++ zeros (32 - bs.length)
  | .bytes, .bytes bs => word bs.length ++ bs ++ zeros (pad32 bs.length - bs.length)
  | .string, .str bs => word bs.length ++ bs ++ zeros (pad32 bs.length - bs.length)
  | .darr t, .list vs => word vs.length ++ encSeq (vs.map (fun v => (isDyn t, enc t v)))
  | .farr t _, .list vs => encSeq (vs.map (fun v => (isDyn t, enc t v)))
  | .tuple ts, .list vs => encSeq (encList ts vs)
  | _, _ => []
def encList : List Ty → List Val → List (Bool × Bytes)
  | t :: ts, v :: vs => (isDyn t, enc t v) :: encList ts vs
  | _, _ => []
end

/-! ### the decoder -/

/-- decoder of one component: is it dynamic, its head size, and the function reading it at an absolute position -/
structure Dec where
  dyn : Bool
  hs : Nat
  dec : Bytes → Nat → Option Val

/-- decode the components of a tuple whose encoding starts at `base`; `hp` is the position of the current head slot -/
def decSeq : List Dec → Bytes → Nat → Nat → Option (List Val)
  | [], _, _, _ => some []
  | d :: ds, buf, base, hp =>
    if d.dyn then
      match readWord buf hp with
      | none => none
      | some o =>
        match d.dec buf (base + o) with
        | none => none
        | some v =>
          match decSeq ds buf base (hp + 32) with
          | none => none
          | some vs => some (v :: vs)
    else
      match d.dec buf hp with
      | none => none
      | some v =>
        match decSeq ds buf base (hp + d.hs) with
        | none => none
        | some vs => some (v :: vs)

/-- `n` components with the same decoder (arrays); stops at the first failure, so a huge `n` read from a malformed
buffer fails as soon as the reads leave the buffer -/
def decRep (d : Dec) : Nat → Bytes → Nat → Nat → Option (List Val)
  | 0, _, _, _ => some []
  | n + 1, buf, base, hp =>
    if d.dyn then
      match readWord buf hp with
      | none => none
      | some o =>
        match d.dec buf (base + o) with
        | none => none
        | some v =>
          match decRep d n buf base (hp + 32) with
          | none => none
          | some vs => some (v :: vs)
    else
      match d.dec buf hp with
      | none => none
      | some v =>
        match decRep d n buf base (hp + d.hs) with
        | none => none
        | some vs => some (v :: vs)

def decBytes (mk : Bytes → Val) (buf : Bytes) (p : Nat) : Option Val :=
  match readWord buf p with
  | none => none
  | some n => if p + 32 + n ≤ buf.length then some (mk (slice buf (p + 32) n)) else none

mutual
/-- decode a value of type `t` whose encoding starts at byte `p` of `buf` -/
def decAt : Ty → Bytes → Nat → Option Val
  | .uint n, buf, p =>
    match readWord buf p with
    | none => none
    | some w => if w < 2 ^ n then some (.uint w) else none
  | .int n, buf, p =>
    match readWord buf p with
    | none => none
    | some w => let i := toInt256 w; if intMin n ≤ i ∧ i < intMax n then some (.int i) else none
  | .address, buf, p =>
    match readWord buf p with
    | none => none
    | some w => if w < 2 ^ 160 then some (.addr w) else none
  | .bool, buf, p =>
    match readWord buf p with
    | none => none
    | some w => if w = 0 then some (.bool false) else if w = 1 then some (.bool true) else none
  | .bytesN n, buf, p => if p + 32 ≤ buf.length then some (.fbytes (slice buf p n)) else none
  | .bytes, buf, p => decBytes .bytes buf p
  | .string, buf, p => decBytes .str buf p
  | .darr t, buf, p =>
    match readWord buf p with
    | none => none
    | some n => (decRep ⟨isDyn t, headSize t, decAt t⟩ n buf (p + 32) (p + 32)).map .list
  | .farr t k, buf, p => (decRep ⟨isDyn t, headSize t, decAt t⟩ k buf p p).map .list
  | .tuple ts, buf, p => (decSeq (decs ts) buf p p).map .list
def decs : List Ty → List Dec
  | [] => []
  | t :: ts => ⟨isDyn t, headSize t, decAt t⟩ :: decs ts
end

/-- decode a whole buffer -/
def dec (t : Ty) (buf : Bytes) : Option Val := decAt t buf 0

/-- the decoder record of a type -/
def decOf (t : Ty) : Dec := ⟨isDyn t, headSize t, decAt t⟩

end HalmosVerif.Spec.Abi
