/-
Spec.Bytes — a flat, zero-extended byte array (EVM memory / calldata / returndata / code as the Yellow
Paper describes them: a byte array that reads as zero beyond its end and whose size is the highest offset
written). No reference to halmos.

Bytes are *symbols*: either a literal `lit b` (0 ≤ b < 256) or byte number `idx` (0 = most significant,
big-endian, as in EVM memory) of a named symbolic bit-vector `name`: `sym name idx`. A symbolic value of
`n` bytes called `x` therefore contributes the bytes `x[0] … x[n-1]`, and a sub-range of it is identified
by (name, byte offset). Under a valuation `ρ : name → bytes`, `Byte.eval ρ` gives the concrete byte; two
flat arrays that are equal as symbol lists are equal under every valuation.

Core Lean only.
-/
namespace HalmosVerif.Spec

inductive Byte where
  | lit (b : Nat)
  | sym (name : String) (idx : Nat)
  deriving DecidableEq, Repr, Inhabited

namespace Byte
def zero : Byte := .lit 0

/-- value of a byte under a valuation of the symbolic names (each name ↦ its big-endian bytes) -/
def eval (ρ : String → List Nat) : Byte → Nat
  | .lit b => b
  | .sym x i => (ρ x).getD i 0

/-- substitute concrete bytes for some names (`concretize`) -/
def subst (σ : String → Option (List Nat)) : Byte → Byte
  | .lit b => .lit b
  | .sym x i => match σ x with
    | some bs => .lit (bs.getD i 0)
    | none => .sym x i
end Byte

/-- a flat byte array -/
abbrev Flat := List Byte

namespace Flat

def zeros (n : Nat) : List Byte := List.replicate n Byte.zero

/-- the byte at offset `i`; zero beyond the end -/
def get (f : Flat) (i : Nat) : Byte := f.getD i Byte.zero

/-- the bytes at offsets `[s, e)`, zero-extended beyond the end (`e ≤ s` gives the empty list) -/
def read (f : Flat) (s e : Nat) : List Byte := (List.range (e - s)).map fun i => f.get (s + i)

/-- write `data` at offset `start`: bytes between the old end and `start` become zero, the size
    becomes `max size (start + |data|)`; writing the empty list changes nothing (no expansion) -/
def write (f : Flat) (start : Nat) (data : List Byte) : Flat :=
  if data = [] then f
  else
    let g := f ++ zeros (start - f.length)
    g.take start ++ data ++ g.drop (start + data.length)

/-- append at the end -/
def append (f : Flat) (data : List Byte) : Flat := f ++ data

/-- the 32 bytes of the word at offset `off` (zero-extended) -/
def word (f : Flat) (off : Nat) : List Byte := f.read off (off + 32)

def subst (σ : String → Option (List Nat)) (f : Flat) : Flat := f.map (Byte.subst σ)

def eval (ρ : String → List Nat) (f : Flat) : List Nat := f.map (Byte.eval ρ)

end Flat

/-! ### Data pieces and the operation language of histories

A *piece* of data is a concrete byte string or a named symbolic value, restricted to a sub-range
`[start, start+len)` of its bytes. Histories are lists of operations on a pool of named byte sequences
(all initially empty). -/

inductive Piece where
  | conc (data : List Nat) (start len : Nat)
  | symb (name : String) (size : Nat) (start len : Nat)
  deriving DecidableEq, Repr, Inhabited

namespace Piece
def len : Piece → Nat
  | conc _ _ l => l
  | symb _ _ _ l => l

def byteAt : Piece → Nat → Byte
  | conc d s _, i => .lit (d.getD (s + i) 0)
  | symb x _ s _, i => .sym x (s + i)

def bytes (p : Piece) : List Byte := (List.range p.len).map p.byteAt
end Piece

inductive Err where
  | valueError | indexError | assertion | typeError | unsupported
  deriving DecidableEq, Repr, Inhabited

inductive Data where
  | raw (p : Piece)                       -- bytes / a bit-vector / a single chunk
  | vec (ps : List Piece)                 -- a freshly built sequence of pieces
  | obj (b : String)                      -- the whole pool object `b`
  | objSlice (b : String) (s e : Nat)     -- `b[s:e]` (zero-extended read)
  deriving DecidableEq, Repr, Inhabited

inductive Op where
  | new (a : String)
  | append (a : String) (d : Data)
  | setByte (a : String) (off : Nat) (p : Piece)
  | setSlice (a : String) (s e : Nat) (d : Data)
  | setWord (a : String) (off : Nat) (p : Piece)
  | copy (a b : String)                                   -- b := copy of a
  | slice (a : String) (s e : Nat) (b : String)           -- b := a[s:e]; replies the bytes
  | concretize (a : String) (σ : List (String × List Nat)) (b : String)  -- b := a with names replaced
  | getByte (a : String) (off : Nat)
  | getWord (a : String) (off : Nat)
  | unwrap (a : String)
  | len (a : String)
  deriving DecidableEq, Repr, Inhabited

inductive Reply where
  | unit
  | bytes (bs : List Byte)
  | num (n : Nat)
  | err (e : Err)
  deriving DecidableEq, Repr, Inhabited

/-- does the operation use its own target as a whole-object data source? (excluded: the API contract of
    `append`/`set_slice` with the receiver itself as value is undefined — see Props.C07) -/
def Op.selfData : Op → Bool
  | .append a (.obj b) => a == b
  | .setSlice a _ _ (.obj b) => a == b
  | _ => false

/-- the object an operation writes (re-binds or mutates), if any -/
def Op.target : Op → Option String
  | .new a => some a
  | .append a _ => some a
  | .setByte a _ _ => some a
  | .setSlice a _ _ _ => some a
  | .setWord a _ _ => some a
  | .copy _ b => some b
  | .slice _ _ _ b => some b
  | .concretize _ _ b => some b
  | _ => none

namespace FlatPool
/-- pool of flat arrays; every name is initially the empty array -/
abbrev Pool := String → Flat

def init : Pool := fun _ => []
def set (p : Pool) (a : String) (f : Flat) : Pool := fun x => if x = a then f else p x

def dataBytes (p : Pool) : Data → List Byte
  | .raw q => q.bytes
  | .vec qs => qs.flatMap Piece.bytes
  | .obj b => p b
  | .objSlice b s e => (p b).read s e

def substOf (σ : List (String × List Nat)) : String → Option (List Nat) := fun x => σ.lookup x

/-- one operation on the pool of flat arrays -/
def step (p : Pool) (op : Op) : Pool × Reply :=
  if op.selfData then (p, .err .unsupported) else
  match op with
  | .new a => (set p a [], .unit)
  | .append a d => (set p a ((p a).append (dataBytes p d)), .unit)
  | .setByte a off q =>
    if q.len ≠ 1 then (p, .err .assertion) else (set p a ((p a).write off q.bytes), .unit)
  | .setSlice a s e d =>
    if s = e then (p, .unit)
    else if s > e then (p, .err .valueError)
    else if e - s ≠ (dataBytes p d).length then (p, .err .valueError)
    else (set p a ((p a).write s (dataBytes p d)), .unit)
  | .setWord a off q =>
    if q.len ≠ 32 then (p, .err .valueError) else (set p a ((p a).write off q.bytes), .unit)
  | .copy a b => (set p b (p a), .unit)
  | .slice a s e b => (set p b ((p a).read s e), .bytes ((p a).read s e))
  | .concretize a σ b => (set p b ((p a).subst (substOf σ)), .unit)
  | .getByte a off => (p, .bytes [(p a).get off])
  | .getWord a off => (p, .bytes ((p a).word off))
  | .unwrap a => (p, .bytes (p a))
  | .len a => (p, .num (p a).length)

/-- run a history; the observation is the list of replies -/
def run : Pool → List Op → List Reply
  | _, [] => []
  | p, op :: rest => (step p op).2 :: run (step p op).1 rest

end FlatPool

end HalmosVerif.Spec
