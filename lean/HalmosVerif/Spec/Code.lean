/-
Spec.Code — how the EVM reads code, written from the Yellow Paper (§9.4 "Execution Overview":
the current operation `w`, §9.4.3 "Jump Destination Validity": `D(c)`, `D_J(c, i)`, `N(i, w)`; Appendix H:
PUSHn, CODECOPY, JUMP, JUMPI), with no reference to halmos.

Code is a list of bytes (`Nat`; nothing below depends on the bytes being < 256).

  w            = I_b[pc] if pc < ‖I_b‖, STOP otherwise                      → `byteAt`, `decode … .opcode`
  N(i, w)      = i + w − PUSH1 + 2 if w ∈ [PUSH1, PUSH32], i + 1 otherwise   → `decode … .nextPc`
  PUSHn        : the n bytes following, read as a big-endian number;
                 bytes beyond the end of the code read as 0                  → `decode … .operand`
  D_J(c, i)    = {} if i ≥ ‖c‖; {i} ∪ D_J(c, N(i, c[i])) if c[i] = JUMPDEST;
                 D_J(c, N(i, c[i])) otherwise                                → `validJumpdests`
  CODECOPY     : μ_m[…+i] = I_b[s+i] if s+i < ‖I_b‖, 0 otherwise            → `read`

All definitions are by structural recursion on the byte list (no fuel, no well-founded recursion).
-/
namespace HalmosVerif.Spec.Code

def STOP : Nat := 0x00
def JUMP : Nat := 0x56
def JUMPI : Nat := 0x57
def JUMPDEST : Nat := 0x5b
def PUSH1 : Nat := 0x60
def PUSH32 : Nat := 0x7f

/-- number of immediate bytes that follow opcode `w` (`N(i, w) = i + 1 + pushLen w`) -/
def pushLen (w : Nat) : Nat := if PUSH1 ≤ w ∧ w ≤ PUSH32 then w - PUSH1 + 1 else 0

/-- `I_b[i]`, `0` beyond the end -/
def byteAt (code : List Nat) (i : Nat) : Nat := code.getD i 0

/-- `size` bytes from `start`, zero beyond the end (CODECOPY, PUSH immediates) -/
def read (code : List Nat) (start size : Nat) : List Nat :=
  (List.range size).map (fun i => byteAt code (start + i))

/-- big-endian value of a byte string -/
def beVal (bs : List Nat) : Nat := bs.foldl (fun acc b => acc * 256 + b) 0

structure Insn where
  opcode : Nat
  /-- value of the immediate of a PUSH1..PUSH32 (right-padded with zero bytes when the code ends early) -/
  operand : Option Nat
  nextPc : Nat
  deriving DecidableEq, Repr

/-- the instruction at `pc` (STOP beyond the end of the code) -/
def decode (code : List Nat) (pc : Nat) : Insn :=
  let w := byteAt code pc
  let n := pushLen w
  { opcode := w
    operand := if n = 0 then none else some (beVal (read code (pc + 1) n))
    nextPc := pc + 1 + n }

/-- `D_J` as one left-to-right sweep: `pc` is the position of the head of the list, `skip` the number of
upcoming bytes that are PUSH data. -/
def jumpdestsFrom : List Nat → Nat → Nat → List Nat
  | [], _, _ => []
  | b :: rest, pc, 0 =>
    if b = JUMPDEST then pc :: jumpdestsFrom rest (pc + 1) 0
    else jumpdestsFrom rest (pc + 1) (pushLen b)
  | _ :: rest, pc, skip + 1 => jumpdestsFrom rest (pc + 1) skip

/-- `D(c)`: the valid jump destinations, in increasing order -/
def validJumpdests (code : List Nat) : List Nat := jumpdestsFrom code 0 0

/-- a JUMP/JUMPI to `dest` is accepted iff `dest ∈ D(c)` -/
def jumpAccepted (code : List Nat) (dest : Nat) : Bool := (validJumpdests code).contains dest

/-! ### Instruction boundaries (independent characterisation used to state "never into PUSH data") -/

/-- `Boundary c pc`: `pc` is reached from 0 by repeatedly applying `N`. -/
inductive Boundary (code : List Nat) : Nat → Prop
  | zero : Boundary code 0
  | next {pc : Nat} : Boundary code pc → pc < code.length → Boundary code (decode code pc).nextPc

/-- `d` lies strictly inside the immediate of a PUSH that starts at an instruction boundary -/
def InPushData (code : List Nat) (d : Nat) : Prop :=
  ∃ pc, Boundary code pc ∧ pc < code.length ∧ pc < d ∧ d < (decode code pc).nextPc

/-! ### Partially known code

`none` = a byte whose value is not known.  The sweep can be carried out exactly as far as the first
unknown byte *at an opcode position*; unknown bytes inside PUSH data do not matter. -/

def sweepFrom : List (Option Nat) → Nat → Nat → List Nat
  | [], _, _ => []
  | none :: _, _, 0 => []
  | some b :: rest, pc, 0 =>
    if b = JUMPDEST then pc :: sweepFrom rest (pc + 1) 0
    else sweepFrom rest (pc + 1) (pushLen b)
  | _ :: rest, pc, skip + 1 => sweepFrom rest (pc + 1) skip

/-- position of the first unknown opcode (or the position just past the sweep when there is none) -/
def stopFrom : List (Option Nat) → Nat → Nat → Nat
  | [], pc, skip => pc + skip
  | none :: _, pc, 0 => pc
  | some b :: rest, pc, 0 => if b = JUMPDEST then stopFrom rest (pc + 1) 0 else stopFrom rest (pc + 1) (pushLen b)
  | _ :: rest, pc, skip + 1 => stopFrom rest (pc + 1) skip

/-- does the sweep meet an unknown opcode? -/
def blockedFrom : List (Option Nat) → Nat → Bool
  | [], _ => false
  | none :: _, 0 => true
  | some b :: rest, 0 => if b = JUMPDEST then blockedFrom rest 0 else blockedFrom rest (pushLen b)
  | _ :: rest, skip + 1 => blockedFrom rest skip

def sweep (p : List (Option Nat)) : List Nat := sweepFrom p 0 0
def sweepStop (p : List (Option Nat)) : Nat := stopFrom p 0 0
def sweepBlocked (p : List (Option Nat)) : Bool := blockedFrom p 0

/-- `c` is a possible value of the partially known code `p` -/
def Matches : List (Option Nat) → List Nat → Prop
  | [], [] => True
  | o :: p, b :: c => (∀ x, o = some x → x = b) ∧ Matches p c
  | _, _ => False

/-! ### A reference executor for jump programs (Yellow Paper §9.4, Appendix H)

Only what is needed to say *where execution continues*: STOP, JUMPDEST, PUSH0..PUSH32, JUMP, JUMPI, PC, POP,
CALLVALUE, CALLDATALOAD(0) of a one-word calldata, AND, ADD, MSIZE, MSTORE (memory size only), INVALID.  Anything else halts as `unsupported`.
`J_JUMP`: `μ'_pc = μ_s[0]`, exceptional halt unless `μ_s[0] ∈ D(I_b)`; `J_JUMPI`: `μ'_pc = μ_s[0]` if `μ_s[1] ≠ 0`,
`μ_pc + 1` otherwise.  After a jump the JUMPDEST at the destination is executed like any instruction. -/

inductive HaltKind where
  | stop | invalidJump | underflow | invalidOpcode | unsupported | outOfFuel
  deriving DecidableEq, Repr

structure RunState where
  pc : Nat
  stack : List Nat          -- head = top
  msize : Nat
  trace : List Nat          -- executed pcs, most recent first
  deriving Repr

structure RunResult where
  halt : HaltKind
  st : RunState
  deriving Repr

def ceil32 (n : Nat) : Nat := ((n + 31) / 32) * 32

/-- what the program can read from its environment: `CALLVALUE`, and a calldata that is one 32-byte word -/
structure RunEnv where
  callvalue : Nat
  cdword : Nat := 0

/-- `fuel` bounds the number of executed instructions (the reference has no gas) -/
def run (code : List Nat) (env : RunEnv) : Nat → RunState → RunResult
  | 0, st => ⟨.outOfFuel, st⟩
  | fuel + 1, st =>
    let insn := decode code st.pc
    let w := insn.opcode
    let st1 : RunState := { st with trace := st.pc :: st.trace }
    let next (stack : List Nat) (msize : Nat := st.msize) : RunResult :=
      run code env fuel { st1 with pc := st.pc + 1, stack, msize }
    if w = STOP then ⟨.stop, st1⟩
    else if w = JUMPDEST then next st.stack
    else if w = 0x5f then next (0 :: st.stack)
    else if PUSH1 ≤ w ∧ w ≤ PUSH32 then
      run code env fuel { st1 with pc := insn.nextPc, stack := insn.operand.getD 0 :: st.stack }
    else if w = JUMP then
      match st.stack with
      | d :: rest =>
        if jumpAccepted code d then run code env fuel { st1 with pc := d, stack := rest }
        else ⟨.invalidJump, { st1 with stack := rest }⟩
      | _ => ⟨.underflow, st1⟩
    else if w = JUMPI then
      match st.stack with
      | d :: c :: rest =>
        if c ≠ 0 then
          if jumpAccepted code d then run code env fuel { st1 with pc := d, stack := rest }
          else ⟨.invalidJump, { st1 with stack := rest }⟩
        else next rest
      | _ => ⟨.underflow, st1⟩
    else if w = 0x58 then next (st.pc :: st.stack)
    else if w = 0x50 then
      match st.stack with
      | _ :: rest => next rest
      | _ => ⟨.underflow, st1⟩
    else if w = 0x34 then next (env.callvalue :: st.stack)
    else if w = 0x35 then            -- CALLDATALOAD: only offset 0 of the one-word calldata is modelled
      match st.stack with
      | 0 :: rest => next (env.cdword :: rest)
      | _ :: _ => ⟨.unsupported, st1⟩
      | _ => ⟨.underflow, st1⟩
    else if w = 0x16 then            -- AND
      match st.stack with
      | a :: b :: rest => next ((a &&& b) :: rest)
      | _ => ⟨.underflow, st1⟩
    else if w = 0x01 then            -- ADD
      match st.stack with
      | a :: b :: rest => next (((a + b) % 2 ^ 256) :: rest)
      | _ => ⟨.underflow, st1⟩
    else if w = 0x59 then next (st.msize :: st.stack)
    else if w = 0x52 then
      match st.stack with
      | off :: _ :: rest => next rest (max st.msize (ceil32 (off + 32)))
      | _ => ⟨.underflow, st1⟩
    else if w = 0xfe then ⟨.invalidOpcode, st1⟩
    else ⟨.unsupported, st1⟩

def runCode (code : List Nat) (callvalue fuel : Nat) (cdword : Nat := 0) : RunResult :=
  run code { callvalue, cdword } fuel { pc := 0, stack := [], msize := 0, trace := [] }

end HalmosVerif.Spec.Code
