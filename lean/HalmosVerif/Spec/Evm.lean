/-
Spec.Evm — a concrete, gas-free EVM interpreter written from the Yellow Paper / execution-specs
(Cancun instruction set, minus SELFDESTRUCT, blobs and precompiles), with no reference to halmos'
implementation. It is the meaning of "concrete EVM execution" in C01/C02/C03/C04/C09/C10/C13/C14/C15.

Documented modelling parameters (choices any gas-free symbolic engine must make; they are inputs of the
spec, not EVM behaviour): the address allocator for CREATE/CREATE2, the memory limit standing in for
out-of-gas on huge offsets, the oracles for GAS / GASPRICE / BLOCKHASH, Keccak-256 as a function
parameter (instantiated with Spec.Keccak by the driver).

Core Lean only.
-/
import HalmosVerif.Spec.Word
import HalmosVerif.Spec.WordFast

namespace HalmosVerif.Spec.Evm
open HalmosVerif.Spec

/-! ### finite maps as association lists (newest binding first) -/

def lookupD {α} [BEq α] (m : List (α × Nat)) (k : α) (d : Nat := 0) : Nat :=
  match m.find? (fun p => p.1 == k) with
  | some p => p.2
  | none => d

def insert {α} [BEq α] (m : List (α × Nat)) (k : α) (v : Nat) : List (α × Nat) :=
  (k, v) :: m.filter (fun p => !(p.1 == k))

/-! ### bytes -/

/-- read `n` bytes from offset `off`, zero beyond the end -/
def readBytes (m : List Nat) (off n : Nat) : List Nat :=
  (List.range n).map fun i => (m[off + i]?).getD 0

/-- write `data` at `off`, zero-filling any gap; length becomes `max len (off + data.length)` (unchanged for empty data) -/
def writeBytes (m : List Nat) (off : Nat) (data : List Nat) : List Nat :=
  if data.isEmpty then m
  else
    let m' := if m.length < off + data.length then m ++ List.replicate (off + data.length - m.length) 0 else m
    m'.take off ++ data ++ m'.drop (off + data.length)

def bytesToNat (bs : List Nat) : Nat := bs.foldl (fun acc b => acc * 256 + b % 256) 0

def natToBytes (len v : Nat) : List Nat :=
  (List.range len).map fun i => (v / 2 ^ (8 * (len - 1 - i))) % 256

def W : Nat := 2 ^ 256
def addrMask (a : Nat) : Nat := a % 2 ^ 160

/-! ### code -/

def isPush (op : Nat) : Bool := 0x60 ≤ op && op ≤ 0x7f
def pushLen (op : Nat) : Nat := if isPush op then op - 0x5f else 0

/-- positions of JUMPDEST bytes at instruction boundaries -/
def validJumpdestsFrom (code : List Nat) (pc fuel : Nat) (acc : List Nat) : List Nat :=
  match fuel with
  | 0 => acc
  | fuel + 1 =>
    match code[pc]? with
    | none => acc
    | some op =>
      let acc' := if op = 0x5b then pc :: acc else acc
      validJumpdestsFrom code (pc + 1 + pushLen op) fuel acc'

def validJumpdests (code : List Nat) : List Nat := validJumpdestsFrom code 0 (code.length + 1) []

/-! ### machine -/

inductive Halt where
  | success (data : List Nat)
  | revert (data : List Nat)
  | invalidOpcode | invalidJump | stackUnderflow | stackOverflow | outOfGas
  | outOfBoundsRead | writeInStatic | depthLimit | unsupported (op : Nat)
  deriving Repr, BEq, Inhabited

def Halt.isSuccess : Halt → Bool
  | .success _ => true
  | _ => false

/-- data the caller sees in its returndata buffer -/
def Halt.data : Halt → List Nat
  | .success d => d
  | .revert d => d
  | _ => []

structure World where
  code : List (Nat × List Nat)              -- accounts with code (address ↦ bytes); absent = no code
  storage : List ((Nat × Nat) × Nat)        -- (address, slot) ↦ value, default 0
  transient : List ((Nat × Nat) × Nat)
  balance : List (Nat × Nat)                -- address ↦ balance
  balanceDefault : Nat := 0                 -- balance of addresses not listed
  created : Nat := 0                        -- number of addresses handed out by the allocator
  logs : List (Nat × List Nat × List Nat) := []  -- (address, topics, data), oldest first
  deriving Inhabited

def World.codeOf (w : World) (a : Nat) : Option (List Nat) :=
  (w.code.find? (fun p => p.1 == a)).map (·.2)

def World.balanceOf (w : World) (a : Nat) : Nat := lookupD w.balance a w.balanceDefault

def World.setBalance (w : World) (a v : Nat) : World := { w with balance := insert w.balance a v }

def World.setCode (w : World) (a : Nat) (c : List Nat) : World :=
  { w with code := (a, c) :: w.code.filter (fun p => !(p.1 == a)) }

/-- move `v` wei (caller must have checked sufficiency); self-transfer is a no-op -/
def World.transfer (w : World) (src dst v : Nat) : World :=
  let w1 := w.setBalance src (w.balanceOf src - v)
  w1.setBalance dst ((w1.balanceOf dst + v) % W)

structure Params where
  origin : Nat
  number : Nat := 1
  timestamp : Nat := 1
  coinbase : Nat := 0
  difficulty : Nat := 0
  gaslimit : Nat := 2 ^ 63 - 1
  chainid : Nat := 31337
  basefee : Nat := 0
  memLimit : Nat := 2 ^ 20                  -- accesses beyond it are out-of-gas
  maxDepth : Nat := 1024
  newAddress : Nat → Nat := fun n => 0xaaaa0001 + n  -- allocator for CREATE (n = number created so far, counted from 1)
  create2Address : Nat → Nat → List Nat → Nat := fun _ _ _ => 0  -- (sender, salt, initcode) ↦ address
  gas : Nat → Nat := fun _ => 0             -- value of the n-th GAS instruction
  gasprice : Nat := 0
  blockhash : Nat → Nat := fun _ => 0
  keccak : List Nat → Nat := fun _ => 0

structure Frame where
  this : Nat
  caller : Nat
  value : Nat
  calldata : List Nat
  code : List Nat
  codeAddr : Nat := 0
  isStatic : Bool := false
  depth : Nat := 0
  pc : Nat := 0
  stack : List Nat := []                    -- top first
  mem : List Nat := []
  msize : Nat := 0                          -- active memory in bytes (multiple of 32), incl. reads
  returndata : List Nat := []
  gasCount : Nat := 0
  deriving Inhabited

def ceil32 (n : Nat) : Nat := ((n + 31) / 32) * 32

def Frame.touch (f : Frame) (off n : Nat) : Frame :=
  if n = 0 then f else { f with msize := max f.msize (ceil32 (off + n)) }

/-- result of a single step -/
inductive Step where
  | next (w : World) (f : Frame)
  | halt (w : World) (h : Halt)
  | call (kind : Nat) (w : World) (f : Frame) (to value argOff argLen retOff retLen : Nat)  -- f: caller with args popped
  | create (kind : Nat) (w : World) (f : Frame) (value off len salt : Nat)

def push (f : Frame) (v : Nat) : Frame := { f with stack := (v % W) :: f.stack, pc := f.pc + 1 }

/-- apply a pure n-ary word function -/
def op1 (w : World) (f : Frame) (g : Nat → Nat) : Step :=
  match f.stack with
  | a :: s => .next w { f with stack := g a % W :: s, pc := f.pc + 1 }
  | _ => .halt w .stackUnderflow

def op2 (w : World) (f : Frame) (g : Nat → Nat → Nat) : Step :=
  match f.stack with
  | a :: b :: s => .next w { f with stack := g a b % W :: s, pc := f.pc + 1 }
  | _ => .halt w .stackUnderflow

def op3 (w : World) (f : Frame) (g : Nat → Nat → Nat → Nat) : Step :=
  match f.stack with
  | a :: b :: c :: s => .next w { f with stack := g a b c % W :: s, pc := f.pc + 1 }
  | _ => .halt w .stackUnderflow

def memOk (p : Params) (off n : Nat) : Bool := n = 0 || off + n ≤ p.memLimit

/-- copy `len` bytes of `src` (from `srcOff`, zero-padded) into memory at `dst` -/
def copyToMem (p : Params) (w : World) (f : Frame) (s : List Nat) (src : List Nat) (dst srcOff len : Nat) : Step :=
  if !memOk p dst len then .halt w .outOfGas
  else
    let f := f.touch dst len
    .next w { f with stack := s, mem := writeBytes f.mem dst (readBytes src srcOff len), pc := f.pc + 1 }

def step (p : Params) (w : World) (f : Frame) : Step :=
  let op := (f.code[f.pc]?).getD 0x00
  if f.stack.length > 1024 then .halt w .stackOverflow else
  match op with
  | 0x00 => .halt w (.success [])
  | 0x01 => op2 w f Word.add | 0x02 => op2 w f Word.mul | 0x03 => op2 w f Word.sub
  | 0x04 => op2 w f Word.div | 0x05 => op2 w f Word.sdiv | 0x06 => op2 w f Word.mod
  | 0x07 => op2 w f Word.smod | 0x08 => op3 w f Word.addmod | 0x09 => op3 w f Word.mulmod
  | 0x0a => op2 w f Word.exp | 0x0b => op2 w f Word.signextend
  | 0x10 => op2 w f Word.lt | 0x11 => op2 w f Word.gt | 0x12 => op2 w f Word.slt
  | 0x13 => op2 w f Word.sgt | 0x14 => op2 w f Word.eq | 0x15 => op1 w f Word.iszero
  | 0x16 => op2 w f Word.and | 0x17 => op2 w f Word.or | 0x18 => op2 w f Word.xor
  | 0x19 => op1 w f Word.not | 0x1a => op2 w f Word.byte | 0x1b => op2 w f Word.shl
  | 0x1c => op2 w f Word.shr | 0x1d => op2 w f Word.sar
  | 0x20 => -- SHA3
    match f.stack with
    | off :: len :: s =>
      if !memOk p off len then .halt w .outOfGas
      else
        let f := f.touch off len
        .next w { f with stack := p.keccak (readBytes f.mem off len) % W :: s, pc := f.pc + 1 }
    | _ => .halt w .stackUnderflow
  | 0x30 => .next w (push f f.this)
  | 0x31 => op1 w f fun a => w.balanceOf (addrMask a)
  | 0x32 => .next w (push f p.origin)
  | 0x33 => .next w (push f f.caller)
  | 0x34 => .next w (push f f.value)
  | 0x35 => op1 w f fun off => bytesToNat (readBytes f.calldata off 32)
  | 0x36 => .next w (push f f.calldata.length)
  | 0x37 => match f.stack with
    | dst :: src :: len :: s => copyToMem p w f s f.calldata dst src len
    | _ => .halt w .stackUnderflow
  | 0x38 => .next w (push f f.code.length)
  | 0x39 => match f.stack with
    | dst :: src :: len :: s => copyToMem p w f s f.code dst src len
    | _ => .halt w .stackUnderflow
  | 0x3a => .next w (push f p.gasprice)
  | 0x3b => op1 w f fun a => ((w.codeOf (addrMask a)).getD []).length
  | 0x3c => match f.stack with
    | a :: dst :: src :: len :: s => copyToMem p w f s ((w.codeOf (addrMask a)).getD []) dst src len
    | _ => .halt w .stackUnderflow
  | 0x3d => .next w (push f f.returndata.length)
  | 0x3e => match f.stack with
    | dst :: src :: len :: s =>
      if src + len > f.returndata.length then .halt w .outOfBoundsRead
      else copyToMem p w f s f.returndata dst src len
    | _ => .halt w .stackUnderflow
  | 0x3f => op1 w f fun a =>
      match w.codeOf (addrMask a) with
      | some c => p.keccak c
      | none => 0
  | 0x40 => op1 w f p.blockhash
  | 0x41 => .next w (push f p.coinbase)
  | 0x42 => .next w (push f p.timestamp)
  | 0x43 => .next w (push f p.number)
  | 0x44 => .next w (push f p.difficulty)
  | 0x45 => .next w (push f p.gaslimit)
  | 0x46 => .next w (push f p.chainid)
  | 0x47 => .next w (push f (w.balanceOf f.this))
  | 0x48 => .next w (push f p.basefee)
  | 0x50 => match f.stack with
    | _ :: s => .next w { f with stack := s, pc := f.pc + 1 }
    | _ => .halt w .stackUnderflow
  | 0x51 => match f.stack with
    | off :: s =>
      if !memOk p off 32 then .halt w .outOfGas
      else
        let f := f.touch off 32
        .next w { f with stack := bytesToNat (readBytes f.mem off 32) :: s, pc := f.pc + 1 }
    | _ => .halt w .stackUnderflow
  | 0x52 => match f.stack with
    | off :: v :: s =>
      if !memOk p off 32 then .halt w .outOfGas
      else
        let f := f.touch off 32
        .next w { f with stack := s, mem := writeBytes f.mem off (natToBytes 32 v), pc := f.pc + 1 }
    | _ => .halt w .stackUnderflow
  | 0x53 => match f.stack with
    | off :: v :: s =>
      if !memOk p off 1 then .halt w .outOfGas
      else
        let f := f.touch off 1
        .next w { f with stack := s, mem := writeBytes f.mem off [v % 256], pc := f.pc + 1 }
    | _ => .halt w .stackUnderflow
  | 0x54 => op1 w f fun slot => lookupD w.storage (f.this, slot)
  | 0x55 => match f.stack with
    | slot :: v :: s =>
      if f.isStatic then .halt w .writeInStatic
      else .next { w with storage := insert w.storage (f.this, slot) v } { f with stack := s, pc := f.pc + 1 }
    | _ => .halt w .stackUnderflow
  | 0x56 => match f.stack with
    | dst :: s =>
      if (validJumpdests f.code).contains dst then .next w { f with stack := s, pc := dst }
      else .halt w .invalidJump
    | _ => .halt w .stackUnderflow
  | 0x57 => match f.stack with
    | dst :: c :: s =>
      if c = 0 then .next w { f with stack := s, pc := f.pc + 1 }
      else if (validJumpdests f.code).contains dst then .next w { f with stack := s, pc := dst }
      else .halt w .invalidJump
    | _ => .halt w .stackUnderflow
  | 0x58 => .next w (push f f.pc)
  | 0x59 => .next w (push f f.msize)
  | 0x5a => .next w { push f (p.gas (f.gasCount + 1)) with gasCount := f.gasCount + 1 }
  | 0x5b => .next w { f with pc := f.pc + 1 }
  | 0x5c => op1 w f fun slot => lookupD w.transient (f.this, slot)
  | 0x5d => match f.stack with
    | slot :: v :: s =>
      if f.isStatic then .halt w .writeInStatic
      else .next { w with transient := insert w.transient (f.this, slot) v } { f with stack := s, pc := f.pc + 1 }
    | _ => .halt w .stackUnderflow
  | 0x5e => match f.stack with  -- MCOPY
    | dst :: src :: len :: s =>
      if !memOk p src len || !memOk p dst len then .halt w .outOfGas
      else
        let f := (f.touch src len).touch dst len
        .next w { f with stack := s, mem := writeBytes f.mem dst (readBytes f.mem src len), pc := f.pc + 1 }
    | _ => .halt w .stackUnderflow
  | 0x5f => .next w (push f 0)
  | 0xf3 | 0xfd => match f.stack with
    | off :: len :: _ =>
      if !memOk p off len then .halt w .outOfGas
      else
        let d := readBytes f.mem off len
        .halt w (if op = 0xf3 then .success d else .revert d)
    | _ => .halt w .stackUnderflow
  | 0xfe => .halt w .invalidOpcode
  | 0xf0 => match f.stack with
    | v :: off :: len :: s => if f.isStatic then .halt w .writeInStatic else .create 0xf0 w { f with stack := s } v off len 0
    | _ => .halt w .stackUnderflow
  | 0xf5 => match f.stack with
    | v :: off :: len :: salt :: s => if f.isStatic then .halt w .writeInStatic else .create 0xf5 w { f with stack := s } v off len salt
    | _ => .halt w .stackUnderflow
  | 0xf1 | 0xf2 => match f.stack with
    | _ :: to :: v :: ao :: al :: ro :: rl :: s => .call op w { f with stack := s } (addrMask to) v ao al ro rl
    | _ => .halt w .stackUnderflow
  | 0xf4 | 0xfa => match f.stack with
    | _ :: to :: ao :: al :: ro :: rl :: s => .call op w { f with stack := s } (addrMask to) 0 ao al ro rl
    | _ => .halt w .stackUnderflow
  | _ =>
    if isPush op then
      let n := pushLen op
      .next w { f with stack := bytesToNat (readBytes f.code (f.pc + 1) n) :: f.stack, pc := f.pc + 1 + n }
    else if 0x80 ≤ op && op ≤ 0x8f then
      match f.stack[op - 0x80]? with
      | some v => .next w { f with stack := v :: f.stack, pc := f.pc + 1 }
      | none => .halt w .stackUnderflow
    else if 0x90 ≤ op && op ≤ 0x9f then
      let n := op - 0x8f
      match f.stack, f.stack[n]? with
      | a :: _, some b => .next w { f with stack := (f.stack.set 0 b).set n a, pc := f.pc + 1 }
      | _, _ => .halt w .stackUnderflow
    else if 0xa0 ≤ op && op ≤ 0xa4 then
      let n := op - 0xa0
      match f.stack with
      | off :: len :: s =>
        if s.length < n then .halt w .stackUnderflow
        else if f.isStatic then .halt w .writeInStatic
        else if !memOk p off len then .halt w .outOfGas
        else
          let f := f.touch off len
          .next { w with logs := w.logs ++ [(f.this, s.take n, readBytes f.mem off len)] }
            { f with stack := s.drop n, pc := f.pc + 1 }
      | _ => .halt w .stackUnderflow
    else .halt w (.unsupported op)

/-- Run a frame to completion. On a failing halt the world is the one *at the halt*; the caller rolls back. -/
def exec (p : Params) : Nat → World → Frame → Option (World × Halt)
  | 0, _, _ => none
  | fuel + 1, w, f =>
    match step p w f with
    | .next w' f' => exec p fuel w' f'
    | .halt w' h => some (w', h)
    | .call kind w f to value ao al ro rl =>
      if !memOk p ao al || !memOk p ro rl then some (w, .outOfGas) else
      let f := (f.touch ao al).touch ro rl
      let args := readBytes f.mem ao al
      -- value-bearing CALL inside a static frame is a state modification
      if kind = 0xf1 && f.isStatic && value ≠ 0 then some (w, .writeInStatic) else
      let fail (w : World) (f : Frame) : Option (World × Halt) :=
        exec p fuel w { f with stack := 0 :: f.stack, returndata := [], pc := f.pc + 1 }
      let transfers := (kind = 0xf1 || kind = 0xf2) && value ≠ 0
      if transfers && w.balanceOf f.this < value then fail w f
      else if f.depth + 1 > p.maxDepth then fail w f
      else
        let w1 := if kind = 0xf1 && value ≠ 0 then w.transfer f.this to value else w
        let callee : Frame := {
          this := if kind = 0xf1 || kind = 0xfa then to else f.this
          caller := if kind = 0xf4 then f.caller else f.this
          value := if kind = 0xf4 then f.value else value
          calldata := args
          code := (w.codeOf to).getD []
          codeAddr := to
          isStatic := f.isStatic || kind = 0xfa
          depth := f.depth + 1 }
        match exec p fuel w1 callee with
        | none => none
        | some (w2, h) =>
          let wAfter := if h.isSuccess then w2
            else { w with logs := w.logs, created := w2.created }  -- roll back; the allocator counter is not EVM state
          let out := h.data
          let f' := { f with
            stack := (if h.isSuccess then 1 else 0) :: f.stack
            mem := writeBytes f.mem ro (out.take (min rl out.length))
            returndata := out
            pc := f.pc + 1 }
          exec p fuel wAfter f'
    | .create kind w f value off len salt =>
      if !memOk p off len then some (w, .outOfGas) else
      let f := f.touch off len
      let init := readBytes f.mem off len
      let fail (w : World) (f : Frame) (rd : List Nat) : Option (World × Halt) :=
        exec p fuel w { f with stack := 0 :: f.stack, returndata := rd, pc := f.pc + 1 }
      -- the allocator hands out one address per CREATE attempt (a modelling parameter: real addresses come from the
      -- sender's nonce; which fresh address is used is unobservable up to renaming)
      let n := w.created + 1
      let addr := if kind = 0xf0 then p.newAddress n else p.create2Address f.this salt init
      let w0 := if kind = 0xf0 then { w with created := n } else w
      if w.balanceOf f.this < value then fail w0 f []
      else if f.depth + 1 > p.maxDepth then fail w0 f []
      else
        if (w0.codeOf addr).isSome then fail w0 f []
        else
          let w1 := (w0.setCode addr []).transfer f.this addr value
          let w1 := { w1 with storage := w1.storage.filter (fun e => e.1.1 != addr),
                              transient := w1.transient.filter (fun e => e.1.1 != addr) }
          let callee : Frame := {
            this := addr, caller := f.this, value := value, calldata := [], code := init,
            codeAddr := addr, depth := f.depth + 1 }
          match exec p fuel w1 callee with
          | none => none
          | some (w2, h) =>
            match h with
            | .success code =>
              exec p fuel (w2.setCode addr code) { f with stack := addr :: f.stack, returndata := [], pc := f.pc + 1 }
            | _ => fail { w0 with created := w2.created } f h.data

/-- a top-level message call (one transaction body): value transfer, then the code; failure rolls the world back -/
def runMessage (p : Params) (fuel : Nat) (w : World) (sender to value : Nat) (data : List Nat) :
    Option (World × Halt) :=
  if w.balanceOf sender < value then some (w, .outOfGas)   -- not a valid transaction; callers avoid it
  else
    let w1 := if value ≠ 0 then w.transfer sender to value else w
    let f : Frame := { this := to, caller := sender, value := value, calldata := data,
                       code := (w.codeOf to).getD [], codeAddr := to }
    match exec p fuel w1 f with
    | none => none
    | some (w2, h) => if h.isSuccess then some (w2, h) else some ({ w with created := w2.created }, h)

end HalmosVerif.Spec.Evm
