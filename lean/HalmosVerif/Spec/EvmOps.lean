/-
Which opcode bytes are *assigned* in the Cancun instruction set.

`Spec.Evm.step` halts with `.unsupported op` on every byte it does not implement.  That conflates two different things:
* a byte that is **not an instruction** of the EVM (e.g. 0x0c, 0x21, 0xb0): the EVM halts exceptionally (invalid opcode);
* an instruction that **exists but is outside this reference model** (SELFDESTRUCT, BLOBHASH, BLOBBASEFEE): the reference
  has no opinion on what happens next, and a tool that explores such a program must say that its exploration is incomplete.
`Halt.cancun` separates the two; the drivers print halts through it.
-/
import HalmosVerif.Spec.Evm

namespace HalmosVerif.Spec.Evm

/-- Opcode bytes assigned by the Cancun fork (Yellow Paper appendix H + EIP-1153, 4844, 5656, 7516). -/
def cancunDefined (op : Nat) : Bool :=
  op ≤ 0x0b || (0x10 ≤ op && op ≤ 0x1d) || op == 0x20 || (0x30 ≤ op && op ≤ 0x4a) || (0x50 ≤ op && op ≤ 0x5e)
  || (0x5f ≤ op && op ≤ 0xa4) || (0xf0 ≤ op && op ≤ 0xf5) || op == 0xfa || op == 0xfd || op == 0xfe || op == 0xff

/-- 149 assigned bytes (144 in Shanghai + TLOAD, TSTORE, MCOPY, BLOBHASH, BLOBBASEFEE). -/
example : ((List.range 256).filter cancunDefined).length = 149 := by decide +kernel

def Halt.cancun : Halt → Halt
  | .unsupported op => if cancunDefined op then .unsupported op else .invalidOpcode
  | h => h

end HalmosVerif.Spec.Evm
