/-
Spec.Forge — the documented meaning of the Forge-std `vm.assert*` cheatcodes and of `vm.assume`, written from the
Foundry book / forge-std `Vm.sol` / `StdAssertions.sol` and the Solidity ABI specification, with no reference to halmos.

* A cheatcode is named by its canonical Solidity signature, e.g. `assertEq(uint256[],uint256[],string)`; `parseSig`
  splits it into the function name and the parameter types.
* The arguments are ABI-decoded from the calldata that follows the 4-byte selector (`decodeArgs`): static types occupy one
  32-byte head word; `bytes`, `string` and `T[]` have a head word holding the offset (relative to the start of the
  arguments) of `length ++ data`.  Reading outside the calldata is a decoding failure: the cheatcode call reverts.
* Meaning on the decoded operands (`holds`):
    - `uint256`: `Lt/Gt/Le/Ge` are the unsigned order of the words; `int256`: the order of the two's-complement readings;
    - `Eq/NotEq` on `bool`, `address`, `bytes32`, `uint256`, `int256`: equality of the 32-byte words (all 256 bits; compilers
      emit canonical encodings of `bool`/`address`, for which this is equality of the values);
    - `T[]`: equal length and element-wise equal; `bytes`/`string`: equal length and byte-wise equal;
    - `assertTrue(c)` holds iff `c` is true (non-zero word), `assertFalse(c)` iff `c` is false.
* Outcome of one cheatcode call: `continues` when the relation holds, `fails` (test failure) when it does not, `reverts`
  when the arguments do not decode.  `vm.assume(c)`: the run continues iff `c` is true, otherwise the input is discarded.

Core Lean only.
-/
import HalmosVerif.Spec.Word

namespace HalmosVerif.Spec.Forge
open HalmosVerif.Spec

/-! ### types and values -/

inductive Base where
  | uint256 | int256 | bool | address | bytes32 | bytes | string
  deriving DecidableEq, Repr, Inhabited

structure Ty where
  base : Base
  array : Bool
  deriving DecidableEq, Repr, Inhabited

def Base.isDynamic : Base → Bool
  | .bytes | .string => true
  | _ => false

/-- decoded argument values -/
inductive Val where
  | word (w : Nat)                     -- a static 32-byte value
  | bytes (bs : List Nat)              -- `bytes` / `string`: the payload bytes
  | words (ws : List Nat)              -- `T[]` for a static element type
  | byteses (xs : List (List Nat))     -- `bytes[]` / `string[]`
  deriving DecidableEq, Repr, Inhabited

inductive Rel where
  | eq | notEq | lt | gt | le | ge
  deriving DecidableEq, Repr, Inhabited

/-! ### the relations -/

/-- equal length and element-wise equal -/
def listEq {α : Type} [DecidableEq α] : List α → List α → Bool
  | [], [] => true
  | x :: xs, y :: ys => decide (x = y) && listEq xs ys
  | _, _ => false

def Val.equal : Val → Val → Bool
  | .word a, .word b => decide (a = b)
  | .bytes a, .bytes b => listEq a b
  | .words a, .words b => listEq a b
  | .byteses a, .byteses b => listEq a b
  | _, _ => false

/-- the order relations on 256-bit words, unsigned or two's complement -/
def ordHolds (signed : Bool) (r : Rel) (a b : Nat) : Bool :=
  if signed then
    match r with
    | .lt => decide (toInt 256 a < toInt 256 b)
    | .gt => decide (toInt 256 a > toInt 256 b)
    | .le => decide (toInt 256 a ≤ toInt 256 b)
    | .ge => decide (toInt 256 a ≥ toInt 256 b)
    | .eq => decide (a = b)
    | .notEq => decide (a ≠ b)
  else
    match r with
    | .lt => decide (a < b)
    | .gt => decide (a > b)
    | .le => decide (a ≤ b)
    | .ge => decide (a ≥ b)
    | .eq => decide (a = b)
    | .notEq => decide (a ≠ b)

/-- does `assert<r>(a, b)` hold at operand type `t`? `none`: forge-std has no such assertion -/
def holds (r : Rel) (t : Ty) (a b : Val) : Option Bool :=
  match r with
  | .eq => some (a.equal b)
  | .notEq => some (!a.equal b)
  | _ =>
    match t, a, b with
    | ⟨.uint256, false⟩, .word x, .word y => some (ordHolds false r x y)
    | ⟨.int256, false⟩, .word x, .word y => some (ordHolds true r x y)
    | _, _, _ => none

/-! ### ABI decoding of the arguments -/

/-- big-endian value of a byte string -/
def beNat (bs : List Nat) : Nat := bs.foldl (fun a b => a * 256 + b) 0

def slice (buf : List Nat) (p n : Nat) : List Nat := (buf.drop p).take n

/-- the 32-byte word at position `p`; `none` when it does not lie inside the buffer -/
def readWord (buf : List Nat) (p : Nat) : Option Nat :=
  if p + 32 ≤ buf.length then some (beNat (slice buf p 32)) else none

/-- `length ++ payload` at position `p` -/
def readBytes (buf : List Nat) (p : Nat) : Option (List Nat) :=
  match readWord buf p with
  | none => none
  | some n => if p + 32 + n ≤ buf.length then some (slice buf (p + 32) n) else none

/-- `k` consecutive words from position `p` (stops at the first word outside the buffer) -/
def readWords (buf : List Nat) : Nat → Nat → Option (List Nat)
  | _, 0 => some []
  | p, k + 1 =>
    match readWord buf p with
    | none => none
    | some w =>
      match readWords buf (p + 32) k with
      | none => none
      | some ws => some (w :: ws)

/-- `length ++ elements` of a `T[]` with static `T` -/
def readArr (buf : List Nat) (p : Nat) : Option (List Nat) :=
  match readWord buf p with
  | none => none
  | some n => readWords buf (p + 32) n

/-- `k` offset words from `hp`, each pointing (relative to `base`) at a `bytes` value -/
def readBytesSeq (buf : List Nat) (base : Nat) : Nat → Nat → Option (List (List Nat))
  | _, 0 => some []
  | hp, k + 1 =>
    match readWord buf hp with
    | none => none
    | some o =>
      match readBytes buf (base + o) with
      | none => none
      | some x =>
        match readBytesSeq buf base (hp + 32) k with
        | none => none
        | some xs => some (x :: xs)

def readBytesArr (buf : List Nat) (p : Nat) : Option (List (List Nat)) :=
  match readWord buf p with
  | none => none
  | some n => readBytesSeq buf (p + 32) (p + 32) n

/-- the argument of type `t` whose head word is at `hp` (`args` = calldata without the selector) -/
def decodeArg (args : List Nat) (t : Ty) (hp : Nat) : Option Val :=
  match readWord args hp with
  | none => none
  | some h =>
    match t.array, t.base.isDynamic with
    | false, false => some (.word h)
    | false, true => (readBytes args h).map .bytes
    | true, false => (readArr args h).map .words
    | true, true => (readBytesArr args h).map .byteses

def decodeArgs (args : List Nat) : List Ty → Nat → Option (List Val)
  | [], _ => some []
  | t :: ts, hp =>
    match decodeArg args t hp with
    | none => none
    | some v =>
      match decodeArgs args ts (hp + 32) with
      | none => none
      | some vs => some (v :: vs)

/-! ### signatures -/

def splitOn (c : Char) : List Char → List (List Char)
  | [] => [[]]
  | x :: xs =>
    match splitOn c xs with
    | [] => [[]]          -- unreachable
    | h :: t => if x = c then [] :: h :: t else (x :: h) :: t

def parseBase (cs : List Char) : Option Base :=
  if cs = "uint256".toList then some .uint256
  else if cs = "int256".toList then some .int256
  else if cs = "bool".toList then some .bool
  else if cs = "address".toList then some .address
  else if cs = "bytes32".toList then some .bytes32
  else if cs = "bytes".toList then some .bytes
  else if cs = "string".toList then some .string
  else none

def stripArray : List Char → Option (List Char)
  | [] => none
  | ['[', ']'] => some []
  | c :: cs => (stripArray cs).map (c :: ·)

def parseTy (cs : List Char) : Option Ty :=
  match stripArray cs with
  | some b => (parseBase b).map (⟨·, true⟩)
  | none => (parseBase cs).map (⟨·, false⟩)

def parseTys : List (List Char) → Option (List Ty)
  | [] => some []
  | p :: ps =>
    match parseTy p, parseTys ps with
    | some t, some ts => some (t :: ts)
    | _, _ => none

/-- `name(t1,…,tn)` ↦ (name, [t1,…,tn]) -/
def parseSig (sig : String) : Option (List Char × List Ty) :=
  match splitOn '(' sig.toList with
  | [name, rest] =>
    match rest.reverse with
    | ')' :: inner => (parseTys (splitOn ',' inner.reverse)).map (name, ·)
    | _ => none
  | _ => none

inductive Kind where
  | unary (expected : Bool)
  | binary (r : Rel)
  deriving DecidableEq, Repr

def kindOf (name : List Char) : Option Kind :=
  if name = "assertTrue".toList then some (.unary true)
  else if name = "assertFalse".toList then some (.unary false)
  else if name = "assertEq".toList then some (.binary .eq)
  else if name = "assertNotEq".toList then some (.binary .notEq)
  else if name = "assertLt".toList then some (.binary .lt)
  else if name = "assertGt".toList then some (.binary .gt)
  else if name = "assertLe".toList then some (.binary .le)
  else if name = "assertGe".toList then some (.binary .ge)
  else none

/-! ### one cheatcode call -/

inductive Outcome where
  | continues      -- the relation holds: the call returns, nothing else happens
  | fails          -- the relation does not hold: the test fails for this input
  | reverts        -- the arguments do not decode
  deriving DecidableEq, Repr, Inhabited

def ofBool (b : Bool) : Outcome := if b then .continues else .fails

/-- the parameter lists forge-std declares: `(bool[,string])` for the unary assertions, `(T,T[,string])` for the binary ones -/
def shapeOk : Kind → List Ty → Bool
  | .unary _, [⟨.bool, false⟩] => true
  | .unary _, [⟨.bool, false⟩, ⟨.string, false⟩] => true
  | .binary _, [t, u] => decide (t = u)
  | .binary _, [t, u, ⟨.string, false⟩] => decide (t = u)
  | _, _ => false

/-- meaning of a call of the assertion with signature `sig` on `calldata` (selector included); `none`: not a forge-std
assertion -/
def runAssert (sig : String) (calldata : List Nat) : Option Outcome :=
  match parseSig sig with
  | none => none
  | some (name, tys) =>
    match kindOf name with
    | none => none
    | some k =>
      if shapeOk k tys then
        match decodeArgs (calldata.drop 4) tys 0 with
        | none => some .reverts
        | some vals =>
          match k, tys, vals with
          | .unary e, _, .word c :: _ => some (ofBool (decide (c ≠ 0) == e))
          | .binary r, t :: _, a :: b :: _ => (holds r t a b).map ofBool
          | _, _, _ => none
      else none

inductive AssumeOutcome where
  | continues | discarded | reverts
  deriving DecidableEq, Repr, Inhabited

/-- `vm.assume(bool c)`: the run continues iff `c` is true -/
def runAssume (calldata : List Nat) : AssumeOutcome :=
  match decodeArgs (calldata.drop 4) [⟨.bool, false⟩] 0 with
  | some [.word c] => if c ≠ 0 then .continues else .discarded
  | _ => .reverts

end HalmosVerif.Spec.Forge
