/-
Spec.Foundry — the documented meaning of the Foundry cheatcodes that C14 is about, written from the Foundry Book
(cheatcodes reference: prank / startPrank / stopPrank, deal, store, load, etch, warp, roll, fee, chainId, coinbase,
difficulty/prevrandao, random*) and the halmos-cheatcodes interface documentation (svm.create*), with no reference to
halmos' implementation.  Core Lean only.

## Pranks (Foundry Book, "prank", "startPrank", "stopPrank")

* `prank(a)`: "Sets `msg.sender` to the specified address **for the next call**. 'The next call' includes static calls
  as well, but **not calls to the cheat code address**."  `prank(a, o)` additionally sets `tx.origin` for that call.
* `startPrank(a)` / `startPrank(a, o)`: the same for **all subsequent calls** until `stopPrank()`.
* `stopPrank()`: "Stops an active prank started by `startPrank`, resetting `msg.sender` and `tx.origin` to the values
  before `startPrank` was called."  (Calling it with no active prank is allowed.)
* Calling `prank`/`startPrank` while a prank is active is an error.
* The prank belongs to the frame that issued it: only calls and contract creations made *by that frame* are affected.
  The callee's own calls have `msg.sender` = the callee (ordinary EVM), i.e. the prank's sender does not propagate.
* `tx.origin`: the two-argument forms set `tx.origin` "for the next call" / "for all subsequent calls"; `tx.origin` is a
  transaction-wide value, so everything executed *inside* the pranked call (its nested calls too) sees the new origin, and
  the pranking frame sees its old origin again after the call returns.  (ASSUMPTION, stated in the harness: this is how
  forge implements it — `ecx.tx.caller` is replaced for the duration of the call and restored in `call_end`.)
* "The next call" is the next CALL-family instruction or creation **whatever its target**: a contract, an account without
  code (a plain ETH transfer to an EOA), a precompile (0x1…0xa).  Such a call is made with the pranked `msg.sender` — so the
  value it carries is paid by the pranked address — and it uses a one-shot prank up, although no code runs.  The only
  exception the Book makes is "calls to the cheat code address".  (`Op.call k to false` below: `enters = false`.)
* Cheatcode endpoints — the `vm` address, the `svm` (halmos) address and `console.log`'s address — are not contracts:
  calls to them are never pranked and never consume a one-shot prank.
* DELEGATECALL (ASSUMPTION): `msg.sender` inside a delegatecall frame is by definition the delegating frame's own
  `msg.sender`; a plain prank does not change it (Foundry needs the explicit `prank(a, delegateCall=true)` form, which
  halmos does not offer).  A delegatecall *is* "a call": we read "the next call" literally, so a one-shot prank is
  consumed by it, and a pranked `tx.origin` applies inside it.  (forge's implementation skips a plain prank on
  delegatecalls instead; the Book does not specify.  Stated as an assumption of C14.)
* A prank does not outlive its frame, hence not its transaction: a new transaction starts with no active prank.

## State cheatcodes
`deal(a, v)`: balance of `a` becomes `v`.  `store(a, k, v)`: storage slot `k` of `a` becomes `v`.  `load(a, k)`: returns it.
`etch(a, code)`: code of `a` becomes `code`.  `warp(t)`: `block.timestamp = t`.  `roll(n)`: `block.number = n`.
`fee(f)`: `block.basefee = f`.  `chainId(c)`: `block.chainid = c`.  `coinbase(a)`: `block.coinbase = a`.
`difficulty(d)` / `prevrandao(d)`: `block.difficulty`/`block.prevrandao = d`.  Nothing else changes.

## Fresh symbols
`svm.create<T>(name)` / `vm.random<T>()`: an arbitrary (unconstrained) value of Solidity type `T`, ABI-encoded;
`createUint(n, name)`/`randomUint(n)`: of type `uintN`; `createUint256(name, min, max)` / `randomUint(min, max)`: an
arbitrary value in `[min, max]` (error when `min > max`); `createBytes(n, name)` / `randomBytes(n)`: `bytes` of length `n`.
-/
import HalmosVerif.Spec.Evm

namespace HalmosVerif.Spec.Foundry

abbrev Addr := Nat

/-! ### the alphabet of prank histories (shared with the Model) -/

inductive CallKind where
  | call | staticcall | delegatecall | callcode
  deriving DecidableEq, Repr, Inhabited

/-- One event of an execution path, as far as pranks are concerned. -/
inductive Op where
  | prank (a : Addr)                  -- vm.prank(address)
  | prank2 (a o : Addr)               -- vm.prank(address,address)
  | startPrank (a : Addr)             -- vm.startPrank(address)
  | startPrank2 (a o : Addr)          -- vm.startPrank(address,address)
  | stopPrank                         -- vm.stopPrank()
  /-- a CALL-family instruction to `to`; `enters` = the target has code, so a new frame starts executing (it ends at the
      matching `ret`).  Calls to cheatcode endpoints (vm.deal, svm.createUint256, console.log …) are `call` ops whose `to`
      is that endpoint. -/
  | call (k : CallKind) (to : Addr) (enters : Bool)
  /-- CREATE/CREATE2 of a contract at `newAddr`; the init code runs in a new frame until the matching `ret` -/
  | create (newAddr : Addr)
  /-- the current frame returns (or reverts) to its caller; at the outermost frame: the transaction ends -/
  | ret
  /-- a new top-level transaction `sender → to` with `tx.origin = origin` -/
  | newTx (sender origin to : Addr)
  deriving DecidableEq, Repr, Inhabited

/-- what a call / creation event shows: the callee context's `address(this)`, `msg.sender`, `tx.origin` -/
structure Obs where
  to : Addr        -- the address named by the instruction
  self : Addr      -- address(this) of the callee context
  sender : Addr    -- msg.sender of the callee context
  origin : Addr    -- tx.origin of the callee context
  deriving DecidableEq, Repr, Inhabited

/-! ### the prank state machine -/

structure PrankS where
  sender : Addr
  origin : Option Addr
  single : Bool              -- `prank` (true) or `startPrank` (false)
  deriving DecidableEq, Repr

structure FrameS where
  self : Addr                -- address(this)
  sender : Addr              -- msg.sender
  origin : Addr              -- tx.origin as seen by this frame
  prank : Option PrankS := none
  deriving DecidableEq, Repr

structure StateS where
  frames : List FrameS := []       -- innermost first; [] = no transaction in progress
  obs : List Obs := []             -- oldest first
  failed : Bool := false           -- a cheatcode failed: the test run is over
  deriving DecidableEq, Repr

/-- the endpoints that are cheatcode interfaces, not contracts -/
structure Endpoints where
  vm : Addr
  svm : Addr
  console : Addr

def Endpoints.isCheat (e : Endpoints) (a : Addr) : Bool := a == e.vm || a == e.svm || a == e.console

/-- `msg.sender` of a call/creation made by frame `f` -/
def senderFor (f : FrameS) : Addr :=
  match f.prank with
  | some p => p.sender
  | none => f.self

/-- `tx.origin` inside a call/creation made by frame `f` -/
def originFor (f : FrameS) : Addr :=
  match f.prank with
  | some { origin := some o, .. } => o
  | _ => f.origin

/-- the frame after one of its calls/creations has been issued: a one-shot prank is used up -/
def afterUse (f : FrameS) : FrameS :=
  match f.prank with
  | some { single := true, .. } => { f with prank := none }
  | _ => f

def setPrank (s : StateS) (f : FrameS) (rest : List FrameS) (p : PrankS) : StateS :=
  match f.prank with
  | some _ => { s with failed := true }                               -- "cannot override an ongoing prank"
  | none => { s with frames := { f with prank := some p } :: rest }

/-- one event in a running frame `f` (the innermost one; `rest` = its callers) -/
def stepFrame (e : Endpoints) (s : StateS) (f : FrameS) (rest : List FrameS) : Op → StateS
  | .newTx .. => s           -- handled by `step`
  | .prank a => setPrank s f rest { sender := a, origin := none, single := true }
  | .prank2 a o => setPrank s f rest { sender := a, origin := some o, single := true }
  | .startPrank a => setPrank s f rest { sender := a, origin := none, single := false }
  | .startPrank2 a o => setPrank s f rest { sender := a, origin := some o, single := false }
  | .stopPrank => { s with frames := { f with prank := none } :: rest }
  | .call k to enters =>
    -- a cheatcode endpoint is not a call in the sense of the prank documentation: never pranked, consumes nothing,
    -- runs no code
    let cheat := e.isCheat to
    let g : FrameS := if cheat then { f with prank := none } else f
    let callee : FrameS := {
      self := match k with | .call | .staticcall => to | _ => f.self
      sender := match k with | .delegatecall => f.sender | _ => senderFor g
      origin := originFor g }
    let o : Obs := { to := to, self := callee.self, sender := callee.sender, origin := callee.origin }
    if cheat then { s with obs := s.obs ++ [o] }
    else if enters then { s with frames := callee :: afterUse f :: rest, obs := s.obs ++ [o] }
    else { s with frames := afterUse f :: rest, obs := s.obs ++ [o] }
  | .create newAddr =>
    let callee : FrameS := { self := newAddr, sender := senderFor f, origin := originFor f }
    { s with frames := callee :: afterUse f :: rest,
             obs := s.obs ++ [{ to := newAddr, self := newAddr, sender := callee.sender, origin := callee.origin }] }
  | .ret => { s with frames := rest }

def step (e : Endpoints) (s : StateS) (op : Op) : StateS :=
  if s.failed then s else
  match op, s.frames with
  | .newTx sender origin to, _ => { s with frames := [{ self := to, sender := sender, origin := origin }] }
  | _, [] => s                                   -- no transaction in progress
  | op, f :: rest => stepFrame e s f rest op

def run (e : Endpoints) (s : StateS) (h : List Op) : StateS := h.foldl (step e) s

/-! ### state cheatcodes: updates of the reference EVM's world and block parameters -/

open HalmosVerif.Spec.Evm in
inductive StateCheat where
  | deal (who amount : Nat)
  | store (who slot value : Nat)
  | etch (who : Nat) (code : List Nat)
  | warp (t : Nat) | roll (n : Nat) | fee (f : Nat) | chainId (c : Nat) | coinbase (a : Nat) | difficulty (d : Nat)
  deriving Repr

open HalmosVerif.Spec.Evm in
/-- the world after a state cheatcode (arguments are ABI words: `address` arguments are taken modulo 2^160) -/
def applyWorld (w : World) : StateCheat → World
  | .deal who amount => w.setBalance (addrMask who) (amount % W)
  | .store who slot value => { w with storage := insert w.storage (addrMask who, slot % W) (value % W) }
  | .etch who code => w.setCode (addrMask who) code
  | _ => w

open HalmosVerif.Spec.Evm in
def applyParams (p : Params) : StateCheat → Params
  | .warp t => { p with timestamp := t % W }
  | .roll n => { p with number := n % W }
  | .fee f => { p with basefee := f % W }
  | .chainId c => { p with chainid := c % W }
  | .coinbase a => { p with coinbase := addrMask a }
  | .difficulty d => { p with difficulty := d % W }
  | _ => p

open HalmosVerif.Spec.Evm in
/-- `vm.load(who, slot)` -/
def load (w : World) (who slot : Nat) : Nat := lookupD w.storage (addrMask who, slot % W)

/-! ### fresh symbols: the value set of each requested type, as ABI return data -/

/-- a 256-bit word is a valid `uintN` -/
def IsUint (n w : Nat) : Prop := w < 2 ^ n
/-- a 256-bit word is a valid (sign-extended) `intN`, 1 ≤ n ≤ 256 -/
def IsInt (n w : Nat) : Prop := w < 2 ^ 256 ∧ (w < 2 ^ (n - 1) ∨ 2 ^ 256 - 2 ^ (n - 1) ≤ w)
/-- a 256-bit word is a valid (right-padded) `bytesN`, 1 ≤ n ≤ 32 -/
def IsBytesN (n w : Nat) : Prop := w < 2 ^ 256 ∧ w % 2 ^ (256 - 8 * n) = 0
def IsAddress (w : Nat) : Prop := w < 2 ^ 160
def IsBool (w : Nat) : Prop := w = 0 ∨ w = 1
/-- a value of `uint256` within the requested closed range -/
def InRange (lo hi w : Nat) : Prop := lo ≤ w ∧ w ≤ hi ∧ w < 2 ^ 256

def word (v : Nat) : List Nat := Evm.natToBytes 32 v

/-- return data decodes (as Solidity's ABI decoder reads it: head offset, length, then `len` payload bytes; trailing
    padding is not required by the decoder) to the dynamic `bytes`/`string` value `payload` -/
def DecodesToBytes (data payload : List Nat) : Prop :=
  data.take 32 = word 32 ∧ (data.drop 32).take 32 = word payload.length ∧
  (data.drop 64).take payload.length = payload ∧ 64 + payload.length ≤ data.length ∧ ∀ b ∈ payload, b < 256

end HalmosVerif.Spec.Foundry
