/-
Spec.Keccak — Keccak-f[1600] and Keccak-256 (the pre-standard "Ethereum" variant: rate 1088 bits, capacity 512,
multi-rate padding pad10*1 with the domain byte 0x01, i.e. *not* SHA3-256's 0x06), written from FIPS 202 / the
Keccak reference, with no reference to halmos.

Two implementations:

* `Ref`  — readable: the state is a list of 25 lanes (lane (x,y) at index x+5y), the step mappings θ ρ π χ ι are
           separate functions, the rotation offsets are derived by the (t+1)(t+2)/2 walk and the round constants by the
           LFSR of FIPS 202 Algorithm 5; the sponge works on byte lists.
* `Fast` — the whole 1600-bit state is ONE `Nat` (lane i at bits [64i, 64i+64)), one round is a straight line of
           `let`s over `Nat` shifts/masks with literal tables; the message is absorbed as one little-endian `Nat`.
           Every operation is a GMP-accelerated `Nat` primitive of the Lean kernel, so `decide +kernel` evaluates a
           single-block hash in a few hundredths of a second.  This is the version the table theorems evaluate.

`Props/KeccakAgree.lean` checks (kernel evaluation on vectors: empty, 1 byte, 135/136/137 bytes, multi-block) that both
agree; `Driver/Keccak.lean` exposes both for differential testing against `eth_hash`.

Digest convention: `keccak256 … : Nat` is the 32-byte digest read big-endian (as the EVM pushes it on the stack).
-/
namespace HalmosVerif.Spec.Keccak

/-- 2^64 - 1 -/
def M64 : Nat := 0xFFFFFFFFFFFFFFFF

/-- rate in bytes of Keccak-256 = (1600 - 2·256) / 8 -/
def rate : Nat := 136

/-! ## byte-level helpers shared by both versions -/

/-- the integer whose little-endian byte string is `bs` (bytes are reduced mod 256) -/
def leOfBytes : List Nat → Nat
  | [] => 0
  | b :: bs => (b % 256) + 256 * leOfBytes bs

/-- the integer whose big-endian byte string is `bs` -/
def beOfBytes (bs : List Nat) : Nat := bs.foldl (fun acc b => acc * 256 + b % 256) 0

/-- `n` bytes of `v`, least significant first -/
def bytesLE : Nat → Nat → List Nat
  | 0, _ => []
  | n + 1, v => (v % 256) :: bytesLE n (v / 256)

/-- `n` bytes of `v`, most significant first (the EVM / ABI word encoding; `v` is truncated to `n` bytes) -/
def bytesBE (n v : Nat) : List Nat := (bytesLE n v).reverse

/-- reverse the order of the low `n` bytes of `v` -/
def byteSwap : Nat → Nat → Nat
  | 0, _ => 0
  | n + 1, v => ((v % 256) <<< (8 * n)) ||| byteSwap n (v / 256)

/-! ## (a) reference version -/
namespace Ref

/-- 25 lanes of 64 bits; lane (x, y) is at index `x + 5*y` -/
abbrev State := List Nat

def zero : State := List.replicate 25 0

def get (a : State) (x y : Nat) : Nat := a.getD ((x % 5) + 5 * (y % 5)) 0

def build (f : Nat → Nat → Nat) : State := (List.range 25).map fun i => f (i % 5) (i / 5)

def rotl64 (v n : Nat) : Nat :=
  let n := n % 64
  ((v <<< n) ||| (v >>> (64 - n))) % 2 ^ 64

/-- ρ offsets: start at (1,0); for t = 0..23: r[x,y] = (t+1)(t+2)/2, (x,y) ← (y, 2x+3y).  r[0,0] = 0. -/
def rhoWalk : Nat → Nat → Nat → List (Nat × Nat × Nat)
  | 0, _, _ => []
  | k + 1, x, y =>
    let t := 23 - k
    (x, y, ((t + 1) * (t + 2) / 2) % 64) :: rhoWalk k y ((2 * x + 3 * y) % 5)

def rhoTable : List (Nat × Nat × Nat) := rhoWalk 24 1 0

def rhoOffset (x y : Nat) : Nat :=
  match rhoTable.find? (fun e => e.1 == x && e.2.1 == y) with
  | some e => e.2.2
  | none => 0

/-- one step of the degree-8 LFSR x^8+x^6+x^5+x^4+1 of FIPS 202 Alg. 5 (bit 0 of the byte is R[0]) -/
def lfsrStep (r : Nat) : Nat :=
  let r := r <<< 1
  if r &&& 0x100 ≠ 0 then (r ^^^ 0x171) else r

def lfsr : Nat → Nat
  | 0 => 1
  | t + 1 => lfsrStep (lfsr t)

/-- rc(t) -/
def rcBit (t : Nat) : Nat := lfsr (t % 255) &&& 1

/-- RC[ir]: bit 2^j - 1 is rc(j + 7·ir), j = 0..6 -/
def roundConstant (ir : Nat) : Nat :=
  (List.range 7).foldl (fun acc j => acc ||| (rcBit (j + 7 * ir) <<< (2 ^ j - 1))) 0

def theta (a : State) : State :=
  let c := fun x => get a x 0 ^^^ get a x 1 ^^^ get a x 2 ^^^ get a x 3 ^^^ get a x 4
  let d := fun x => c (x + 4) ^^^ rotl64 (c (x + 1)) 1
  build fun x y => get a x y ^^^ d x

/-- ρ then π: B[y, 2x+3y] = rot(A[x,y], r[x,y]); solved for the target (X,Y): x = X + 3Y, y = X -/
def rhoPi (a : State) : State :=
  build fun X Y =>
    let x := (X + 3 * Y) % 5
    let y := X
    rotl64 (get a x y) (rhoOffset x y)

def chi (b : State) : State :=
  build fun x y => get b x y ^^^ ((get b (x + 1) y ^^^ M64) &&& get b (x + 2) y)

def iota (ir : Nat) (a : State) : State :=
  match a with
  | [] => []
  | l :: ls => (l ^^^ roundConstant ir) :: ls

def round (a : State) (ir : Nat) : State := iota ir (chi (rhoPi (theta a)))

def keccakF (a : State) : State := (List.range 24).foldl round a

/-- pad10*1 with Keccak's (empty) domain suffix: append 0x01, zeros, and set the top bit of the last rate byte -/
def pad (msg : List Nat) : List Nat :=
  let q := rate - msg.length % rate
  if q = 1 then msg ++ [0x81]
  else msg ++ [0x01] ++ List.replicate (q - 2) 0 ++ [0x80]

/-- the 17 rate lanes of one 136-byte block (little-endian lanes) -/
def blockLanes (block : List Nat) : List Nat :=
  (List.range 17).map fun i => leOfBytes ((block.drop (8 * i)).take 8)

def xorBlock (a : State) (block : List Nat) : State :=
  let ls := blockLanes block
  a.zipIdx.map fun (l, i) => l ^^^ ls.getD i 0

def absorb (a : State) (bytes : List Nat) (fuel : Nat) : State :=
  match fuel with
  | 0 => a
  | fuel + 1 =>
    if bytes.isEmpty then a
    else absorb (keccakF (xorBlock a (bytes.take rate))) (bytes.drop rate) fuel

/-- the 32 digest bytes: the first four lanes, each little-endian -/
def squeeze (a : State) : List Nat := (a.take 4).flatMap (bytesLE 8)

def digestBytes (msg : List Nat) : List Nat :=
  let p := pad (msg.map (· % 256))
  squeeze (absorb zero p (p.length / rate + 1))

def keccak256 (msg : List Nat) : Nat := beOfBytes (digestBytes msg)

end Ref

/-! ## (b) packed version -/
namespace Fast

/-- lane `i` of the packed state -/
@[inline] def lane (s i : Nat) : Nat := (s >>> (64 * i)) &&& M64

@[inline] def rotl (v n : Nat) : Nat := ((v <<< n) ||| (v >>> (64 - n))) &&& M64

/-- the 24 round constants (literal; `Ref.roundConstant` derives them, see `Props/KeccakAgree`) -/
def RC : List Nat := [
  0x0000000000000001, 0x0000000000008082, 0x800000000000808A, 0x8000000080008000,
  0x000000000000808B, 0x0000000080000001, 0x8000000080008081, 0x8000000000008009,
  0x000000000000008A, 0x0000000000000088, 0x0000000080008009, 0x000000008000000A,
  0x000000008000808B, 0x800000000000008B, 0x8000000000008089, 0x8000000000008003,
  0x8000000000008002, 0x8000000000000080, 0x000000000000800A, 0x800000008000000A,
  0x8000000080008081, 0x8000000000008080, 0x0000000080000001, 0x8000000080008008]

/-- one round of Keccak-f[1600] on the packed state.  `aK` = lane K = A[K%5, K/5]. -/
def round (s rc : Nat) : Nat :=
  let a0 := lane s 0;   let a1 := lane s 1;   let a2 := lane s 2;   let a3 := lane s 3;   let a4 := lane s 4
  let a5 := lane s 5;   let a6 := lane s 6;   let a7 := lane s 7;   let a8 := lane s 8;   let a9 := lane s 9
  let a10 := lane s 10; let a11 := lane s 11; let a12 := lane s 12; let a13 := lane s 13; let a14 := lane s 14
  let a15 := lane s 15; let a16 := lane s 16; let a17 := lane s 17; let a18 := lane s 18; let a19 := lane s 19
  let a20 := lane s 20; let a21 := lane s 21; let a22 := lane s 22; let a23 := lane s 23; let a24 := lane s 24
  -- θ
  let c0 := a0 ^^^ a5 ^^^ a10 ^^^ a15 ^^^ a20
  let c1 := a1 ^^^ a6 ^^^ a11 ^^^ a16 ^^^ a21
  let c2 := a2 ^^^ a7 ^^^ a12 ^^^ a17 ^^^ a22
  let c3 := a3 ^^^ a8 ^^^ a13 ^^^ a18 ^^^ a23
  let c4 := a4 ^^^ a9 ^^^ a14 ^^^ a19 ^^^ a24
  let d0 := c4 ^^^ rotl c1 1
  let d1 := c0 ^^^ rotl c2 1
  let d2 := c1 ^^^ rotl c3 1
  let d3 := c2 ^^^ rotl c4 1
  let d4 := c3 ^^^ rotl c0 1
  -- ρ and π: bK = B[K%5, K/5] = rot(A[x,y] ^ D[x], r[x,y]) with (K%5, K/5) = (y, 2x+3y)
  let b0  := a0 ^^^ d0
  let b1  := rotl (a6  ^^^ d1) 44
  let b2  := rotl (a12 ^^^ d2) 43
  let b3  := rotl (a18 ^^^ d3) 21
  let b4  := rotl (a24 ^^^ d4) 14
  let b5  := rotl (a3  ^^^ d3) 28
  let b6  := rotl (a9  ^^^ d4) 20
  let b7  := rotl (a10 ^^^ d0) 3
  let b8  := rotl (a16 ^^^ d1) 45
  let b9  := rotl (a22 ^^^ d2) 61
  let b10 := rotl (a1  ^^^ d1) 1
  let b11 := rotl (a7  ^^^ d2) 6
  let b12 := rotl (a13 ^^^ d3) 25
  let b13 := rotl (a19 ^^^ d4) 8
  let b14 := rotl (a20 ^^^ d0) 18
  let b15 := rotl (a4  ^^^ d4) 27
  let b16 := rotl (a5  ^^^ d0) 36
  let b17 := rotl (a11 ^^^ d1) 10
  let b18 := rotl (a17 ^^^ d2) 15
  let b19 := rotl (a23 ^^^ d3) 56
  let b20 := rotl (a2  ^^^ d2) 62
  let b21 := rotl (a8  ^^^ d3) 55
  let b22 := rotl (a14 ^^^ d4) 39
  let b23 := rotl (a15 ^^^ d0) 41
  let b24 := rotl (a21 ^^^ d1) 2
  -- χ (and ι on lane 0), repacked
  (b0 ^^^ ((b1 ^^^ M64) &&& b2) ^^^ rc)
  ||| ((b1  ^^^ ((b2  ^^^ M64) &&& b3 )) <<< 64)
  ||| ((b2  ^^^ ((b3  ^^^ M64) &&& b4 )) <<< 128)
  ||| ((b3  ^^^ ((b4  ^^^ M64) &&& b0 )) <<< 192)
  ||| ((b4  ^^^ ((b0  ^^^ M64) &&& b1 )) <<< 256)
  ||| ((b5  ^^^ ((b6  ^^^ M64) &&& b7 )) <<< 320)
  ||| ((b6  ^^^ ((b7  ^^^ M64) &&& b8 )) <<< 384)
  ||| ((b7  ^^^ ((b8  ^^^ M64) &&& b9 )) <<< 448)
  ||| ((b8  ^^^ ((b9  ^^^ M64) &&& b5 )) <<< 512)
  ||| ((b9  ^^^ ((b5  ^^^ M64) &&& b6 )) <<< 576)
  ||| ((b10 ^^^ ((b11 ^^^ M64) &&& b12)) <<< 640)
  ||| ((b11 ^^^ ((b12 ^^^ M64) &&& b13)) <<< 704)
  ||| ((b12 ^^^ ((b13 ^^^ M64) &&& b14)) <<< 768)
  ||| ((b13 ^^^ ((b14 ^^^ M64) &&& b10)) <<< 832)
  ||| ((b14 ^^^ ((b10 ^^^ M64) &&& b11)) <<< 896)
  ||| ((b15 ^^^ ((b16 ^^^ M64) &&& b17)) <<< 960)
  ||| ((b16 ^^^ ((b17 ^^^ M64) &&& b18)) <<< 1024)
  ||| ((b17 ^^^ ((b18 ^^^ M64) &&& b19)) <<< 1088)
  ||| ((b18 ^^^ ((b19 ^^^ M64) &&& b15)) <<< 1152)
  ||| ((b19 ^^^ ((b15 ^^^ M64) &&& b16)) <<< 1216)
  ||| ((b20 ^^^ ((b21 ^^^ M64) &&& b22)) <<< 1280)
  ||| ((b21 ^^^ ((b22 ^^^ M64) &&& b23)) <<< 1344)
  ||| ((b22 ^^^ ((b23 ^^^ M64) &&& b24)) <<< 1408)
  ||| ((b23 ^^^ ((b24 ^^^ M64) &&& b20)) <<< 1472)
  ||| ((b24 ^^^ ((b20 ^^^ M64) &&& b21)) <<< 1536)

def keccakF (s : Nat) : Nat := RC.foldl round s

/-- 2^1088 - 1 : one rate block -/
def rateMask : Nat := 2 ^ (8 * rate) - 1

/-- absorb `n` rate blocks of the little-endian message integer `m`, lowest block first -/
def absorb (s m : Nat) : Nat → Nat
  | 0 => s
  | n + 1 => absorb (keccakF (s ^^^ (m &&& rateMask))) (m >>> (8 * rate)) n

/-- Keccak-256 of the `len`-byte message whose little-endian integer is `m` (`m < 256^len`); digest big-endian -/
def hashLE (m len : Nat) : Nat :=
  let nblocks := len / rate + 1
  let padded := (m % 2 ^ (8 * len)) ||| (0x01 <<< (8 * len)) ||| (0x80 <<< (8 * (nblocks * rate - 1)))
  byteSwap 32 (absorb 0 padded nblocks &&& (2 ^ 256 - 1))

def keccak256 (msg : List Nat) : Nat := hashLE (leOfBytes msg) msg.length

end Fast

/-! ## public interface (the packed version) -/

/-- Keccak-256 of a byte list (entries reduced mod 256), digest as a big-endian 256-bit number -/
def keccak256 (msg : List Nat) : Nat := Fast.keccak256 msg

def keccak256U8 (msg : List UInt8) : Nat := keccak256 (msg.map (·.toNat))

def keccak256BA (msg : ByteArray) : Nat := keccak256 (msg.data.toList.map (·.toNat))

/-- Keccak-256 of the `len`-byte big-endian encoding of `v` (truncated to `len` bytes): `keccak256(abi.encode(v))` for
`len = 32`, `keccak256(abi.encode(a, b))` for `len = 64`, `v = a·2^256 + b`.  No byte list is materialised. -/
def keccak256BE (len v : Nat) : Nat := Fast.hashLE (byteSwap len v) len

/-- UTF-8 bytes of a string as naturals -/
def utf8 (s : String) : List Nat := s.toUTF8.data.toList.map (·.toNat)

/-- the 4-byte function selector of a Solidity signature: the first four bytes of its Keccak-256 -/
def selector (sig : String) : Nat := keccak256 (utf8 sig) >>> 224

/-- digest as 32 bytes, most significant first -/
def digestBytes (msg : List Nat) : List Nat := bytesBE 32 (keccak256 msg)

end HalmosVerif.Spec.Keccak
