/-
Spec.Keccak — Keccak-f[1600] and Keccak-256 (the pre-standard "Ethereum" variant: rate 1088 bits, capacity 512,
multi-rate padding pad10*1 with the domain byte 0x01, i.e. *not* SHA3-256's 0x06), written from FIPS 202 / the
Keccak reference, with no reference to halmos.

Two implementations:

* `Ref`  — readable: the state is a list of 25 lanes (lane (x,y) at index x+5y), the step mappings θ ρ π χ ι are
           separate functions, the rotation offsets are derived by the (t+1)(t+2)/2 walk and the round constants by the
           LFSR of FIPS 202 Algorithm 5; the sponge works on byte lists.
* `Fast` — the whole 1600-bit state is ONE `Nat` (lane i at bits [64i, 64i+64)); θ and χ are a dozen whole-state
           shift/mask/xor operations each, ρ/π a fold over a literal table; the message is absorbed as one
           little-endian `Nat`.
           Every operation is a GMP-accelerated `Nat` primitive of the Lean kernel, so `decide +kernel` evaluates a
           single-block hash in a few hundredths of a second.  This is the version the table theorems evaluate.

`Props/KeccakAgree.lean` checks (kernel evaluation on vectors: empty, 1 byte, 135/136/137 bytes, multi-block) that both
agree; `Driver/Keccak.lean` exposes both for differential testing against `eth_hash`.

Digest convention: `keccak256 … : Nat` is the 32-byte digest read big-endian (as the EVM pushes it on the stack).
-/
namespace HalmosVerif.Spec.Keccak

/-- 2^64 - 1 -/
def M64 : Nat := 0xFFFFFFFFFFFFFFFF

/-- rate in bytes of Keccak-256 = (1600 - 2·256) / 8 -/
def rate : Nat := 136

/-! ## byte-level helpers shared by both versions -/

/-- the integer whose little-endian byte string is `bs` (bytes are reduced mod 256) -/
def leOfBytes : List Nat → Nat
  | [] => 0
  | b :: bs => (b % 256) + 256 * leOfBytes bs

/-- the integer whose big-endian byte string is `bs` -/
def beOfBytes (bs : List Nat) : Nat := bs.foldl (fun acc b => acc * 256 + b % 256) 0

/-- `n` bytes of `v`, least significant first -/
def bytesLE : Nat → Nat → List Nat
  | 0, _ => []
  | n + 1, v => (v % 256) :: bytesLE n (v / 256)

/-- `n` bytes of `v`, most significant first (the EVM / ABI word encoding; `v` is truncated to `n` bytes) -/
def bytesBE (n v : Nat) : List Nat := (bytesLE n v).reverse

/-- reverse the order of the low `n` bytes of `v` -/
def byteSwap : Nat → Nat → Nat
  | 0, _ => 0
  | n + 1, v => ((v % 256) <<< (8 * n)) ||| byteSwap n (v / 256)

/-! ## (a) reference version -/
namespace Ref

/-- 25 lanes of 64 bits; lane (x, y) is at index `x + 5*y` -/
abbrev State := List Nat

def zero : State := List.replicate 25 0

def get (a : State) (x y : Nat) : Nat := a.getD ((x % 5) + 5 * (y % 5)) 0

def build (f : Nat → Nat → Nat) : State := (List.range 25).map fun i => f (i % 5) (i / 5)

def rotl64 (v n : Nat) : Nat :=
  let n := n % 64
  ((v <<< n) ||| (v >>> (64 - n))) % 2 ^ 64

/-- ρ offsets: start at (1,0); for t = 0..23: r[x,y] = (t+1)(t+2)/2, (x,y) ← (y, 2x+3y).  r[0,0] = 0. -/
def rhoWalk : Nat → Nat → Nat → List (Nat × Nat × Nat)
  | 0, _, _ => []
  | k + 1, x, y =>
    let t := 23 - k
    (x, y, ((t + 1) * (t + 2) / 2) % 64) :: rhoWalk k y ((2 * x + 3 * y) % 5)

def rhoTable : List (Nat × Nat × Nat) := rhoWalk 24 1 0

def rhoOffset (x y : Nat) : Nat :=
  match rhoTable.find? (fun e => e.1 == x && e.2.1 == y) with
  | some e => e.2.2
  | none => 0

/-- one step of the degree-8 LFSR x^8+x^6+x^5+x^4+1 of FIPS 202 Alg. 5 (bit 0 of the byte is R[0]) -/
def lfsrStep (r : Nat) : Nat :=
  let r := r <<< 1
  if r &&& 0x100 ≠ 0 then (r ^^^ 0x171) else r

def lfsr : Nat → Nat
  | 0 => 1
  | t + 1 => lfsrStep (lfsr t)

/-- rc(t) -/
def rcBit (t : Nat) : Nat := lfsr (t % 255) &&& 1

/-- RC[ir]: bit 2^j - 1 is rc(j + 7·ir), j = 0..6 -/
def roundConstant (ir : Nat) : Nat :=
  (List.range 7).foldl (fun acc j => acc ||| (rcBit (j + 7 * ir) <<< (2 ^ j - 1))) 0

def theta (a : State) : State :=
  let c := fun x => get a x 0 ^^^ get a x 1 ^^^ get a x 2 ^^^ get a x 3 ^^^ get a x 4
  let d := fun x => c (x + 4) ^^^ rotl64 (c (x + 1)) 1
  build fun x y => get a x y ^^^ d x

/-- ρ then π: B[y, 2x+3y] = rot(A[x,y], r[x,y]); solved for the target (X,Y): x = X + 3Y, y = X -/
def rhoPi (a : State) : State :=
  build fun X Y =>
    let x := (X + 3 * Y) % 5
    let y := X
    rotl64 (get a x y) (rhoOffset x y)

def chi (b : State) : State :=
  build fun x y => get b x y ^^^ ((get b (x + 1) y ^^^ M64) &&& get b (x + 2) y)

def iota (ir : Nat) (a : State) : State :=
  match a with
  | [] => []
  | l :: ls => (l ^^^ roundConstant ir) :: ls

def round (a : State) (ir : Nat) : State := iota ir (chi (rhoPi (theta a)))

def keccakF (a : State) : State := (List.range 24).foldl round a

/-- pad10*1 with Keccak's (empty) domain suffix: append 0x01, zeros, and set the top bit of the last rate byte -/
def pad (msg : List Nat) : List Nat :=
  let q := rate - msg.length % rate
  if q = 1 then msg ++ [0x81]
  else msg ++ [0x01] ++ List.replicate (q - 2) 0 ++ [0x80]

/-- the 17 rate lanes of one 136-byte block (little-endian lanes) -/
def blockLanes (block : List Nat) : List Nat :=
  (List.range 17).map fun i => leOfBytes ((block.drop (8 * i)).take 8)

def xorBlock (a : State) (block : List Nat) : State :=
  let ls := blockLanes block
  a.zipIdx.map fun (l, i) => l ^^^ ls.getD i 0

def absorb (a : State) (bytes : List Nat) (fuel : Nat) : State :=
  match fuel with
  | 0 => a
  | fuel + 1 =>
    if bytes.isEmpty then a
    else absorb (keccakF (xorBlock a (bytes.take rate))) (bytes.drop rate) fuel

/-- the 32 digest bytes: the first four lanes, each little-endian -/
def squeeze (a : State) : List Nat := (a.take 4).flatMap (bytesLE 8)

def digestBytes (msg : List Nat) : List Nat :=
  let p := pad (msg.map (· % 256))
  squeeze (absorb zero p (p.length / rate + 1))

def keccak256 (msg : List Nat) : Nat := beOfBytes (digestBytes msg)

end Ref

/-! ## (b) packed version -/
namespace Fast

/-! Layout: lane (x, y) occupies bits [64(x+5y), 64(x+5y)+64); plane y (five lanes) bits [320y, 320y+320).
θ and χ act on all lanes at once through shifted copies of the state and lane masks; ρ/π moves one lane at a time. -/

/-- one plane -/
def M320 : Nat := 2 ^ 320 - 1
/-- the whole state -/
def ALL : Nat := 2 ^ 1600 - 1
/-- `p * REP5` replicates a plane `p < 2^320` into all five planes -/
def REP5 : Nat := 1 + 2 ^ 320 + 2 ^ 640 + 2 ^ 960 + 2 ^ 1280
/-- bit 0 of every lane of a plane -/
def LOW1 : Nat := 1 + 2 ^ 64 + 2 ^ 128 + 2 ^ 192 + 2 ^ 256
/-- every bit of a plane except bit 0 of each lane -/
def NOTLOW : Nat := M320 ^^^ LOW1
/-- lane x = 4 of every plane -/
def LANE4 : Nat := (M64 <<< 256) * REP5
/-- lanes x = 0..3 of every plane -/
def LANES0123 : Nat := (2 ^ 256 - 1) * REP5
/-- lanes x = 0..2 of every plane -/
def LANES012 : Nat := (2 ^ 192 - 1) * REP5
/-- lanes x = 3..4 of every plane -/
def LANES34 : Nat := ((2 ^ 128 - 1) <<< 192) * REP5
/-- `v * DBL = v‖v` for a lane `v < 2^64`; a rotation is a window of the doubled lane -/
def DBL : Nat := 2 ^ 64 + 1

/-- the 24 round constants (literal; `Ref.roundConstant` derives them, see `Props/KeccakAgree`) -/
def RC : List Nat := [
  0x0000000000000001, 0x0000000000008082, 0x800000000000808A, 0x8000000080008000,
  0x000000000000808B, 0x0000000080000001, 0x8000000080008081, 0x8000000000008009,
  0x000000000000008A, 0x0000000000000088, 0x0000000080008009, 0x000000008000000A,
  0x000000008000808B, 0x800000000000008B, 0x8000000000008089, 0x8000000000008003,
  0x8000000000008002, 0x8000000000000080, 0x000000000000800A, 0x800000008000000A,
  0x8000000080008081, 0x8000000000008080, 0x0000000080000001, 0x8000000080008008]

/-- ρ/π as a table (source lane x+5y, rotation r[x,y], destination lane y + 5·((2x+3y) mod 5));
`Ref.rhoOffset` derives the rotations, see `Props/KeccakAgree` -/
def RHOPI : List (Nat × Nat × Nat) := [
  (0, 0, 0),    (6, 44, 1),   (12, 43, 2),  (18, 21, 3),  (24, 14, 4),
  (3, 28, 5),   (9, 20, 6),   (10, 3, 7),   (16, 45, 8),  (22, 61, 9),
  (1, 1, 10),   (7, 6, 11),   (13, 25, 12), (19, 8, 13),  (20, 18, 14),
  (4, 27, 15),  (5, 36, 16),  (11, 10, 17), (17, 15, 18), (23, 56, 19),
  (2, 62, 20),  (8, 55, 21),  (14, 39, 22), (15, 41, 23), (21, 2, 24)]

/-- θ: column parities `c` (one plane), D[x] = C[x-1] ⊕ rot(C[x+1], 1) as lane-rotated copies of `c`, added to every plane -/
def theta (s : Nat) : Nat :=
  let c := (s ^^^ (s >>> 320) ^^^ (s >>> 640) ^^^ (s >>> 960) ^^^ (s >>> 1280)) &&& M320
  let cm1 := ((c <<< 64) &&& M320) ||| (c >>> 256)          -- lane x holds C[x-1]
  let cp1 := ((c >>> 64) ||| (c <<< 256)) &&& M320          -- lane x holds C[x+1]
  let d := cm1 ^^^ (((cp1 <<< 1) &&& NOTLOW) ||| ((cp1 >>> 63) &&& LOW1))
  s ^^^ (d * REP5)

/-- ρ and π: every destination lane is a rotated source lane -/
def rhoPi (s : Nat) : Nat :=
  RHOPI.foldl (fun acc e =>
    acc ||| ((((((s >>> (64 * e.1)) &&& M64) * DBL) >>> (64 - e.2.1)) &&& M64) <<< (64 * e.2.2))) 0

/-- χ: A[x,y] = B[x,y] ⊕ (¬B[x+1,y] ∧ B[x+2,y]); `b1`, `b2` hold B[x+1,y], B[x+2,y] in lane (x,y) -/
def chi (b : Nat) : Nat :=
  let b1 := ((b >>> 64) &&& LANES0123) ||| ((b <<< 256) &&& LANE4)
  let b2 := ((b >>> 128) &&& LANES012) ||| ((b <<< 192) &&& LANES34)
  b ^^^ ((b1 ^^^ ALL) &&& b2)

/-- one round of Keccak-f[1600] on the packed state (ι = xor of the round constant into lane 0) -/
def round (s rc : Nat) : Nat := chi (rhoPi (theta s)) ^^^ rc

def keccakF (s : Nat) : Nat := RC.foldl round s

/-- 2^1088 - 1 : one rate block -/
def rateMask : Nat := 2 ^ (8 * rate) - 1

/-- absorb `n` rate blocks of the little-endian message integer `m`, lowest block first -/
def absorb (s m : Nat) : Nat → Nat
  | 0 => s
  | n + 1 => absorb (keccakF (s ^^^ (m &&& rateMask))) (m >>> (8 * rate)) n

/-- Keccak-256 of the `len`-byte message whose little-endian integer is `m` (`m < 256^len`); digest big-endian -/
def hashLE (m len : Nat) : Nat :=
  let nblocks := len / rate + 1
  let padded := (m % 2 ^ (8 * len)) ||| (0x01 <<< (8 * len)) ||| (0x80 <<< (8 * (nblocks * rate - 1)))
  byteSwap 32 (absorb 0 padded nblocks &&& (2 ^ 256 - 1))

def keccak256 (msg : List Nat) : Nat := hashLE (leOfBytes msg) msg.length

end Fast

/-! ## public interface (the packed version) -/

/-- Keccak-256 of a byte list (entries reduced mod 256), digest as a big-endian 256-bit number -/
def keccak256 (msg : List Nat) : Nat := Fast.keccak256 msg

def keccak256U8 (msg : List UInt8) : Nat := keccak256 (msg.map (·.toNat))

def keccak256BA (msg : ByteArray) : Nat := keccak256 (msg.data.toList.map (·.toNat))

/-- Keccak-256 of the `len`-byte big-endian encoding of `v` (truncated to `len` bytes): `keccak256(abi.encode(v))` for
`len = 32`, `keccak256(abi.encode(a, b))` for `len = 64`, `v = a·2^256 + b`.  No byte list is materialised. -/
def keccak256BE (len v : Nat) : Nat := Fast.hashLE (byteSwap len v) len

/-- UTF-8 bytes of a string as naturals -/
def utf8 (s : String) : List Nat := s.toUTF8.data.toList.map (·.toNat)

/-- the 4-byte function selector of a Solidity signature: the first four bytes of its Keccak-256 -/
def selector (sig : String) : Nat := keccak256 (utf8 sig) >>> 224

/-- digest as 32 bytes, most significant first -/
def digestBytes (msg : List Nat) : List Nat := bytesBE 32 (keccak256 msg)

end HalmosVerif.Spec.Keccak
