/-
Spec.Precedence — what "resolves by precedence" means, written from the documented behaviour of halmos' options
(README / `--help`: *command line > function annotation > contract annotation > config file > default; among several
settings coming from the same kind of source, the most recent one wins*), with no reference to how `config.py` finds it.

A stack is a list of settings, **newest first**.  Each setting says where it came from (`none` = it does not come from
any recognised source and therefore never counts) and which options it gives a value to.
-/
namespace HalmosVerif.Spec.Precedence

/-- the five places an option value can come from -/
inductive Origin
  | default | configFile | contractAnnotation | functionAnnotation | commandLine
  deriving DecidableEq, Repr

/-- command line > function annotation > contract annotation > config file > default -/
def Origin.rank : Origin → Nat
  | .default => 1 | .configFile => 2 | .contractAnnotation => 3 | .functionAnnotation => 4 | .commandLine => 5

/-- One group of settings: its origin and the value (if any) it gives to each option. -/
structure Setting (α : Type) where
  origin : Option Origin
  value : String → Option α

/-- rank of a setting for option `name`: 0 when it does not count (no origin, or `name` not set) -/
def Setting.rankFor {α} (s : Setting α) (name : String) : Nat :=
  match s.origin, s.value name with
  | some o, some _ => o.rank
  | _, _ => 0

/-- the highest rank among the settings that give `name` a value (0 if none does) -/
def maxRank {α} (name : String) (stack : List (Setting α)) : Nat :=
  (stack.map (·.rankFor name)).foldr max 0

/-- **Effective value**: the value given by the newest setting among those of maximal rank; nothing (and no origin) if no
setting counts. -/
def effective {α} (name : String) (stack : List (Setting α)) : Option α × Option Origin :=
  let r := maxRank name stack
  if r = 0 then (none, none)
  else match stack.find? (fun s => s.rankFor name = r) with
    | some s => (s.value name, s.origin)
    | none => (none, none)

/-- Which solver is run: the exact command if a non-empty `--solver-command` is in effect from an origin at least as strong
as the one `--solver` is in effect from; the named solver otherwise. -/
inductive SolverChoice (α : Type)
  | command (cmd : α)
  | solver (name : Option α)
  deriving DecidableEq, Repr

def originRank : Option Origin → Nat
  | some o => o.rank
  | none => 0

def solverChoice {α} (nonEmpty : α → Bool) (stack : List (Setting α)) : SolverChoice α :=
  let cmd := effective "solver_command" stack
  let sol := effective "solver" stack
  match cmd.1 with
  | some c => if nonEmpty c ∧ originRank cmd.2 ≥ originRank sol.2 then .command c else .solver sol.1
  | none => .solver sol.1

end HalmosVerif.Spec.Precedence
