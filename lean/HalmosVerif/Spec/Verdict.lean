/-
Spec.Verdict — the verdict of a symbolic test and the process exit code, in the words of property C05, with no
reference to how halmos computes them:

  "A test is reported PASS only if at least one path succeeded, every potential-violation query was answered unsat,
   no path got stuck and no solver call failed, crashed or timed out; otherwise the verdict is FAIL, ERROR or TIMEOUT
   in that precedence, and the process exit code is non-zero iff some selected test did not pass.  The verdict depends
   only on the collection of per-path outcomes, not on the order or timing in which solver processes finish."

The verdict is a function of the *list of per-path outcomes* alone (there is no schedule in this file), and it is
invariant under permutations of that list by construction (`any`/`all` only).

Core Lean only.
-/
namespace HalmosVerif.Spec.Verdict

/-- the final answer of the solver to the query of a path -/
inductive Answer where
  | cex       -- sat, with a model (a counterexample)
  | unsat     -- no input reaches the end of this path
  | timeout   -- the solver gave up: `unknown`, or it was stopped at the time limit
  | failed    -- the call failed or crashed: garbage / empty output, non-zero exit without an answer, could not be run
  deriving DecidableEq, Repr

/-- how one explored path ended -/
inductive Outcome where
  | success                    -- returned normally
  | revert                     -- reverted for a reason that is not an assertion violation
  | violation (a : Answer)     -- Panic / failed assertion / fail flag: a potential violation, with the solver's answer
  | stuck (a : Answer)         -- the engine could not continue; with the solver's answer on whether the path is feasible
  deriving DecidableEq, Repr

inductive Verdict where
  | pass | fail | error | timeout
  deriving DecidableEq, Repr

def Outcome.isSuccess : Outcome → Bool
  | .success => true | _ => false

/-- a counterexample to an assertion was found -/
def Outcome.isCex : Outcome → Bool
  | .violation .cex => true | _ => false

/-- something went wrong on this path: it is stuck (and not shown infeasible), or its solver call failed -/
def Outcome.isError : Outcome → Bool
  | .violation .failed => true
  | .stuck .unsat => false
  | .stuck _ => true
  | _ => false

/-- a solver call of this path timed out (a stuck path whose query timed out is already an error) -/
def Outcome.isTimeout : Outcome → Bool
  | .violation .timeout => true | _ => false

/-- every condition the property lists for PASS -/
def isPass (os : List Outcome) : Bool :=
  os.any Outcome.isSuccess && !os.any Outcome.isCex && !os.any Outcome.isError && !os.any Outcome.isTimeout

/-- FAIL, ERROR, TIMEOUT in that precedence; ERROR also when no path succeeded -/
def verdict (os : List Outcome) : Verdict :=
  if os.any Outcome.isCex then .fail
  else if os.any Outcome.isError || !os.any Outcome.isSuccess then .error
  else if os.any Outcome.isTimeout then .timeout
  else .pass

/-- exit code of the process from the selected tests (`none`: selected but never run, e.g. its setUp failed);
an empty selection is an error by design -/
def exitCode (tests : List (Option Verdict)) : Nat :=
  if tests.isEmpty then 1 else if tests.all (fun t => t == some .pass) then 0 else 1

end HalmosVerif.Spec.Verdict
