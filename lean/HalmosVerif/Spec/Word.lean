/-
Spec.Word — the EVM word instructions, written from the Yellow Paper (Appendix H) / execution-specs,
with no reference to halmos. Words are natural numbers below `2^256`; every function is total and
returns a number below `2^256` for arguments below `2^256`.

Width-generic helpers (`toInt`, `ofInt`) are given a width parameter because the same definitions are
used to state what the SMT-LIB bit-vector operators mean (Model.Term) at widths 8, 264 and 512.
-/
namespace HalmosVerif.Spec

/-- two's complement reading of an `n`-bit word -/
def toInt (n : Nat) (x : Nat) : Int :=
  if x % 2 ^ n < 2 ^ (n - 1) then (x % 2 ^ n : Nat) else ((x % 2 ^ n : Nat) : Int) - (2 ^ n : Nat)

/-- the `n`-bit word congruent to `i` -/
def ofInt (n : Nat) (i : Int) : Nat := (i % ((2 ^ n : Nat) : Int)).toNat

namespace Word

def W : Nat := 2 ^ 256

def add (a b : Nat) : Nat := (a + b) % W
def mul (a b : Nat) : Nat := (a * b) % W
def sub (a b : Nat) : Nat := (a + (W - b % W)) % W
def div (a b : Nat) : Nat := if b = 0 then 0 else a / b
def mod (a b : Nat) : Nat := if b = 0 then 0 else a % b

/-- SDIV: truncated signed division, by zero = 0, `-2^255 / -1 = -2^255` (wraps) -/
def sdiv (a b : Nat) : Nat :=
  if b = 0 then 0 else ofInt 256 (Int.tdiv (toInt 256 a) (toInt 256 b))

/-- SMOD: sign follows the dividend, by zero = 0 -/
def smod (a b : Nat) : Nat :=
  if b = 0 then 0 else ofInt 256 (Int.tmod (toInt 256 a) (toInt 256 b))

def addmod (a b n : Nat) : Nat := if n = 0 then 0 else (a + b) % n
def mulmod (a b n : Nat) : Nat := if n = 0 then 0 else (a * b) % n
def exp (a b : Nat) : Nat := (a ^ b) % W

/-- SIGNEXTEND b x: extend the sign bit of the `(b+1)`-byte low part of `x`; `b ≥ 31` leaves `x` -/
def signextend (b x : Nat) : Nat :=
  if b ≥ 31 then x
  else
    let bits := 8 * (b + 1)
    ofInt 256 (toInt bits (x % 2 ^ bits))

def lt (a b : Nat) : Nat := if a < b then 1 else 0
def gt (a b : Nat) : Nat := if a > b then 1 else 0
def slt (a b : Nat) : Nat := if toInt 256 a < toInt 256 b then 1 else 0
def sgt (a b : Nat) : Nat := if toInt 256 a > toInt 256 b then 1 else 0
def eq (a b : Nat) : Nat := if a = b then 1 else 0
def iszero (a : Nat) : Nat := if a = 0 then 1 else 0
def and (a b : Nat) : Nat := a &&& b
def or (a b : Nat) : Nat := a ||| b
def xor (a b : Nat) : Nat := a ^^^ b
def not (a : Nat) : Nat := W - 1 - a

/-- BYTE i x: the `i`-th byte of `x`, byte 0 the most significant; 0 for `i ≥ 32` -/
def byte (i x : Nat) : Nat := if i ≥ 32 then 0 else (x / 2 ^ (8 * (31 - i))) % 256

def shl (shift x : Nat) : Nat := if shift ≥ 256 then 0 else (x * 2 ^ shift) % W
def shr (shift x : Nat) : Nat := if shift ≥ 256 then 0 else x / 2 ^ shift

/-- SAR: arithmetic shift right; shifts ≥ 256 give 0 or 2^256-1 according to the sign -/
def sar (shift x : Nat) : Nat :=
  if shift ≥ 256 then (if toInt 256 x < 0 then W - 1 else 0)
  else ofInt 256 (toInt 256 x / ((2 ^ shift : Nat) : Int))

end Word
end HalmosVerif.Spec
