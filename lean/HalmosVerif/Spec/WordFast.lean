/-
Spec.WordFast — makes `Word.exp` executable for 256-bit exponents: compiled code uses square-and-multiply,
justified by the kernel-checked equation `exp_eq_fast` (`@[csimp]`), so the *definition* `a ^ b % 2^256`
stays the specification. Core Lean only.
-/
import HalmosVerif.Spec.Word

namespace HalmosVerif.Spec

/-- modular exponentiation by squaring -/
def powModS (b e m : Nat) : Nat :=
  if h : e = 0 then 1 % m
  else
    let half := powModS ((b * b) % m) (e / 2) m
    if e % 2 = 1 then (b * half) % m else half
termination_by e
decreasing_by omega

theorem powModS_eq (b e m : Nat) : powModS b e m = b ^ e % m := by
  induction e using Nat.strongRecOn generalizing b with
  | _ e ih =>
    unfold powModS
    by_cases h : e = 0
    · simp [h]
    · simp only [h, ↓reduceDIte]
      have hlt : e / 2 < e := by omega
      have ihh := ih (e / 2) hlt ((b * b) % m)
      rw [ihh, ← Nat.pow_mod]
      have hsq : (b * b) ^ (e / 2) = b ^ (2 * (e / 2)) := by
        rw [Nat.pow_mul, Nat.pow_two]
      by_cases hodd : e % 2 = 1
      · simp only [hodd, ↓reduceIte]
        have he : e = 2 * (e / 2) + 1 := by omega
        rw [Nat.mul_mod, Nat.mod_mod, ← Nat.mul_mod, hsq]
        conv => rhs; rw [he, Nat.pow_succ]
        rw [Nat.mul_comm]
      · simp only [hodd, ↓reduceIte]
        have he : e = 2 * (e / 2) := by omega
        rw [hsq]
        conv => rhs; rw [he]

namespace Word

def expFast (a b : Nat) : Nat := powModS a b W

@[csimp] theorem exp_eq_fast : @exp = @expFast := by
  funext a b
  simp [exp, expFast, powModS_eq]

end Word
end HalmosVerif.Spec
