#!/bin/bash
# Run once after a fresh restore (offline): regenerate the Gen/*.lean tables from /repo and build every Lean module.
set -e
here="$(cd "$(dirname "$0")" && pwd)"
cd "$here"
/venv/bin/python tools/setup_all.py 2>&1 | grep -v '^WARNING: conda' || true
cd lean
flock .lake-verif.lock lake build 2>&1 | grep -v '^WARNING: conda' | tail -40
test "${PIPESTATUS[0]}" = 0
