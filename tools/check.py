import argparse
import os
import sys
from pathlib import Path

sys.path.insert(0, str(Path(__file__).resolve().parent))
from vlib.runner import run_check  # noqa: E402


def main():
    ap = argparse.ArgumentParser()
    ap.add_argument("pid")
    ap.add_argument("--tier", default=os.environ.get("VERIF_TIER", "quick"), choices=["quick", "thorough"])
    ap.add_argument("--replay")
    a = ap.parse_args()
    seed = int(os.environ.get("VERIF_SEED", "0") or 0)
    sys.exit(run_check(a.pid.upper(), a.tier, seed, a.replay))


main()
