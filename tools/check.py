import argparse
import os
import sys
from pathlib import Path

sys.path.insert(0, str(Path(__file__).resolve().parent))
from vlib.runner import run_check  # noqa: E402


def main():
    ap = argparse.ArgumentParser()
    ap.add_argument("pid")
    ap.add_argument("--tier", default=os.environ.get("VERIF_TIER", "quick"), choices=["quick", "thorough"])
    ap.add_argument("--replay")
    a = ap.parse_args()
    seed = int(os.environ.get("VERIF_SEED", "0") or 0)

    # supervisor: the check proper runs in a child interpreter. A child killed by a signal (a native crash inside z3 or
    # another C extension: SIGSEGV, SIGABRT, SIGBUS) has produced no verdict; it is re-run (at most twice) and its partial
    # output is discarded. Exit status 2 if it keeps dying. Everything else (exit 0/1/2, output) is passed through as is.
    if not os.environ.get("VERIF_CHILD"):
        import signal
        import subprocess

        env = dict(os.environ, VERIF_CHILD="1")
        child = {"p": None}

        def _forward(signum, frame):
            if child["p"] is not None and child["p"].poll() is None:
                child["p"].terminate()
            os._exit(2)

        signal.signal(signal.SIGTERM, _forward)
        signal.signal(signal.SIGINT, _forward)
        for attempt in range(3):
            child["p"] = subprocess.Popen([sys.executable, *sys.argv], env=env, stdout=subprocess.PIPE, text=True)
            out, _ = child["p"].communicate()
            rc = child["p"].returncode
            if rc >= 0:
                sys.stdout.write(out)
                sys.stdout.flush()
                os._exit(rc)
            sys.stderr.write(f"check worker for {a.pid.upper()} died with signal {-rc} (attempt {attempt + 1}); no verdict from that attempt, re-running\n")
        print(f"TIMEOUT property={a.pid.upper()} (worker died with a signal three times)", flush=True)
        os._exit(2)

    # safety net: a defective tree must not be able to hang the check (a hang in the code under test is reported by the
    # property's own harness; this cap only guarantees termination). Exit status 2 = timeout, no verdict.
    import threading

    cap = float(os.environ.get("VERIF_WALL_CAP_S", "0") or 0) or (2700 if a.tier == "quick" else 3 * 3600)

    def _expire():
        print(f"TIMEOUT property={a.pid.upper()} (wall cap {int(cap)} s)", flush=True)
        try:
            import psutil

            for c in psutil.Process().children(recursive=True):
                try:
                    c.kill()
                except Exception:  # noqa: BLE001
                    pass
        finally:
            os._exit(2)

    t = threading.Timer(cap, _expire)
    t.daemon = True
    t.start()
    rc = run_check(a.pid.upper(), a.tier, seed, a.replay)
    t.cancel()
    sys.stdout.flush()
    sys.stderr.flush()
    # leave without joining non-daemon threads the code under test may have left blocked
    os._exit(rc)


main()
