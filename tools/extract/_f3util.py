"""Helpers shared by the table extractors selectors.py / hashtables.py (parse with `ast`/`tokenize`, fail closed)."""
from __future__ import annotations

import ast
import io
import sys
import tokenize
from pathlib import Path

sys.path.insert(0, str(Path(__file__).resolve().parents[1]))

from vlib.runner import LEAN, REPO  # noqa: E402

GEN = LEAN / "HalmosVerif" / "Gen"
MAX_CHUNK = 64


class ExtractError(Exception):
    pass


def src_path(name: str) -> Path:
    return Path(REPO) / "src" / "halmos" / name


def parse(name: str):
    p = src_path(name)
    text = p.read_text()
    return text, ast.parse(text, filename=str(p))


def comments_by_line(text: str) -> dict[int, str]:
    """line number -> comment text (without the leading '#', stripped)"""
    out = {}
    for tok in tokenize.generate_tokens(io.StringIO(text).readline):
        if tok.type == tokenize.COMMENT:
            out[tok.start[0]] = tok.string[1:].strip()
    return out


def comment_only_lines(text: str) -> set[int]:
    """lines that hold nothing but a comment"""
    out = set()
    for i, line in enumerate(text.splitlines(), 1):
        if line.strip().startswith("#"):
            out.add(i)
    return out


def int_const(node, what: str) -> int:
    if isinstance(node, ast.Constant) and type(node.value) is int:
        return node.value
    raise ExtractError(f"{what}: expected an integer literal, got {ast.dump(node)[:120]}")


def str_const(node, what: str) -> str:
    if isinstance(node, ast.Constant) and type(node.value) is str:
        return node.value
    raise ExtractError(f"{what}: expected a string literal, got {ast.dump(node)[:120]}")


def find_assign(body, name: str):
    """the value node of the unique `name = …` / `name: T = …` in a statement list"""
    found = []
    for st in body:
        if isinstance(st, ast.Assign) and len(st.targets) == 1 and isinstance(st.targets[0], ast.Name) \
                and st.targets[0].id == name:
            found.append(st)
        elif isinstance(st, ast.AnnAssign) and isinstance(st.target, ast.Name) and st.target.id == name \
                and st.value is not None:
            found.append(st)
    if len(found) != 1:
        raise ExtractError(f"expected exactly one assignment to {name}, found {len(found)}")
    return found[0]


def find_class(tree, name: str) -> ast.ClassDef:
    found = [st for st in tree.body if isinstance(st, ast.ClassDef) and st.name == name]
    if len(found) != 1:
        raise ExtractError(f"expected exactly one class {name}, found {len(found)}")
    return found[0]


def find_func(body, name: str) -> ast.FunctionDef:
    found = [st for st in body if isinstance(st, ast.FunctionDef) and st.name == name]
    if len(found) != 1:
        raise ExtractError(f"expected exactly one def {name}, found {len(found)}")
    return found[0]


def lean_str(s: str) -> str:
    out = []
    for ch in s:
        if ch == "\\":
            out.append("\\\\")
        elif ch == '"':
            out.append('\\"')
        elif ch == "\n":
            out.append("\\n")
        elif ch == "\t":
            out.append("\\t")
        elif ord(ch) < 32 or ord(ch) == 127:
            out.append(f"\\x{ord(ch):02x}")
        else:
            out.append(ch)
    return '"' + "".join(out) + '"'


def chunks(entries: list, nchunks: int, what: str) -> list[list]:
    """exactly `nchunks` chunks (the theorem files name them), evenly filled, each ≤ MAX_CHUNK; fail closed on overflow"""
    if len(entries) > nchunks * MAX_CHUNK:
        raise ExtractError(
            f"{what}: {len(entries)} entries do not fit {nchunks} chunks of {MAX_CHUNK}; add chunks to the extractor "
            f"and to the Props table modules"
        )
    base, extra = divmod(len(entries), nchunks)
    out, i = [], 0
    for c in range(nchunks):
        n = base + (1 if c < extra else 0)
        out.append(entries[i:i + n])
        i += n
    assert i == len(entries)
    return out


def write_if_changed(path: Path, text: str) -> bool:
    """keep mtime/content stable when nothing changed so lake does not rebuild the kernel evaluations"""
    path.parent.mkdir(parents=True, exist_ok=True)
    if path.exists() and path.read_text() == text:
        return False
    tmp = path.with_suffix(path.suffix + ".tmp")
    tmp.write_text(text)
    tmp.replace(path)
    return True
