"""Table extractor for C13: what `mk_assert_handler` derives from each signature of `assert_cheatcode_handler`.

Writes lean/HalmosVerif/Gen/AssertTable.lean:

  entries      for every key of `assert_cheatcode_handler` (assertions.py): selector, signature and the derivation
               operator kind (True/False/Eq/NotEq/Lt/Gt/Le/Ge), number of operands, operand type class, array flag,
               trailing `string` message flag, decimal-variant flag, and the `bop` string handed to `vm_assert_binary`.
               The derivation is RE-IMPLEMENTED here over the signature text (`derive`) with a fixed vocabulary, and
               cross-checked against the constants that the source of `mk_assert_handler` really uses (its regex, the
               lists ["True","False"] / ["Eq","NotEq"], the `typ == "uint256"` sign decision, "U"/"S", the arities 2/1),
               read from the source with `ast`.  Anything outside the vocabulary raises (fail closed).
  condOps      the `bop -> z3 operator` chain of `mk_cond` (ULT/UGT/ULE/UGE and Python's signed `<`, `>`, `<=`, `>=`), with
               the operand order checked to be (v1, v2).
  offsets      the literal calldata offsets / argument indices used by `vm_assert_binary` / `vm_assert_unary`.
  sourcePins   sha256 of the normalised `ast.unparse` text of every function / branch that Model/Assertions.lean mirrors by hand
               (assertions.py, the argument extractors of utils.py, the vm.assert*/vm.assume branches of
               `hevm_cheat_code.handle`, the FailCheatcode sites of sevm.py, `is_global_fail_set`).  They are emitted as
               found; the theorem `C13.source_pins_ok` (Props/C13Derive.lean) compares them with the values the model was
               written against, so a model that no longer mirrors the source has a failing proof obligation — while the
               Model / Driver still build, which lets the harness search for a concrete failing input.

Source text only (ast); halmos is never imported.
"""
from __future__ import annotations

import ast
import hashlib

from extract._f3util import (
    GEN,
    ExtractError,
    find_assign,
    find_class,
    find_func,
    int_const,
    lean_str,
    parse,
    str_const,
    write_if_changed,
)
from extract.selectors import extract_assert

UNARY_OPS = ["True", "False"]
EQ_OPS = ["Eq", "NotEq"]
ORDER_OPS = ["Lt", "Gt", "Le", "Ge"]
BASE_TYPES = ["uint256", "int256", "bool", "address", "bytes32", "bytes", "string"]
EXPECTED_REGEX = r"assert([^(]+)\(([^)]+)\)"

# the z3py operator each mk_cond branch must use: name of the called function, or the Python comparison operator
EXPECTED_COND_OPS = [
    ("ULt", "ULT"), ("UGt", "UGT"), ("ULe", "ULE"), ("UGe", "UGE"),
    ("SLt", "<"), ("SGt", ">"), ("SLe", "<="), ("SGe", ">="),
]



def pin(node) -> str:
    # ast.unparse: comments and layout are dropped, the text is stable across CPython versions (ast.dump is not)
    if isinstance(node, list):
        text = "\n".join(ast.unparse(n) for n in node)
    else:
        text = ast.unparse(node)
    return hashlib.sha256(text.encode()).hexdigest()[:16]


# ------------------------------------------------------------------------------------------ derivation over the text

def derive(sig: str) -> dict:
    """What `mk_assert_handler(sig)` decides, re-implemented over the signature text with a closed vocabulary."""
    if not sig.startswith("assert") or not sig.endswith(")") or sig.count("(") != 1 or sig.count(")") != 1:
        raise ExtractError(f"{sig!r}: not of the form assert<Op>(<params>)")
    operator, rest = sig[len("assert"):].split("(")
    params = rest[:-1].split(",")
    if not operator or any(not p for p in params):
        raise ExtractError(f"{sig!r}: empty operator or parameter")
    decimal = operator.endswith("Decimal")
    if decimal:
        raise ExtractError(f"{sig!r}: decimal variants are not handled by mk_assert_handler (bop would be unknown to mk_cond)")
    if operator in UNARY_OPS:
        if params[0] != "bool" or params[1:] not in ([], ["string"]):
            raise ExtractError(f"{sig!r}: unary assertion must be (bool) or (bool,string)")
        return dict(op=operator, operands=1, ty="bool", is_array=False, has_msg=len(params) > 1, bop="", decimal=False)
    if operator not in EQ_OPS + ORDER_OPS:
        raise ExtractError(f"{sig!r}: unknown operator {operator!r}")
    if len(params) not in (2, 3) or params[0] != params[1] or (len(params) == 3 and params[2] != "string"):
        raise ExtractError(f"{sig!r}: binary assertion must be (T,T) or (T,T,string)")
    typ = params[0]
    is_array = typ.endswith("[]")
    base = typ[:-2] if is_array else typ
    if base not in BASE_TYPES:
        raise ExtractError(f"{sig!r}: operand type {typ!r} outside the vocabulary")
    if operator in EQ_OPS:
        bop = operator
    else:
        if typ not in ("uint256", "int256"):
            raise ExtractError(f"{sig!r}: order comparison on {typ!r} has no Forge-std meaning")
        bop = ("U" if typ == "uint256" else "S") + operator
    return dict(op=operator, operands=2, ty=base, is_array=is_array, has_msg=len(params) > 2, bop=bop, decimal=False)


# ------------------------------------------------------------------------------------------ reading the source

def _consts(node, typ):
    return [n.value for n in ast.walk(node) if isinstance(n, ast.Constant) and type(n.value) is typ]


def check_mk_assert_handler(fn: ast.FunctionDef):
    """the constants that drive the derivation in the source must be the ones `derive` uses"""
    strs = _consts(fn, str)
    lists = [[e.value for e in n.elts] for n in ast.walk(fn)
             if isinstance(n, ast.List) and all(isinstance(e, ast.Constant) for e in n.elts)]
    if EXPECTED_REGEX not in strs:
        raise ExtractError("mk_assert_handler: signature regex changed")
    if UNARY_OPS not in lists or EQ_OPS not in lists:
        raise ExtractError(f"mk_assert_handler: operator lists changed: {lists}")
    ifexps = [n for n in ast.walk(fn) if isinstance(n, ast.IfExp)]
    sign = [n for n in ifexps if isinstance(n.body, ast.Constant) and n.body.value == "U"]
    if len(sign) != 1:
        raise ExtractError("mk_assert_handler: sign decision not found")
    s = sign[0]
    ok = (isinstance(s.test, ast.Compare) and isinstance(s.test.left, ast.Name) and s.test.left.id == "typ"
          and len(s.test.ops) == 1 and isinstance(s.test.ops[0], ast.Eq)
          and isinstance(s.test.comparators[0], ast.Constant) and s.test.comparators[0].value == "uint256"
          and isinstance(s.orelse, ast.Constant) and s.orelse.value == "S")
    if not ok:
        raise ExtractError('mk_assert_handler: sign decision is not `"U" if typ == "uint256" else "S"`')
    arity = [n for n in ifexps if isinstance(n.body, ast.Constant) and type(n.body.value) is int]
    if len(arity) != 1 or arity[0].body.value != 2 or not isinstance(arity[0].orelse, ast.Constant) \
            or arity[0].orelse.value != 1 or not (isinstance(arity[0].test, ast.Name) and arity[0].test.id == "is_binary"):
        raise ExtractError("mk_assert_handler: arity decision is not `2 if is_binary else 1`")
    # operator == "True" decides the expected truth value of the unary handler
    cmps = [n for n in ast.walk(fn) if isinstance(n, ast.Compare) and isinstance(n.left, ast.Name) and n.left.id == "operator"
            and isinstance(n.ops[0], ast.Eq)]
    if [c.comparators[0].value for c in cmps if isinstance(c.comparators[0], ast.Constant)] != ["True"]:
        raise ExtractError('mk_assert_handler: expected value of the unary handler is not `operator == "True"`')
    # params[0] is the operand type
    subs = [n for n in ast.walk(fn) if isinstance(n, ast.Subscript) and isinstance(n.value, ast.Name) and n.value.id == "params"]
    if [int_const(n.slice, "params index") for n in subs] != [0]:
        raise ExtractError("mk_assert_handler: operand type is not params[0]")


def extract_cond_ops(fn: ast.FunctionDef):
    """the trailing `if bop == "ULt": return ULT(v1, v2) elif …` chain of mk_cond"""
    chain = [st for st in fn.body if isinstance(st, ast.If)][-1]
    out = []
    node = chain
    while True:
        t = node.test
        if not (isinstance(t, ast.Compare) and isinstance(t.left, ast.Name) and t.left.id == "bop" and len(t.ops) == 1
                and isinstance(t.ops[0], ast.Eq) and len(node.body) == 1 and isinstance(node.body[0], ast.Return)):
            raise ExtractError("mk_cond: comparison chain has an unexpected shape")
        bop = str_const(t.comparators[0], "mk_cond chain")
        r = node.body[0].value
        if isinstance(r, ast.Call) and isinstance(r.func, ast.Name) and len(r.args) == 2 and not r.keywords:
            op, a, b = r.func.id, r.args[0], r.args[1]
        elif isinstance(r, ast.Compare) and len(r.ops) == 1:
            sym = {ast.Lt: "<", ast.Gt: ">", ast.LtE: "<=", ast.GtE: ">=", ast.Eq: "==", ast.NotEq: "!="}.get(type(r.ops[0]))
            if sym is None:
                raise ExtractError("mk_cond: unknown comparison operator")
            op, a, b = sym, r.left, r.comparators[0]
        else:
            raise ExtractError(f"mk_cond: branch {bop} does not return a comparison")
        if not (isinstance(a, ast.Name) and a.id == "v1" and isinstance(b, ast.Name) and b.id == "v2"):
            raise ExtractError(f"mk_cond: branch {bop}: operands are not (v1, v2)")
        out.append((bop, op))
        if len(node.orelse) == 1 and isinstance(node.orelse[0], ast.If):
            node = node.orelse[0]
        elif len(node.orelse) == 1 and isinstance(node.orelse[0], ast.Raise):
            break
        else:
            raise ExtractError("mk_cond: comparison chain does not end in `raise`")
    # emitted as found: `C13.condOps_meaning` (Lean) states what the chain must be (EXPECTED_COND_OPS here is documentation)
    return out


def extract_offsets(binary: ast.FunctionDef, unary: ast.FunctionDef):
    """literal offsets of `extract_bytes(arg, 4, 32)` / `extract_bytes(arg, 36, 32)` / argument indices"""
    calls = [n for n in ast.walk(binary) if isinstance(n, ast.Call) and isinstance(n.func, ast.Name)]
    eb = [[int_const(a, "extract_bytes arg") for a in c.args[1:]] for c in calls if c.func.id == "extract_bytes"]
    if eb != [[4, 32], [36, 32]]:
        raise ExtractError(f"vm_assert_binary: static operand extraction changed: {eb}")
    dyn = [(c.func.id, int_const(c.args[1], "arg idx")) for c in calls
           if c.func.id in ("extract_bytes_argument", "extract_bytes32_array_argument", "extract_string_argument")]
    want = [("extract_string_argument", 2), ("extract_bytes_argument", 0), ("extract_bytes_argument", 1),
            ("extract_string_argument", 2), ("extract_bytes32_array_argument", 0), ("extract_bytes32_array_argument", 1),
            ("extract_string_argument", 2)]
    if sorted(dyn) != sorted(want):
        raise ExtractError(f"vm_assert_binary: dynamic operand extraction changed: {dyn}")
    ucalls = [n for n in ast.walk(unary) if isinstance(n, ast.Call)]
    gw = [int_const(c.args[0], "get_word") for c in ucalls if isinstance(c.func, ast.Attribute) and c.func.attr == "get_word"]
    um = [int_const(c.args[1], "msg idx") for c in ucalls if isinstance(c.func, ast.Name) and c.func.id == "extract_string_argument"]
    if gw != [4] or um != [1]:
        raise ExtractError(f"vm_assert_unary: operand extraction changed: get_word{gw} msg{um}")
    return dict(off1=4, off2=36, word=32, unaryOff=4, msgIdxBinary=2, msgIdxUnary=1)


def _method(cls: ast.ClassDef, name: str) -> ast.FunctionDef:
    return find_func(cls.body, name)


def _nested_func(fn: ast.FunctionDef, name: str) -> ast.FunctionDef:
    found = [n for n in ast.walk(fn) if isinstance(n, ast.FunctionDef) and n.name == name]
    if len(found) != 1:
        raise ExtractError(f"expected one nested def {name} in {fn.name}, found {len(found)}")
    return found[0]


def source_pins():
    pins = {}
    _, a = parse("assertions.py")
    for f in ("is_empty_bytes", "mk_cond", "vm_assert_binary", "vm_assert_unary", "mk_assert_handler"):
        pins[f"assertions.{f}"] = pin(find_func(a.body, f))
    _, u = parse("utils.py")
    for f in ("extract_bytes32_array_argument", "extract_bytes_argument", "extract_string_argument", "extract_bytes",
              "extract_word", "bytes_to_bv_value", "bv_value_to_bytes", "int_of", "unbox_int", "test"):
        pins[f"utils.{f}"] = pin(find_func(u.body, f))
    _, c = parse("cheatcodes.py")
    handle = _method(find_class(c, "hevm_cheat_code"), "handle")
    ifs = [st for st in handle.body if isinstance(st, ast.If)]
    if not ifs or handle.body.index(ifs[0]) != 2:
        raise ExtractError("hevm_cheat_code.handle: expected `funsig = …; ret = ByteVec(); if funsig in assert_cheatcode_handler`")
    top = ifs[0]
    pins["cheatcodes.handle.prologue"] = pin(handle.body[:2])
    pins["cheatcodes.handle.assert_branch"] = pin([top.test] + top.body)
    if not (len(top.orelse) == 1 and isinstance(top.orelse[0], ast.If)):
        raise ExtractError("hevm_cheat_code.handle: vm.assume branch not found after the assert branch")
    el = top.orelse[0]
    pins["cheatcodes.handle.assume_branch"] = pin([el.test] + el.body)
    _, s = parse("sevm.py")
    sevm = find_class(s, "SEVM")
    call = _method(sevm, "call")
    cu = _nested_func(call, "call_unknown")
    hb = [n for n in ast.walk(cu) if isinstance(n, ast.If) and isinstance(n.test, ast.Compare)
          and isinstance(n.test.comparators[0], ast.Attribute) and isinstance(n.test.comparators[0].value, ast.Name)
          and n.test.comparators[0].value.id == "hevm_cheat_code"]
    if len(hb) != 1:
        raise ExtractError("SEVM.call: hevm_cheat_code branch not found")
    # the branch body and everything call_unknown does after the dispatch chain (push exit code, returndata, advance, push)
    chain_top = [st for st in cu.body if isinstance(st, ast.If)][0]
    after = cu.body[cu.body.index(chain_top) + 1:]
    pins["sevm.call.hevm_branch"] = pin([hb[0].test] + hb[0].body + after)
    run = _method(sevm, "run")
    loops = [n for n in run.body if isinstance(n, ast.While)]
    if len(loops) != 1 or not isinstance(loops[0].body[0], ast.Try):
        raise ExtractError("SEVM.run: main loop not found")
    tr = loops[0].body[0]
    delayed = [st for st in tr.body if isinstance(st, ast.If) and "PathEndingException" in ast.dump(st.test)]
    if len(delayed) != 1:
        raise ExtractError("SEVM.run: delayed PathEndingException re-raise not found")
    pins["sevm.run.delayed_reraise"] = pin(delayed[0])
    for h in tr.handlers:
        if isinstance(h.type, ast.Name) and h.type.id in ("FailCheatcode", "InfeasiblePath"):
            pins[f"sevm.run.except_{h.type.id}"] = pin(h)
    ex = find_class(s, "Exec")
    pins["sevm.Exec.halt"] = pin(_method(ex, "halt"))
    pins["sevm.Exec.is_halted"] = pin(_method(ex, "is_halted"))
    path = find_class(s, "Path")
    pins["sevm.Path.append"] = pin(_method(path, "append"))
    pins["sevm.Path.branch"] = pin(_method(path, "branch"))
    pins["sevm.create_branch"] = pin(_method(sevm, "create_branch"))
    _, m = parse("__main__.py")
    pins["main.is_global_fail_set"] = pin(find_func(m.body, "is_global_fail_set"))
    return pins


def exceptions_hierarchy():
    """FailCheatcode / InfeasiblePath must be PathEndingException subclasses that are NOT HalmosException / EvmException
    (otherwise `run` would route them through finalize and the callbacks)"""
    _, e = parse("exceptions.py")
    bases = {}
    for st in e.body:
        if isinstance(st, ast.ClassDef):
            bases[st.name] = [b.id for b in st.bases if isinstance(b, ast.Name)]

    def ancestors(n, seen=()):
        out = []
        for b in bases.get(n, []):
            out += [b] + ancestors(b)
        return out

    for cls in ("FailCheatcode", "InfeasiblePath"):
        anc = ancestors(cls)
        if "PathEndingException" not in anc or "HalmosException" in anc or "EvmException" in anc:
            raise ExtractError(f"exceptions.{cls}: unexpected base classes {anc}")


def harvest_literals():
    """integer literals of the functions under test (for the harness' value pools)"""
    lits = set()
    _, a = parse("assertions.py")
    for f in ("mk_cond", "vm_assert_binary", "vm_assert_unary", "mk_assert_handler"):
        lits.update(_consts(find_func(a.body, f), int))
    _, u = parse("utils.py")
    for f in ("extract_bytes32_array_argument", "extract_bytes_argument", "extract_bytes", "extract_word"):
        lits.update(_consts(find_func(u.body, f), int))
    _, c = parse("cheatcodes.py")
    handle = _method(find_class(c, "hevm_cheat_code"), "handle")
    top = [st for st in handle.body if isinstance(st, ast.If)][0]
    for st in top.body + (top.orelse[0].body if top.orelse and isinstance(top.orelse[0], ast.If) else []):
        lits.update(_consts(st, int))
    return sorted(lits)


# ------------------------------------------------------------------------------------------ rendering

def render() -> str:
    table = extract_assert()
    _, tree = parse("assertions.py")
    # Shape checks of the hand-mirrored code are NOT fatal: a failed check is emitted as `sourceProblems` (the theorem
    # `C13.source_shape_ok` then fails) while the generated file stays buildable with the values the model was written
    # against, so that the Model / Driver keep working and the harness can look for a concrete failing input.
    problems = []

    def guard(what, fn, default):
        try:
            return fn()
        except Exception as e:  # noqa: BLE001
            problems.append(f"{what}: {type(e).__name__}: {e}"[:300])
            return default

    guard("mk_assert_handler", lambda: check_mk_assert_handler(find_func(tree.body, "mk_assert_handler")), None)
    cond_ops = guard("mk_cond", lambda: extract_cond_ops(find_func(tree.body, "mk_cond")), list(EXPECTED_COND_OPS))
    offs = guard("vm_assert_binary/unary", lambda: extract_offsets(find_func(tree.body, "vm_assert_binary"), find_func(tree.body, "vm_assert_unary")),
                 dict(off1=4, off2=36, word=32, unaryOff=4, msgIdxBinary=2, msgIdxUnary=1))
    guard("exceptions", exceptions_hierarchy, None)
    pins = guard("pins", source_pins, {})
    _, ctree = parse("cheatcodes.py")
    assume_sig = guard("assume_sig", lambda: int_const(find_assign(find_class(ctree, "hevm_cheat_code").body, "assume_sig").value, "assume_sig"),
                       0x4C63E562)

    def b(x):
        return "true" if x else "false"

    L = [
        "/- GENERATED by tools/extract/assert_table.py from /repo/src/halmos/assertions.py (+ utils.py, cheatcodes.py, sevm.py,",
        "   __main__.py pins) — do not edit. -/",
        "namespace HalmosVerif.Gen.AssertTable\n",
        "/-- one key of `assert_cheatcode_handler` with what `mk_assert_handler` derives from its signature -/",
        "structure Entry where",
        "  selector : Nat",
        "  signature : String",
        "  op : String          -- True | False | Eq | NotEq | Lt | Gt | Le | Ge",
        "  operands : Nat",
        "  ty : String          -- uint256 | int256 | bool | address | bytes32 | bytes | string (element type for arrays)",
        "  isArray : Bool",
        "  hasMsg : Bool        -- trailing `string` message parameter",
        "  decimal : Bool       -- a …Decimal variant (none is handled by mk_assert_handler)",
        "  bop : String         -- the operator string handed to vm_assert_binary / mk_cond (\"\" for unary)",
        "  deriving Repr, DecidableEq, Inhabited\n",
        "def entries : List Entry := [",
    ]
    rows = []
    for sel, sig in table:
        d = derive(sig)
        rows.append(f"  ⟨0x{sel:08X}, {lean_str(sig)}, {lean_str(d['op'])}, {d['operands']}, {lean_str(d['ty'])}, "
                    f"{b(d['is_array'])}, {b(d['has_msg'])}, {b(d['decimal'])}, {lean_str(d['bop'])}⟩")
    L.append(",\n".join(rows))
    L.append("]\n")
    L.append(f"def entriesCount : Nat := {len(table)}\n")
    L.append("/-- the comparison chain of `mk_cond`: bop ↦ z3py operator applied to (v1, v2) -/")
    L.append("def condOps : List (String × String) := [" + ", ".join(f"({lean_str(a)}, {lean_str(o)})" for a, o in cond_ops) + "]\n")
    L.append("/-- constants of `mk_assert_handler` read from its source -/")
    L.append("def unaryOps : List String := [" + ", ".join(lean_str(x) for x in UNARY_OPS) + "]")
    L.append("def eqOps : List String := [" + ", ".join(lean_str(x) for x in EQ_OPS) + "]")
    L.append('def unsignedTy : String := "uint256"')
    L.append('def signPrefixUnsigned : String := "U"')
    L.append('def signPrefixSigned : String := "S"')
    L.append("def arityBinary : Nat := 2")
    L.append("def arityUnary : Nat := 1\n")
    L.append("/-- literal offsets / argument indices of `vm_assert_binary`, `vm_assert_unary` -/")
    for k, v in offs.items():
        L.append(f"def {k} : Nat := {v}")
    L.append("")
    L.append(f"/-- `hevm_cheat_code.assume_sig` -/\ndef assumeSelector : Nat := 0x{assume_sig:08X}\n")
    L.append("/-- shape checks of the mirrored source that failed in the extractor (must be empty: `C13.source_shape_ok`) -/")
    L.append("def sourceProblems : List String := [" + ", ".join(lean_str(x) for x in problems) + "]\n")
    L.append("/-- sha256 prefixes of the normalised ast of the code mirrored by Model/Assertions.lean -/")
    L.append("def sourcePins : List (String × String) := [")
    L.append(",\n".join(f"  ({lean_str(k)}, {lean_str(v)})" for k, v in sorted(pins.items())))
    L.append("]\n")
    L.append("end HalmosVerif.Gen.AssertTable\n")
    return "\n".join(L)


def main():
    out = GEN / "AssertTable.lean"
    try:
        text = render()
    except Exception:
        write_if_changed(out, "/- extraction failed: see tools/extract/assert_table.py -/\n#exit_extraction_failed\n")
        raise
    write_if_changed(out, text)


if __name__ == "__main__":
    import sys

    if "--pins" in sys.argv:
        for k, v in sorted(source_pins().items()):
            print(f'    "{k}": "{v}",')
    else:
        main()
        print("wrote", GEN / "AssertTable.lean")
