"""Extractor for C18: read `src/halmos/config.py` with `ast` (never importing halmos) and write
`lean/HalmosVerif/Gen/ConfigTable.lean`:

* `sources`      — the `ConfigSource` members with their integer order,
* `traceEvents`  — the `TraceEvent` member values,
* `fields`       — the non-internal `Config` fields in declaration order: name, annotated type, name of the argparse action
                   class (`""` when none), the `global_default` rendered as a string, choices, the short name, countable,
* `internalFields`, `passthrough` — the internal dataclass fields and the names `__getattribute__` resolves normally,
* `actions`      — the names of the classes that derive from `argparse.Action` and have static `parse` and `unparse`.

Fails closed: anything that does not have the expected shape raises (the runner counts that as a broken obligation).
"""
from __future__ import annotations

import ast
import sys
from pathlib import Path

sys.path.insert(0, str(Path(__file__).resolve().parents[1]))
from vlib.runner import LEAN, REPO  # noqa: E402

OUT = LEAN / "HalmosVerif" / "Gen" / "ConfigTable.lean"


class ExtractError(Exception):
    pass


def need(cond, msg, node=None):
    if not cond:
        where = f" (config.py:{getattr(node, 'lineno', '?')})" if node is not None else ""
        raise ExtractError(msg + where)


def lean_str(s: str) -> str:
    out = ['"']
    for ch in s:
        o = ord(ch)
        if ch == '"':
            out.append('\\"')
        elif ch == "\\":
            out.append("\\\\")
        elif ch == "\n":
            out.append("\\n")
        elif ch == "\t":
            out.append("\\t")
        elif 32 <= o < 127:
            out.append(ch)
        else:
            out.append("\\u{%x}" % o)
    out.append('"')
    return "".join(out)


def lean_list(items) -> str:
    return "[" + ", ".join(items) + "]"


def class_def(tree, name):
    found = [n for n in tree.body if isinstance(n, ast.ClassDef) and n.name == name]
    need(len(found) == 1, f"expected exactly one class {name}")
    return found[0]


def base_names(cls):
    out = []
    for b in cls.bases:
        out.append(ast.unparse(b))
    return out


def enum_members(cls, want_int: bool):
    members = []
    for st in cls.body:
        if isinstance(st, ast.Expr) and isinstance(st.value, ast.Constant) and isinstance(st.value.value, str):
            continue  # docstring
        need(isinstance(st, ast.Assign) and len(st.targets) == 1 and isinstance(st.targets[0], ast.Name),
             f"unexpected statement in enum {cls.name}", st)
        need(isinstance(st.value, ast.Constant), f"non-literal enum member in {cls.name}", st)
        v = st.value.value
        if want_int:
            need(isinstance(v, int) and not isinstance(v, bool) and v >= 0, f"enum {cls.name}: non-natural member value", st)
        else:
            need(isinstance(v, str), f"enum {cls.name}: non-string member value", st)
        members.append((st.targets[0].id, v))
    need(members, f"enum {cls.name} has no members")
    need(len({n for n, _ in members}) == len(members), f"enum {cls.name}: duplicate names")
    need(len({v for _, v in members}) == len(members), f"enum {cls.name}: duplicate values (aliases)")
    return members


def default_repr(node, consts) -> tuple[str, str]:
    """(kind, text): kind in const-str | const-int | const-bool | none | callable | expr"""
    if isinstance(node, ast.Constant):
        v = node.value
        if v is None:
            return "none", "None"
        if isinstance(v, bool):
            return "bool", str(v)
        if isinstance(v, int):
            return "int", str(v)
        if isinstance(v, str):
            return "str", v
        raise ExtractError(f"unsupported default literal {v!r} (config.py:{node.lineno})")
    if isinstance(node, ast.Lambda) or isinstance(node, (ast.Attribute, ast.Name)):
        # callables (os.getcwd, lambda: …): value depends on the environment
        if isinstance(node, ast.Name) and node.id in consts:
            return "str", consts[node.id]
        return "callable", ast.unparse(node)
    # the one computed default: ",".join([e.value for e in TraceEvent])
    return "expr", ast.unparse(node)


def extract(src_path: Path):
    text = src_path.read_text()
    tree = ast.parse(text)

    # module-level string constants (group names etc.)
    consts = {}
    for st in tree.body:
        if isinstance(st, ast.Assign) and len(st.targets) == 1:
            t = st.targets[0]
            if isinstance(t, ast.Name) and isinstance(st.value, ast.Constant) and isinstance(st.value.value, str):
                consts[t.id] = st.value.value
            elif isinstance(t, ast.Tuple) and isinstance(st.value, ast.Tuple) and len(t.elts) == len(st.value.elts):
                for a, b in zip(t.elts, st.value.elts):
                    if isinstance(a, ast.Name) and isinstance(b, ast.Constant) and isinstance(b.value, str):
                        consts[a.id] = b.value

    # ConfigSource
    cs = class_def(tree, "ConfigSource")
    need(base_names(cs) == ["IntEnum"], f"ConfigSource bases are {base_names(cs)}, expected IntEnum", cs)
    sources = enum_members(cs, want_int=True)

    te = class_def(tree, "TraceEvent")
    need(base_names(te) == ["Enum"], f"TraceEvent bases are {base_names(te)}, expected Enum", te)
    events = enum_members(te, want_int=False)
    for n, v in events:
        need(n == v, f"TraceEvent member {n} has value {v!r} (model assumes name = value)")

    # action classes
    actions = []
    for n in tree.body:
        if isinstance(n, ast.ClassDef) and "argparse.Action" in base_names(n):
            meths = {}
            for st in n.body:
                if isinstance(st, ast.FunctionDef):
                    decos = [ast.unparse(d) for d in st.decorator_list]
                    meths[st.name] = decos
            need("parse" in meths and "unparse" in meths and "__call__" in meths,
                 f"action class {n.name} lacks parse/unparse/__call__", n)
            need(meths["parse"] == ["staticmethod"] and meths["unparse"] == ["staticmethod"],
                 f"action class {n.name}: parse/unparse are not plain staticmethods", n)
            actions.append(n.name)
    need(actions, "no argparse.Action classes found")

    # Config fields
    cfg = class_def(tree, "Config")
    decos = [ast.unparse(d) for d in cfg.decorator_list]
    need(decos == ["dataclass(frozen=True)"], f"Config decorators are {decos}", cfg)
    fields, internal = [], []
    for st in cfg.body:
        if not isinstance(st, ast.AnnAssign):
            continue
        need(isinstance(st.target, ast.Name), "unexpected annotated target in Config", st)
        name = st.target.id
        need(isinstance(st.value, ast.Call) and isinstance(st.value.func, ast.Name), f"field {name}: not a call", st)
        fn = st.value.func.id
        if fn == "dataclass_field":
            md = [k for k in st.value.keywords if k.arg == "metadata"]
            need(len(md) == 1 and "internal" in ast.unparse(md[0].value), f"field {name}: dataclass_field without internal metadata", st)
            need(name.startswith("_"), f"internal field {name} does not start with '_'", st)
            internal.append(name)
            continue
        need(fn == "arg", f"field {name}: defined through {fn}, expected arg(...)", st)
        need(not st.value.args, f"field {name}: positional arguments to arg()", st)
        need(not name.startswith("_"), f"non-internal field {name} starts with '_'", st)
        kw = {k.arg: k.value for k in st.value.keywords}
        need(None not in kw, f"field {name}: **kwargs in arg()", st)
        unknown = set(kw) - {"help", "global_default", "metavar", "group", "choices", "short", "countable",
                             "global_default_str", "action"}
        need(not unknown, f"field {name}: unknown arg() keywords {sorted(unknown)}", st)
        need("global_default" in kw, f"field {name}: no global_default", st)
        typ = ast.unparse(st.annotation)
        need(typ in ("str", "int", "bool"), f"field {name}: unsupported annotated type {typ}", st)
        action = ""
        if "action" in kw:
            need(isinstance(kw["action"], ast.Name) and kw["action"].id in actions,
                 f"field {name}: action {ast.unparse(kw['action'])} is not a known Parse* class", st)
            action = kw["action"].id
        dkind, dtext = default_repr(kw["global_default"], consts)
        if dkind == "expr":
            need(dtext == "','.join([e.value for e in TraceEvent])", f"field {name}: unsupported computed default {dtext}", st)
            dkind, dtext = "str", ",".join(v for _, v in events)
        choices = []
        if "choices" in kw:
            c = kw["choices"]
            if isinstance(c, ast.List):
                need(all(isinstance(e, ast.Constant) and isinstance(e.value, str) for e in c.elts), f"field {name}: non-literal choices", st)
                choices = [e.value for e in c.elts]
            else:
                need(ast.unparse(c) == "list(SOLVERS.keys())", f"field {name}: unsupported choices {ast.unparse(c)}", st)
                choices = ["<SOLVERS>"]
        short = ""
        if "short" in kw:
            need(isinstance(kw["short"], ast.Constant) and isinstance(kw["short"].value, str), f"field {name}: short", st)
            short = kw["short"].value
        countable = False
        if "countable" in kw:
            need(isinstance(kw["countable"], ast.Constant) and isinstance(kw["countable"].value, bool), f"field {name}: countable", st)
            countable = kw["countable"].value
        fields.append(dict(name=name, type=typ, action=action, dkind=dkind, default=dtext, choices=choices,
                           short=short, countable=countable))
    need(internal == ["_parent", "_source"], f"internal fields are {internal}")
    need(fields, "no Config fields found")
    need(len({f['name'] for f in fields}) == len(fields), "duplicate Config field names")

    # __getattribute__ passthrough names
    ga = [n for n in cfg.body if isinstance(n, ast.FunctionDef) and n.name == "__getattribute__"]
    need(len(ga) == 1, "Config.__getattribute__ not found")
    tuples = [n for n in ast.walk(ga[0]) if isinstance(n, ast.Compare) and len(n.ops) == 1 and isinstance(n.ops[0], ast.In)
              and isinstance(n.comparators[0], ast.Tuple)]
    need(len(tuples) == 1, "__getattribute__: expected one `name in (...)` test", ga[0])
    passthrough = [e.value for e in tuples[0].comparators[0].elts if isinstance(e, ast.Constant)]
    need(len(passthrough) == len(tuples[0].comparators[0].elts), "__getattribute__: non-literal passthrough names")
    return sources, events, actions, fields, internal, passthrough


def render(sources, events, actions, fields, internal, passthrough) -> str:
    L = []
    L.append("/- GENERATED by tools/extract/config_table.py from src/halmos/config.py — do not edit. -/")
    L.append("namespace HalmosVerif.Gen.ConfigTable")
    L.append("")
    L.append("/-- `ConfigSource` members with their `IntEnum` value, in declaration order -/")
    L.append("def sources : List (String × Nat) := " + lean_list(f"({lean_str(n)}, {v})" for n, v in sources))
    L.append("")
    L.append("/-- `TraceEvent` member values -/")
    L.append("def traceEvents : List String := " + lean_list(lean_str(v) for _, v in events))
    L.append("")
    L.append("/-- classes deriving from `argparse.Action` with static `parse`/`unparse` -/")
    L.append("def actions : List String := " + lean_list(lean_str(a) for a in actions))
    L.append("")
    L.append("structure Field where")
    L.append("  name : String")
    L.append("  type : String")
    L.append("  action : String")
    L.append("  defaultKind : String")
    L.append("  default : String")
    L.append("  choices : List String")
    L.append("  short : String")
    L.append("  countable : Bool")
    L.append("  deriving Repr, DecidableEq")
    L.append("")
    L.append("/-- the non-internal `Config` fields, in declaration order -/")
    L.append("def fields : List Field := [")
    rows = []
    for f in fields:
        rows.append("  ⟨%s, %s, %s, %s, %s, %s, %s, %s⟩" % (
            lean_str(f["name"]), lean_str(f["type"]), lean_str(f["action"]), lean_str(f["dkind"]), lean_str(f["default"]),
            lean_list(lean_str(c) for c in f["choices"]), lean_str(f["short"]), "true" if f["countable"] else "false"))
    L.append(",\n".join(rows))
    L.append("]")
    L.append("")
    L.append("def internalFields : List String := " + lean_list(lean_str(a) for a in internal))
    L.append("")
    L.append("/-- names `Config.__getattribute__` resolves by normal attribute lookup (besides those starting with `_`) -/")
    L.append("def passthrough : List String := " + lean_list(lean_str(a) for a in passthrough))
    L.append("")
    L.append("end HalmosVerif.Gen.ConfigTable")
    return "\n".join(L) + "\n"


def main():
    src = REPO / "src" / "halmos" / "config.py"
    text = render(*extract(src))
    OUT.parent.mkdir(parents=True, exist_ok=True)
    if not OUT.exists() or OUT.read_text() != text:
        OUT.write_text(text)


if __name__ == "__main__":
    main()
    print(OUT)
