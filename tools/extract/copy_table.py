"""Extract the copy-mode table of the `Exec(...)` construction sites and of `Path.branch` / `Path.extend_path`
into lean/HalmosVerif/Gen/CopyTable.lean (property C20).

Parsed from sevm.py with `ast` (halmos is never imported). For every keyword argument of the four `Exec(...)` calls in
SEVM.create_branch, SEVM.run_message, SEVM.call (sub_ex) and SEVM.create (sub_ex), and for every `path.<f> = …` /
`self.<f> = …` assignment of Path.branch / Path.extend_path, the right-hand side is classified:

  byRef    a bare attribute of the source state (`ex.storage`, `pre_ex.balance`, `self.term_to_vars`, `path.term_to_vars`)
  shallow  `<attr>.copy()` or `copy(<attr>)`
  deep     `deepcopy(<attr>)`
  fresh    anything else (a constructor call, a literal, a local that is not an attribute of the source state)

The state backups of `call` / `create` (`orig_storage = deepcopy(ex.storage)` …) and the failure-branch restores of their
callbacks (`new_ex.storage = deepcopy(orig_storage)` …, run once per callee path from that single backup) are extracted as
`backupSites` / `failureRestores`.
The callbacks of the two sub_ex sites restore `context`, `st`, `jumpis` from the captured parent: the assignments
`new_ex.<f> = …` inside `callback` are extracted as well (sites `call.callback`, `create.callback`).
Fail closed: an Exec site that cannot be found, or an unexpected number of sites, raises.
"""
from __future__ import annotations

import ast
import os
from pathlib import Path

VERIF = Path(__file__).resolve().parents[2]
REPO = Path(os.environ.get("HALMOS_REPO", "/repo"))
OUT = VERIF / "lean" / "HalmosVerif" / "Gen" / "CopyTable.lean"


class Bad(Exception):
    pass


def classify(expr, sources) -> str:
    """sources: names of the variables holding the source state (ex / pre_ex / self / path)"""

    def is_src_attr(e):
        return isinstance(e, ast.Attribute) and isinstance(e.value, ast.Name) and e.value.id in sources

    if is_src_attr(expr):
        return "byRef"
    if isinstance(expr, ast.Call):
        f = expr.func
        if isinstance(f, ast.Name) and f.id == "deepcopy" and len(expr.args) == 1 and is_src_attr(expr.args[0]):
            return "deep"
        if isinstance(f, ast.Name) and f.id == "copy" and len(expr.args) == 1 and is_src_attr(expr.args[0]):
            return "shallow"
        if isinstance(f, ast.Attribute) and f.attr == "copy" and not expr.args and is_src_attr(f.value):
            return "shallow"
    return "fresh"


def find_method(tree, cls, name):
    for n in tree.body:
        if isinstance(n, ast.ClassDef) and n.name == cls:
            for m in n.body:
                if isinstance(m, ast.FunctionDef) and m.name == name:
                    return m
    raise Bad(f"{cls}.{name} not found")


def exec_calls(fn, skip_nested=True):
    """`Exec(...)` calls directly in fn (nested function bodies included: they belong to the same site)"""
    return [n for n in ast.walk(fn) if isinstance(n, ast.Call) and isinstance(n.func, ast.Name) and n.func.id == "Exec"]


def site_table(fn, sources, which=0, expect=1):
    calls = exec_calls(fn)
    if len(calls) != expect:
        raise Bad(f"{fn.name}: {len(calls)} Exec(...) sites, expected {expect}")
    call = calls[which]
    if call.args:
        raise Bad(f"{fn.name}: positional arguments in Exec(...)")
    return [(kw.arg, classify(kw.value, sources)) for kw in call.keywords]


def callback_table(fn, sources):
    cbs = [n for n in ast.walk(fn) if isinstance(n, ast.FunctionDef) and n.name == "callback"]
    if len(cbs) != 1:
        raise Bad(f"{fn.name}: {len(cbs)} callbacks")
    out = []
    for st in cbs[0].body:  # top-level statements of the callback only (the unconditional restores)
        if isinstance(st, ast.Assign) and len(st.targets) == 1:
            t = st.targets[0]
            if isinstance(t, ast.Attribute) and isinstance(t.value, ast.Name) and t.value.id == "new_ex":
                out.append((t.attr, classify(st.value, sources)))
    return out


BACKUPS = {"orig_code": "code", "orig_storage": "storage", "orig_transient_storage": "transient_storage", "orig_balance": "balance"}


def classify_backup(expr) -> str:
    """right-hand side built from one of the per-CALL backup objects `orig_*` (a local captured by the callback closure)"""
    if isinstance(expr, ast.Name) and expr.id in BACKUPS:
        return "byRef"
    if isinstance(expr, ast.Call):
        f = expr.func
        if isinstance(f, ast.Name) and f.id == "deepcopy" and len(expr.args) == 1 and isinstance(expr.args[0], ast.Name) \
                and expr.args[0].id in BACKUPS:
            return "deep"
        if isinstance(f, ast.Name) and f.id == "copy" and len(expr.args) == 1 and isinstance(expr.args[0], ast.Name) \
                and expr.args[0].id in BACKUPS:
            return "shallow"
        if isinstance(f, ast.Attribute) and f.attr == "copy" and not expr.args and isinstance(f.value, ast.Name) \
                and f.value.id in BACKUPS:
            return "shallow"
    return "fresh"


def backup_table(fn):
    """the backups taken once per CALL / CREATE: `orig_<f> = <expr over ex.<f>>` (statements of fn or of its nested call_known)"""
    out = {}
    for n in ast.walk(fn):
        if isinstance(n, ast.Assign) and len(n.targets) == 1 and isinstance(n.targets[0], ast.Name) and n.targets[0].id in BACKUPS:
            out[BACKUPS[n.targets[0].id]] = classify(n.value, {"ex"})
    return [(f, out[f]) for f in ("code", "storage", "transient_storage", "balance") if f in out]


def failure_restore_table(fn):
    """`new_ex.<f> = <expr over orig_*>` inside the callback (the branch taken when the callee / creation failed); the callback
    runs once per callee path, so each run needs its own copy of what execution mutates in place"""
    cbs = [n for n in ast.walk(fn) if isinstance(n, ast.FunctionDef) and n.name == "callback"]
    if len(cbs) != 1:
        raise Bad(f"{fn.name}: {len(cbs)} callbacks")
    out = []
    for n in ast.walk(cbs[0]):
        if isinstance(n, ast.Assign) and len(n.targets) == 1:
            t = n.targets[0]
            if isinstance(t, ast.Attribute) and isinstance(t.value, ast.Name) and t.value.id == "new_ex" and t.attr in BACKUPS.values():
                uses = [x.id for x in ast.walk(n.value) if isinstance(x, ast.Name) and x.id in BACKUPS]
                if uses:
                    out.append((t.attr, classify_backup(n.value)))
    return out


def assign_table(fn, target_name, sources):
    out = []
    for st in fn.body:
        if isinstance(st, ast.Assign) and len(st.targets) == 1:
            t = st.targets[0]
            if isinstance(t, ast.Attribute) and isinstance(t.value, ast.Name) and t.value.id == target_name:
                out.append((t.attr, classify(st.value, sources)))
    return out


def lean_table(name, rows):
    body = ",\n".join(
        f'  ("{site}", [' + ", ".join(f'("{f}", Mode.{m})' for f, m in fields) + "])" for site, fields in rows)
    return f"def {name} : List (String × List (String × Mode)) := [\n{body}]\n"


def main():
    src = (REPO / "src/halmos/sevm.py").read_text()
    tree = ast.parse(src)
    create_branch = find_method(tree, "SEVM", "create_branch")
    run_message = find_method(tree, "SEVM", "run_message")
    call = find_method(tree, "SEVM", "call")
    create = find_method(tree, "SEVM", "create")
    branch = find_method(tree, "Path", "branch")
    extend_path = find_method(tree, "Path", "extend_path")
    forks = [
        ("create_branch", site_table(create_branch, {"ex"})),
        ("run_message", site_table(run_message, {"pre_ex"})),
    ]
    conts = [
        ("call", site_table(call, {"ex"})),
        ("create", site_table(create, {"ex"})),
    ]
    callbacks = [
        ("call.callback", callback_table(call, {"ex"})),
        ("create.callback", callback_table(create, {"ex"})),
    ]
    paths = [
        ("branch", assign_table(branch, "path", {"self"})),
        ("extend_path", assign_table(extend_path, "self", {"path"})),
    ]
    backups = [("call.backup", backup_table(call)), ("create.backup", backup_table(create))]
    failures = [("call.callback.failure", failure_restore_table(call)), ("create.callback.failure", failure_restore_table(create))]
    for nm, rows in backups + failures:
        if [f for f, _ in rows] != ["code", "storage", "transient_storage", "balance"]:
            raise Bad(f"{nm}: expected code/storage/transient_storage/balance, found {[f for f, _ in rows]}")
    for nm, rows in forks + conts:
        if len(rows) < 15:
            raise Bad(f"{nm}: only {len(rows)} keyword arguments")
    for nm, rows in paths:
        if len(rows) < 4:
            raise Bad(f"Path.{nm}: only {len(rows)} assignments found")
    text = (
        "/- GENERATED by tools/extract/copy_table.py from src/halmos/sevm.py — do not edit.\n"
        "   How each field of the new Exec / Path is obtained from the state it is forked or continued from. -/\n"
        "namespace HalmosVerif.Gen.CopyTable\n\n"
        "inductive Mode where\n  | byRef | shallow | deep | fresh\n  deriving DecidableEq, Repr\n\n"
        + "/-- fork sites: the source state (or a sibling built from it) keeps running independently -/\n"
        + lean_table("forkSites", forks) + "\n"
        + "/-- continuation sites: the sub-execution continues the same path; the callback restores from the captured parent -/\n"
        + lean_table("contSites", conts) + "\n"
        + "/-- unconditional `new_ex.<f> = …` restores at the top of the two callbacks -/\n"
        + lean_table("callbackRestores", callbacks) + "\n"
        + "/-- the per-CALL / per-CREATE backups `orig_<f> = …` taken from the caller state before the sub-execution starts -/\n"
        + lean_table("backupSites", backups) + "\n"
        + "/-- `new_ex.<f> = … orig_<f> …` when the callee / creation failed: executed once per callee path, from the one backup -/\n"
        + lean_table("failureRestores", failures) + "\n"
        + "/-- `Path.branch` (new path from self) and `Path.extend_path` (self from path) -/\n"
        + lean_table("pathSites", paths) + "\n"
        + "end HalmosVerif.Gen.CopyTable\n"
    )
    OUT.write_text(text)


if __name__ == "__main__":
    main()
    print(OUT.read_text())
