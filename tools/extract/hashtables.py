"""Table extractor: the precomputed Keccak tables and related constants of halmos, written to

    lean/HalmosVerif/Gen/HashTables256.lean   keccak256_256 : hash ↦ x              (hash = keccak256 of the 32-byte big-endian x)
    lean/HalmosVerif/Gen/HashTables512.lean   keccak256_512 : hash ↦ (a, b)         (hash = keccak256 of the 64-byte a‖b)
    lean/HalmosVerif/Gen/HashTables.lean      imports both; EMPTY_KECCAK, PANIC_SELECTOR (+ its comment signature),
                                              OffsetMap default bit width, cheat-code / console / foundry addresses (+ the
                                              strings they are derived from), magic create addresses

Sources are parsed as text with `ast`/`tokenize` (never imported).  Besides the tables, the *consumers* are pinned: the
body of `utils.mk_precomputed_keccak_registry` (how a table entry becomes the registered preimage term: `con(v)` resp.
`con((v1 << 256) + v2, size_bits=512)`), and the argument-less `OffsetMap()` constructions, must have exactly the
expected shape; anything else raises (= broken obligation), so the meaning of "preimage" used in the theorems cannot
drift silently.
"""
from __future__ import annotations

import ast
import re

from extract._f3util import (
    GEN,
    ExtractError,
    chunks,
    comments_by_line,
    find_assign,
    find_class,
    find_func,
    int_const,
    lean_str,
    parse,
    str_const,
    write_if_changed,
)

# number of chunks per table — must match Props/C08Tables*.lean
NCHUNKS_256 = 4
NCHUNKS_512 = 8

EXPECTED_REGISTRY_BODY = (
    "m = OffsetMap()\n"
    "for k, v in keccak256_256.items():\n"
    "    m[k] = f_sha3_256(con(v))\n"
    "for k, (v1, v2) in keccak256_512.items():\n"
    "    m[k] = f_sha3_512(con((v1 << 256) + v2, size_bits=512))\n"
    "return m"
)


def _table(tree, name: str) -> ast.Dict:
    st = find_assign(tree.body, name)
    d = st.value
    if not isinstance(d, ast.Dict) or any(k is None for k in d.keys):
        raise ExtractError(f"hashes.{name}: expected a plain dict display")
    return d


def extract_tables():
    _, tree = parse("hashes.py")
    # nothing but the two table assignments may live in hashes.py (no later patching of the dicts)
    for st in tree.body:
        ok = isinstance(st, (ast.Assign, ast.AnnAssign)) or \
            (isinstance(st, ast.Expr) and isinstance(st.value, ast.Constant) and isinstance(st.value.value, str))
        if not ok:
            raise ExtractError(f"hashes.py line {st.lineno}: unexpected statement {type(st).__name__}")
    names = []
    for st in tree.body:
        if isinstance(st, ast.Assign):
            names += [t.id if isinstance(t, ast.Name) else "?" for t in st.targets]
        elif isinstance(st, ast.AnnAssign):
            names.append(st.target.id if isinstance(st.target, ast.Name) else "?")
    if sorted(names) != ["keccak256_256", "keccak256_512"]:
        raise ExtractError(f"hashes.py: expected exactly the assignments keccak256_256, keccak256_512; found {names}")

    t256 = []
    seen = set()
    d = _table(tree, "keccak256_256")
    for k, v in zip(d.keys, d.values):
        h = int_const(k, "keccak256_256 key")
        x = int_const(v, f"keccak256_256[{h:#x}]")
        if not (0 <= h < 2**256) or not (0 <= x < 2**256):
            raise ExtractError(f"keccak256_256[{h:#x}] = {x:#x}: out of the 256-bit range")
        if h in seen:
            raise ExtractError(f"keccak256_256: duplicate key {h:#x}")
        seen.add(h)
        t256.append((h, x))
    t512 = []
    seen512 = set()
    d = _table(tree, "keccak256_512")
    for k, v in zip(d.keys, d.values):
        h = int_const(k, "keccak256_512 key")
        if not (isinstance(v, ast.Tuple) and len(v.elts) == 2):
            raise ExtractError(f"keccak256_512[{h:#x}]: value is not a pair")
        a = int_const(v.elts[0], f"keccak256_512[{h:#x}][0]")
        b = int_const(v.elts[1], f"keccak256_512[{h:#x}][1]")
        if not (0 <= h < 2**256) or not (0 <= a < 2**256) or not (0 <= b < 2**256):
            raise ExtractError(f"keccak256_512[{h:#x}] = ({a:#x}, {b:#x}): out of the 256-bit range")
        if h in seen512:
            raise ExtractError(f"keccak256_512: duplicate key {h:#x}")
        seen512.add(h)
        t512.append((h, a, b))
    if not t256 or not t512:
        raise ExtractError("hashes.py: empty table")
    return t256, t512


def _bv_address(cls: ast.ClassDef, what: str) -> int:
    v = find_assign(cls.body, "address").value
    if not (isinstance(v, ast.Call) and isinstance(v.func, ast.Name) and v.func.id == "BV" and len(v.args) == 1
            and len(v.keywords) == 1 and v.keywords[0].arg == "size" and int_const(v.keywords[0].value, what) == 160):
        raise ExtractError(f"{what}.address is not BV(<int>, size=160)")
    a = int_const(v.args[0], f"{what}.address")
    if not (0 <= a < 2**160):
        raise ExtractError(f"{what}.address does not fit 160 bits")
    return a


def _quoted_in_comments_above(comments, lineno: int, pattern: str, what: str) -> str:
    """search the comment block directly above `lineno` for the regex (one group)"""
    ln = lineno - 1
    block = []
    while ln in comments:
        block.append(comments[ln])
        ln -= 1
    text = " ".join(reversed(block))
    m = re.search(pattern, text)
    if not m:
        raise ExtractError(f"{what}: the comment above line {lineno} does not name the source string ({text!r})")
    return m.group(1)


def extract_constants():
    out = {}
    # --- utils.py: OffsetMap default width, consumers of the tables
    utext, utree = parse("utils.py")
    om = find_class(utree, "OffsetMap")
    init = find_func(om.body, "__init__")
    args = init.args
    if [a.arg for a in args.args] != ["self", "offset_bits"] or len(args.defaults) != 1 or args.vararg or args.kwarg \
            or args.kwonlyargs or args.posonlyargs:
        raise ExtractError("OffsetMap.__init__: expected signature (self, offset_bits=<int>)")
    out["offsetBits"] = int_const(args.defaults[0], "OffsetMap.__init__ default offset_bits")
    if not (0 < out["offsetBits"] < 256):
        raise ExtractError("OffsetMap default offset_bits out of range")
    reg = find_func(utree.body, "mk_precomputed_keccak_registry")
    body = "\n".join(ast.unparse(st) for st in reg.body)
    if body != EXPECTED_REGISTRY_BODY:
        raise ExtractError("utils.mk_precomputed_keccak_registry changed shape:\n" + body)
    st = find_assign(utree.body, "precomputed_keccak_registry")
    if ast.unparse(st.value) != "mk_precomputed_keccak_registry()":
        raise ExtractError("utils.precomputed_keccak_registry is not mk_precomputed_keccak_registry()")
    # every construction of an OffsetMap in utils.py / sevm.py must use the default width or forward self._offset_bits
    stext, stree = parse("sevm.py")
    for fname, tree in (("utils.py", utree), ("sevm.py", stree)):
        for node in ast.walk(tree):
            if isinstance(node, ast.Call) and isinstance(node.func, ast.Name) and node.func.id == "OffsetMap":
                src = ast.unparse(node)
                if src not in ("OffsetMap()", "OffsetMap(self._offset_bits)"):
                    raise ExtractError(f"{fname} line {node.lineno}: unexpected OffsetMap construction {src}")

    # --- sevm.py
    scomments = comments_by_line(stext)
    out["emptyKeccak"] = int_const(find_assign(stree.body, "EMPTY_KECCAK").value, "sevm.EMPTY_KECCAK")
    pst = find_assign(stree.body, "PANIC_SELECTOR")
    pv = pst.value
    if not (isinstance(pv, ast.Call) and ast.unparse(pv.func) == "bytes.fromhex" and len(pv.args) == 1 and not pv.keywords):
        raise ExtractError("sevm.PANIC_SELECTOR is not bytes.fromhex(\"…\")")
    hx = str_const(pv.args[0], "sevm.PANIC_SELECTOR")
    if not re.fullmatch(r"[0-9a-fA-F]{8}", hx):
        raise ExtractError("sevm.PANIC_SELECTOR is not 4 bytes of hex")
    out["panicSelector"] = int(hx, 16)
    out["panicSignature"] = _quoted_in_comments_above(scomments, pst.lineno, r"keccak256\(\"([^\"]*)\"\)", "PANIC_SELECTOR")
    out["magicAddress"] = int_const(find_assign(stree.body, "magic_address").value, "sevm.magic_address")
    out["create2MagicAddress"] = int_const(find_assign(stree.body, "create2_magic_address").value, "sevm.create2_magic_address")
    out["newAddressOffset"] = int_const(find_assign(stree.body, "new_address_offset").value, "sevm.new_address_offset")
    ft = find_assign(stree.body, "FOUNDRY_TEST").value
    if not (isinstance(ft, ast.Call) and ast.unparse(ft.func) == "con_addr" and len(ft.args) == 1):
        raise ExtractError("sevm.FOUNDRY_TEST is not con_addr(<int>)")
    out["foundryTest"] = int_const(ft.args[0], "sevm.FOUNDRY_TEST")
    out["foundryCaller"] = int_const(find_assign(stree.body, "FOUNDRY_CALLER").value, "sevm.FOUNDRY_CALLER")
    fo = find_assign(stree.body, "FOUNDRY_ORIGIN").value
    if ast.unparse(fo) != "FOUNDRY_CALLER":
        raise ExtractError("sevm.FOUNDRY_ORIGIN is not FOUNDRY_CALLER")
    ca = find_assign(stree.body, "CHEATCODE_ADDRESSES").value
    if ast.unparse(ca) != "(hevm_cheat_code.address, halmos_cheat_code.address, console.address)":
        raise ExtractError("sevm.CHEATCODE_ADDRESSES changed: " + ast.unparse(ca))

    # --- cheatcodes.py / console.py: addresses and the strings they derive from
    ctext, ctree = parse("cheatcodes.py")
    ccomments = comments_by_line(ctext)
    hev = find_class(ctree, "hevm_cheat_code")
    svm = find_class(ctree, "halmos_cheat_code")
    out["hevmAddress"] = _bv_address(hev, "hevm_cheat_code")
    out["svmAddress"] = _bv_address(svm, "halmos_cheat_code")
    pat = r"keccak256\('([^']*)'\)"
    out["hevmAddressSeed"] = _quoted_in_comments_above(ccomments, find_assign(hev.body, "address").lineno, pat, "hevm_cheat_code.address")
    out["svmAddressSeed"] = _quoted_in_comments_above(ccomments, find_assign(svm.body, "address").lineno, pat, "halmos_cheat_code.address")
    _, ktree = parse("console.py")
    out["consoleAddress"] = _bv_address(find_class(ktree, "console"), "console")
    return out


def _emit_256(t256):
    L = ["/- GENERATED by tools/extract/hashtables.py from /repo/src/halmos/hashes.py — do not edit. -/",
         "namespace HalmosVerif.Gen.HashTables\n"]
    cs = chunks(t256, NCHUNKS_256, "keccak256_256")
    for i, c in enumerate(cs):
        L.append(f"def keccak256_256_{i} : List (Nat × Nat) := [")
        L.append(",\n".join(f"  (0x{h:064X}, {x})" for h, x in c))
        L.append("]\n")
    L.append(f"/-- hashes.py `keccak256_256`: keccak256(x) ↦ x, x a 32-byte big-endian word ({len(t256)} entries) -/")
    L.append("def keccak256_256 : List (Nat × Nat) := " + " ++ ".join(f"keccak256_256_{i}" for i in range(NCHUNKS_256)) + "\n")
    L.append(f"def keccak256_256_count : Nat := {len(t256)}\n")
    L.append("end HalmosVerif.Gen.HashTables\n")
    return "\n".join(L)


def _emit_512(t512):
    L = ["/- GENERATED by tools/extract/hashtables.py from /repo/src/halmos/hashes.py — do not edit. -/",
         "namespace HalmosVerif.Gen.HashTables\n"]
    cs = chunks(t512, NCHUNKS_512, "keccak256_512")
    for i, c in enumerate(cs):
        L.append(f"def keccak256_512_{i} : List (Nat × Nat × Nat) := [")
        L.append(",\n".join(f"  (0x{h:064X}, {a}, {b})" for h, a, b in c))
        L.append("]\n")
    L.append(f"/-- hashes.py `keccak256_512`: keccak256(abi.encode(a, b)) ↦ (a, b) ({len(t512)} entries) -/")
    L.append("def keccak256_512 : List (Nat × Nat × Nat) := " + " ++ ".join(f"keccak256_512_{i}" for i in range(NCHUNKS_512)) + "\n")
    L.append(f"def keccak256_512_count : Nat := {len(t512)}\n")
    L.append("end HalmosVerif.Gen.HashTables\n")
    return "\n".join(L)


def _emit_consts(c):
    L = ["/- GENERATED by tools/extract/hashtables.py from /repo/src/halmos/{utils,sevm,cheatcodes,console}.py — do not edit. -/",
         "import HalmosVerif.Gen.HashTables256",
         "import HalmosVerif.Gen.HashTables512",
         "namespace HalmosVerif.Gen.HashTables\n",
         "/-- utils.py `OffsetMap.__init__` default `offset_bits` (every construction in utils.py/sevm.py uses it) -/",
         f"def offsetBits : Nat := {c['offsetBits']}\n",
         "/-- sevm.py `EMPTY_KECCAK` -/",
         f"def emptyKeccak : Nat := 0x{c['emptyKeccak']:064X}\n",
         "/-- sevm.py `PANIC_SELECTOR` (as a number) and the signature named in the comment above it -/",
         f"def panicSelector : Nat := 0x{c['panicSelector']:08X}",
         f"def panicSignature : String := {lean_str(c['panicSignature'])}\n",
         "/-- cheatcodes.py `hevm_cheat_code.address` and the string whose keccak it is said to be -/",
         f"def hevmAddress : Nat := 0x{c['hevmAddress']:040X}",
         f"def hevmAddressSeed : String := {lean_str(c['hevmAddressSeed'])}\n",
         "/-- cheatcodes.py `halmos_cheat_code.address` and the string whose keccak it is said to be -/",
         f"def svmAddress : Nat := 0x{c['svmAddress']:040X}",
         f"def svmAddressSeed : String := {lean_str(c['svmAddressSeed'])}\n",
         "/-- console.py `console.address` -/",
         f"def consoleAddress : Nat := 0x{c['consoleAddress']:040X}\n",
         "/-- sevm.py `CHEATCODE_ADDRESSES` (shape pinned by the extractor) -/",
         "def cheatcodeAddresses : List Nat := [hevmAddress, svmAddress, consoleAddress]\n",
         "/-- sevm.py `FOUNDRY_TEST`, `FOUNDRY_CALLER` (= `FOUNDRY_ORIGIN`) -/",
         f"def foundryTest : Nat := 0x{c['foundryTest']:040X}",
         f"def foundryCaller : Nat := 0x{c['foundryCaller']:040X}\n",
         "/-- sevm.py `magic_address`, `create2_magic_address`, `new_address_offset` -/",
         f"def magicAddress : Nat := 0x{c['magicAddress']:X}",
         f"def create2MagicAddress : Nat := 0x{c['create2MagicAddress']:X}",
         f"def newAddressOffset : Nat := {c['newAddressOffset']}\n",
         "end HalmosVerif.Gen.HashTables\n"]
    return "\n".join(L)


FILES = ("HashTables256.lean", "HashTables512.lean", "HashTables.lean")


def main():
    try:
        t256, t512 = extract_tables()
        consts = extract_constants()
        texts = (_emit_256(t256), _emit_512(t512), _emit_consts(consts))
    except Exception:
        for f in FILES:  # fail closed: a stale table must not stay buildable
            write_if_changed(GEN / f, "/- extraction failed: see tools/extract/hashtables.py -/\n#exit_extraction_failed\n")
        raise
    for f, t in zip(FILES, texts):
        write_if_changed(GEN / f, t)


if __name__ == "__main__":
    main()
    print("wrote", ", ".join(str(GEN / f) for f in FILES))
