"""Extractor `opcodes`: /repo/src/halmos/contract.py  ->  lean/HalmosVerif/Gen/Opcodes.lean

Parses the *source text* with `ast` (never imports halmos) and emits, in namespace `HalmosVerif.Gen`:

  def OP_<NAME> : Nat := 0x..            one per top-level `OP_<NAME> = <int literal>`
  def opcodeTable : List (String × Nat)  all of them, in source order
  def callOpcodes / createOpcodes / terminatingOpcodes : List Nat     (CALL_OPCODES, CREATE_OPCODES, TERMINATING_OPCODES)
  def insnLenInt (opcode : Int) : Int    the return expression of `insn_len`, translated operator by operator over Int
                                         (Python bools used as ints become `if … then 1 else 0`)
  def insnLen (opcode : Nat) : Nat       `(insnLenInt opcode).toNat`
  def MAX_MEMORY_SIZE : Nat              from constants.py (the bound `Contract.slice` checks)

Fails closed: anything it does not recognise raises.
"""
from __future__ import annotations

import ast
import sys
from pathlib import Path

sys.path.insert(0, str(Path(__file__).resolve().parents[1]))
from vlib.runner import LEAN, REPO  # noqa: E402

OUT = LEAN / "HalmosVerif" / "Gen" / "Opcodes.lean"

SETS = {
    "CALL_OPCODES": "callOpcodes",
    "CREATE_OPCODES": "createOpcodes",
    "TERMINATING_OPCODES": "terminatingOpcodes",
}

REQUIRED = ["OP_STOP", "OP_JUMP", "OP_JUMPI", "OP_JUMPDEST", "OP_PUSH0", "OP_PUSH1", "OP_PUSH32"]


class ExtractError(Exception):
    pass


def const_int(node, env=None) -> int:
    """integer constant expression: literals, names of earlier constants, + - * ** (non-negative results)"""
    if isinstance(node, ast.Constant) and type(node.value) is int:
        return node.value
    if isinstance(node, ast.Name) and env is not None and node.id in env:
        return env[node.id]
    if isinstance(node, ast.BinOp):
        a, b = const_int(node.left, env), const_int(node.right, env)
        if isinstance(node.op, ast.Add):
            return a + b
        if isinstance(node.op, ast.Sub):
            return a - b
        if isinstance(node.op, ast.Mult):
            return a * b
        if isinstance(node.op, ast.Pow) and 0 <= b <= 4096:
            return a**b
    raise ExtractError(f"not an integer constant expression: {ast.dump(node)[:200]}")


def to_lean_int(node, consts, param) -> str:
    """translate the return expression of insn_len to a Lean Int expression"""
    if isinstance(node, ast.Constant) and type(node.value) is int:
        return f"({node.value} : Int)"
    if isinstance(node, ast.Name):
        if node.id == param:
            return param
        if node.id in consts:
            return f"({node.id} : Int)"
        raise ExtractError(f"insn_len: unknown name {node.id}")
    if isinstance(node, ast.BinOp):
        ops = {ast.Add: "+", ast.Sub: "-", ast.Mult: "*"}
        for k, s in ops.items():
            if isinstance(node.op, k):
                return f"({to_lean_int(node.left, consts, param)} {s} {to_lean_int(node.right, consts, param)})"
        raise ExtractError(f"insn_len: unsupported operator {type(node.op).__name__}")
    if isinstance(node, ast.Compare):
        cmps = {ast.LtE: "≤", ast.Lt: "<", ast.GtE: "≥", ast.Gt: ">", ast.Eq: "=", ast.NotEq: "≠"}
        parts = []
        left = node.left
        for op, right in zip(node.ops, node.comparators, strict=True):
            sym = next((s for k, s in cmps.items() if isinstance(op, k)), None)
            if sym is None:
                raise ExtractError(f"insn_len: unsupported comparison {type(op).__name__}")
            parts.append(f"{to_lean_int(left, consts, param)} {sym} {to_lean_int(right, consts, param)}")
            left = right
        return f"(if {' ∧ '.join(parts)} then (1 : Int) else 0)"
    if isinstance(node, ast.UnaryOp) and isinstance(node.op, ast.USub):
        return f"(- {to_lean_int(node.operand, consts, param)})"
    raise ExtractError(f"insn_len: unsupported expression {ast.dump(node)[:200]}")


def extract(src_contract: str, src_constants: str):
    tree = ast.parse(src_contract)
    consts: dict[str, int] = {}
    order: list[str] = []
    sets: dict[str, list[str]] = {}
    insn_len = None

    for node in tree.body:
        if isinstance(node, ast.Assign) and len(node.targets) == 1 and isinstance(node.targets[0], ast.Name):
            name = node.targets[0].id
            if name.startswith("OP_"):
                v = const_int(node.value)
                if not (0 <= v <= 0xFF):
                    raise ExtractError(f"{name} = {v} is not a byte")
                if name in consts:
                    raise ExtractError(f"{name} assigned twice")
                consts[name] = v
                order.append(name)
            elif name in SETS:
                if name in sets:
                    raise ExtractError(f"{name} assigned twice")
                if not isinstance(node.value, ast.Tuple | ast.List):
                    raise ExtractError(f"{name} is not a tuple/list literal")
                elts = []
                for e in node.value.elts:
                    if not (isinstance(e, ast.Name) and e.id in consts):
                        raise ExtractError(f"{name}: element is not a known OP_ name: {ast.dump(e)[:100]}")
                    elts.append(e.id)
                sets[name] = elts
        elif isinstance(node, ast.AugAssign | ast.AnnAssign):
            t = node.target
            if isinstance(t, ast.Name) and (t.id.startswith("OP_") or t.id in SETS):
                raise ExtractError(f"unexpected (aug/ann)assignment to {t.id}")
        elif isinstance(node, ast.FunctionDef) and node.name == "insn_len":
            if insn_len is not None:
                raise ExtractError("insn_len defined twice")
            insn_len = node

    # any OP_ name (re)bound anywhere else (nested scopes, del, loops, walrus)? -> refuse
    n_store = sum(
        1
        for node in ast.walk(tree)
        if isinstance(node, ast.Name)
        and isinstance(node.ctx, ast.Store | ast.Del)
        and (node.id.startswith("OP_") or node.id in SETS)
    )
    if n_store != len(consts) + len(sets):
        raise ExtractError(f"OP_*/opcode-set names are bound {n_store} times, expected {len(consts) + len(sets)}")
    n_def = sum(
        1 for node in ast.walk(tree)
        if isinstance(node, ast.FunctionDef | ast.AsyncFunctionDef | ast.Lambda) and getattr(node, "name", "") == "insn_len"
    )
    if n_def != 1:
        raise ExtractError(f"insn_len defined {n_def} times")
    for node in ast.walk(tree):
        if isinstance(node, ast.Name) and isinstance(node.ctx, ast.Store | ast.Del) and node.id == "insn_len":
            raise ExtractError("insn_len is rebound")
        if isinstance(node, ast.Global | ast.Nonlocal) and any(n.startswith("OP_") or n in SETS or n == "insn_len" for n in node.names):
            raise ExtractError("global/nonlocal declaration of an opcode name")

    for r in REQUIRED:
        if r not in consts:
            raise ExtractError(f"missing constant {r}")
    for s in SETS:
        if s not in sets:
            raise ExtractError(f"missing opcode set {s}")
    if len(set(consts.values())) != len(consts):
        dup = sorted(n for n in consts if list(consts.values()).count(consts[n]) > 1)
        raise ExtractError(f"two opcode names share a value: {dup}")

    # insn_len: exactly `def insn_len(opcode: int) -> int: return <expr>`
    if insn_len is None:
        raise ExtractError("insn_len not found")
    a = insn_len.args
    if (len(a.args) != 1 or a.vararg or a.kwarg or a.kwonlyargs or a.posonlyargs or a.defaults or insn_len.decorator_list):
        raise ExtractError("insn_len: unexpected signature")
    param = a.args[0].arg
    body = [s for s in insn_len.body if not (isinstance(s, ast.Expr) and isinstance(s.value, ast.Constant) and isinstance(s.value.value, str))]
    if len(body) != 1 or not isinstance(body[0], ast.Return) or body[0].value is None:
        raise ExtractError("insn_len: body is not a single return statement")
    insn_expr = to_lean_int(body[0].value, consts, param)

    # MAX_MEMORY_SIZE from constants.py
    ctree = ast.parse(src_constants)
    cenv: dict[str, int] = {}
    mm = None
    for node in ctree.body:
        if isinstance(node, ast.Assign) and len(node.targets) == 1 and isinstance(node.targets[0], ast.Name):
            try:
                cenv[node.targets[0].id] = const_int(node.value, cenv)
            except ExtractError:
                continue
            if node.targets[0].id == "MAX_MEMORY_SIZE":
                if mm is not None:
                    raise ExtractError("MAX_MEMORY_SIZE assigned twice")
                mm = cenv["MAX_MEMORY_SIZE"]
    if mm is None or mm < 0:
        raise ExtractError("MAX_MEMORY_SIZE not found in constants.py")

    return consts, order, sets, param, insn_expr, mm


def render(consts, order, sets, param, insn_expr, mm) -> str:
    L = []
    L.append("/-")
    L.append("GENERATED by tools/extract/opcodes.py from src/halmos/contract.py (and constants.py) — do not edit.")
    L.append("Opcode constants, opcode sets and the `insn_len` rule, as the source states them.")
    L.append("-/")
    L.append("namespace HalmosVerif.Gen")
    L.append("")
    for n in order:
        L.append(f"def {n} : Nat := 0x{consts[n]:02X}")
    L.append("")
    L.append("def opcodeTable : List (String × Nat) := [")
    L.append(",\n".join(f'  ("{n[3:]}", {n})' for n in order))
    L.append("]")
    L.append("")
    for py, lean in SETS.items():
        L.append(f"/-- `{py}` -/")
        L.append(f"def {lean} : List Nat := [{', '.join(sets[py])}]")
    L.append("")
    L.append("/-- `insn_len`, operator by operator over the integers (Python `bool` used as `int` = 0/1) -/")
    L.append(f"def insnLenInt ({param} : Int) : Int :=")
    L.append(f"  {insn_expr}")
    L.append("")
    L.append(f"def insnLen ({param} : Nat) : Nat := (insnLenInt ({param} : Int)).toNat")
    L.append("")
    L.append("/-- `halmos.constants.MAX_MEMORY_SIZE` -/")
    L.append(f"def MAX_MEMORY_SIZE : Nat := {mm}")
    L.append("")
    L.append("end HalmosVerif.Gen")
    L.append("")
    return "\n".join(L)


def main():
    src = (REPO / "src" / "halmos" / "contract.py").read_text()
    csrc = (REPO / "src" / "halmos" / "constants.py").read_text()
    text = render(*extract(src, csrc))
    OUT.parent.mkdir(parents=True, exist_ok=True)
    # only touch the file when it changes so that lake does not rebuild needlessly
    if not OUT.exists() or OUT.read_text() != text:
        tmp = OUT.with_suffix(".lean.tmp")
        tmp.write_text(text)
        tmp.replace(OUT)
    return OUT


if __name__ == "__main__":
    print(main())
