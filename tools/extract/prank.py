"""Extractor for C14: the address lists that decide which calls a prank applies to, written to lean/HalmosVerif/Gen/Prank.lean.

Parsed from the source text with `ast` (never imported; any unexpected shape raises = broken obligation):

  cheatcodes.py  class hevm_cheat_code / halmos_cheat_code:  address = BV(0x…, size=160)
                 Prank.lookup:   if self and to not in [<X>.address, …]:          -> lookupExcluded
  console.py     class console:  address = BV(0x…, size=160)
  sevm.py        CHEATCODE_ADDRESSES: tuple[…] = (<X>.address, …)                  -> cheatcodeAddresses
                 SEVM.create:    … = ex.resolve_prank(con_addr(<int>))             -> createLookupAddress
                 SEVM.call:      … = ex.resolve_prank(to)   (exactly one such call, argument `to`)
"""
from __future__ import annotations

import ast

from extract._f3util import GEN, ExtractError, find_assign, find_class, find_func, int_const, parse, write_if_changed

LEAN_NAME = {"hevm_cheat_code": "hevmAddress", "halmos_cheat_code": "halmosAddress", "console": "consoleAddress"}


def class_address(tree, cls: str) -> int:
    c = find_class(tree, cls)
    st = find_assign(c.body, "address")
    v = st.value
    if not (isinstance(v, ast.Call) and isinstance(v.func, ast.Name) and v.func.id == "BV" and len(v.args) == 1
            and [k.arg for k in v.keywords] == ["size"] and int_const(v.keywords[0].value, f"{cls}.address size") == 160):
        raise ExtractError(f"{cls}.address: expected BV(0x…, size=160)")
    a = int_const(v.args[0], f"{cls}.address")
    if not 0 <= a < 1 << 160:
        raise ExtractError(f"{cls}.address out of range")
    return a


def address_names(elts, what: str) -> list[str]:
    out = []
    for e in elts:
        if not (isinstance(e, ast.Attribute) and e.attr == "address" and isinstance(e.value, ast.Name) and e.value.id in LEAN_NAME):
            raise ExtractError(f"{what}: expected <class>.address entries, got {ast.dump(e)[:100]}")
        out.append(LEAN_NAME[e.value.id])
    return out


def lookup_excluded(tree) -> list[str]:
    f = find_func(find_class(tree, "Prank").body, "lookup")
    ifs = [st for st in f.body if isinstance(st, ast.If)]
    if len(ifs) != 1:
        raise ExtractError(f"Prank.lookup: expected exactly one `if`, found {len(ifs)}")
    t = ifs[0].test
    if not (isinstance(t, ast.BoolOp) and isinstance(t.op, ast.And) and len(t.values) == 2 and isinstance(t.values[0], ast.Name)
            and t.values[0].id == "self"):
        raise ExtractError("Prank.lookup: expected `if self and to not in [...]`")
    c = t.values[1]
    if not (isinstance(c, ast.Compare) and isinstance(c.left, ast.Name) and c.left.id == "to" and len(c.ops) == 1
            and isinstance(c.ops[0], ast.NotIn) and isinstance(c.comparators[0], (ast.List, ast.Tuple))):
        raise ExtractError("Prank.lookup: expected `to not in [...]`")
    return address_names(c.comparators[0].elts, "Prank.lookup exclusion list")


def resolve_prank_calls(fn: ast.FunctionDef):
    return [n for n in ast.walk(fn) if isinstance(n, ast.Call) and isinstance(n.func, ast.Attribute) and n.func.attr == "resolve_prank"]


def main():
    _, cheat = parse("cheatcodes.py")
    _, cons = parse("console.py")
    _, sevm = parse("sevm.py")
    addrs = {"hevmAddress": class_address(cheat, "hevm_cheat_code"), "halmosAddress": class_address(cheat, "halmos_cheat_code"),
             "consoleAddress": class_address(cons, "console")}
    excluded = lookup_excluded(cheat)
    st = find_assign(sevm.body, "CHEATCODE_ADDRESSES")
    if not isinstance(st.value, (ast.Tuple, ast.List)):
        raise ExtractError("CHEATCODE_ADDRESSES: expected a tuple display")
    cheats = address_names(st.value.elts, "CHEATCODE_ADDRESSES")
    cls = find_class(sevm, "SEVM")
    cr = resolve_prank_calls(find_func(cls.body, "create"))
    if len(cr) != 1 or len(cr[0].args) != 1:
        raise ExtractError("SEVM.create: expected exactly one resolve_prank(...) call")
    a = cr[0].args[0]
    if not (isinstance(a, ast.Call) and isinstance(a.func, ast.Name) and a.func.id == "con_addr" and len(a.args) == 1):
        raise ExtractError("SEVM.create: expected resolve_prank(con_addr(<int>))")
    create_addr = int_const(a.args[0], "SEVM.create resolve_prank argument")
    cl = resolve_prank_calls(find_func(cls.body, "call"))
    if len(cl) != 1 or len(cl[0].args) != 1 or not (isinstance(cl[0].args[0], ast.Name) and cl[0].args[0].id == "to"):
        raise ExtractError("SEVM.call: expected exactly one resolve_prank(to) call")
    # resolve_prank itself: lookup(to), sender/origin defaults
    ex = find_class(sevm, "Exec")
    rp = find_func(ex.body, "resolve_prank")
    src = ast.unparse(rp)
    for needle in ("self.context.prank.lookup(to)", "self.this() if prank_result.sender is None else prank_result.sender",
                   "self.origin() if prank_result.origin is None else prank_result.origin", "return (caller, origin)"):
        if needle not in src:
            raise ExtractError(f"Exec.resolve_prank: expected `{needle}`")

    def lst(xs):
        return "[" + ", ".join(xs) + "]"

    text = f"""/- GENERATED by tools/extract/prank.py from /repo/src/halmos/{{cheatcodes,sevm,console}}.py — do not edit. -/
namespace HalmosVerif.Gen.Prank

/-- cheatcodes.py `hevm_cheat_code.address` -/
def hevmAddress : Nat := 0x{addrs['hevmAddress']:040X}

/-- cheatcodes.py `halmos_cheat_code.address` -/
def halmosAddress : Nat := 0x{addrs['halmosAddress']:040X}

/-- console.py `console.address` -/
def consoleAddress : Nat := 0x{addrs['consoleAddress']:040X}

/-- cheatcodes.py `Prank.lookup`: the list in `if self and to not in [...]` -/
def lookupExcluded : List Nat := {lst(excluded)}

/-- sevm.py `CHEATCODE_ADDRESSES` -/
def cheatcodeAddresses : List Nat := {lst(cheats)}

/-- sevm.py `SEVM.create`: the argument of `ex.resolve_prank(con_addr(…))` -/
def createLookupAddress : Nat := {create_addr}

end HalmosVerif.Gen.Prank
"""
    write_if_changed(GEN / "Prank.lean", text)


if __name__ == "__main__":
    main()
