"""Table extractor: selector -> Solidity signature tables of halmos, written to lean/HalmosVerif/Gen/Selectors.lean.

Sources (parsed as text with `ast` + `tokenize`, never imported; any unexpected shape raises = broken obligation):

  assertions.py   assert_cheatcode_handler = { 0x…: mk_assert_handler("<signature>"), … }
  cheatcodes.py   class hevm_cheat_code:   # bytes4(keccak256("<signature>"))   or   # <signature>
                                           <name>_sig: int = 0x…
                  class halmos_cheat_code: handlers = { 0x…: <handler>,  # <signature> … }
  console.py      class console: handlers = { 0x…: log_<t1>[_<t2>], … }   signature = log(<t1>[,<t2>]) from the handler
                  name (the handler decodes exactly these argument types), or the one quoted in an
                  `# alias for '<signature>'` comment.

Every table is emitted as a fixed number of chunks of ≤ 64 entries (the Props modules name the chunks; the full table is
their concatenation, so a chunk that is not covered by a theorem breaks the umbrella theorem's proof).
"""
from __future__ import annotations

import ast
import re

from extract._f3util import (
    GEN,
    ExtractError,
    chunks,
    comment_only_lines,
    comments_by_line,
    find_assign,
    find_class,
    int_const,
    lean_str,
    parse,
    str_const,
    write_if_changed,
)

SIG_RE = re.compile(r"^[A-Za-z_][A-Za-z0-9_]*\([A-Za-z0-9_,\[\]]*\)$")
KECCAK_COMMENT_RE = re.compile(r"keccak256\(\s*\"([^\"]*)\"\s*\)")
ALIAS_RE = re.compile(r"alias for '([^']*)'")

# number of chunks per table — must match the Props/C13Tables*.lean modules
NCHUNKS = {"assert": 2, "hevm": 2, "halmos": 1, "console": 1}


def _check_selector(sel: int, what: str) -> int:
    if not (0 <= sel < 2**32):
        raise ExtractError(f"{what}: selector {sel:#x} is not a 4-byte value")
    return sel


def _check_sig(sig: str, what: str) -> str:
    if not SIG_RE.match(sig):
        raise ExtractError(f"{what}: {sig!r} is not a canonical Solidity signature")
    return sig


def _dict_node(node, what: str) -> ast.Dict:
    if not isinstance(node, ast.Dict):
        raise ExtractError(f"{what}: expected a dict display, got {type(node).__name__}")
    if any(k is None for k in node.keys):
        raise ExtractError(f"{what}: dict unpacking (**) is not supported")
    return node


def _no_dups(entries, what: str):
    seen = {}
    for sel, sig in entries:
        if sel in seen:
            raise ExtractError(f"{what}: selector {sel:#010x} occurs twice ({seen[sel]!r}, {sig!r})")
        seen[sel] = sig


def extract_assert():
    _, tree = parse("assertions.py")
    st = find_assign(tree.body, "assert_cheatcode_handler")
    d = _dict_node(st.value, "assert_cheatcode_handler")
    out = []
    for k, v in zip(d.keys, d.values):
        sel = _check_selector(int_const(k, "assert_cheatcode_handler key"), "assert_cheatcode_handler")
        if not (isinstance(v, ast.Call) and isinstance(v.func, ast.Name) and v.func.id == "mk_assert_handler"
                and len(v.args) == 1 and not v.keywords):
            raise ExtractError(f"assert_cheatcode_handler[{sel:#010x}]: value is not mk_assert_handler(\"…\"): "
                               f"{ast.dump(v)[:160]}")
        sig = _check_sig(str_const(v.args[0], f"assert_cheatcode_handler[{sel:#010x}]"), "assert_cheatcode_handler")
        out.append((sel, sig))
    # any later mutation of the dict (assert_cheatcode_handler[…] = …, .update, del) is outside the supported subset
    for node in ast.walk(tree):
        if node is st:
            continue
        if isinstance(node, (ast.Subscript, ast.Attribute)) and isinstance(node.value, ast.Name) \
                and node.value.id == "assert_cheatcode_handler" and isinstance(getattr(node, "ctx", None), (ast.Store, ast.Del)):
            raise ExtractError("assert_cheatcode_handler is modified after its definition")
        if isinstance(node, ast.Call) and isinstance(node.func, ast.Attribute) and isinstance(node.func.value, ast.Name) \
                and node.func.value.id == "assert_cheatcode_handler" \
                and node.func.attr in ("update", "pop", "clear", "setdefault", "popitem", "__setitem__", "__delitem__"):
            raise ExtractError("assert_cheatcode_handler is modified after its definition")
    _no_dups(out, "assert_cheatcode_handler")
    if not out:
        raise ExtractError("assert_cheatcode_handler is empty")
    return out


def _sig_from_comment(text: str, what: str) -> str:
    m = KECCAK_COMMENT_RE.search(text)
    if m:
        return _check_sig(m.group(1), what)
    return _check_sig(text.strip(), what)


def extract_hevm_and_halmos():
    text, tree = parse("cheatcodes.py")
    comments = comments_by_line(text)
    only = comment_only_lines(text)

    # hevm_cheat_code.*_sig
    cls = find_class(tree, "hevm_cheat_code")
    hevm = []  # (name, selector, signature)
    for st in cls.body:
        tgt = None
        if isinstance(st, ast.AnnAssign) and isinstance(st.target, ast.Name):
            tgt, val = st.target.id, st.value
        elif isinstance(st, ast.Assign) and len(st.targets) == 1 and isinstance(st.targets[0], ast.Name):
            tgt, val = st.targets[0].id, st.value
        if tgt is None or not tgt.endswith("_sig"):
            continue
        if val is None:
            raise ExtractError(f"hevm_cheat_code.{tgt}: no value")
        sel = _check_selector(int_const(val, f"hevm_cheat_code.{tgt}"), f"hevm_cheat_code.{tgt}")
        line = st.lineno - 1
        if line not in only or line not in comments:
            raise ExtractError(f"hevm_cheat_code.{tgt} (line {st.lineno}): no signature comment on the line above")
        sig = _sig_from_comment(comments[line], f"hevm_cheat_code.{tgt} (comment on line {line})")
        hevm.append((tgt, sel, sig))
    names = [n for n, _, _ in hevm]
    if len(set(names)) != len(names):
        raise ExtractError("hevm_cheat_code: a *_sig name is assigned twice")
    if not hevm:
        raise ExtractError("hevm_cheat_code has no *_sig constants")
    # *_sig constants must not be rebound elsewhere in the module (hevm_cheat_code.x_sig = …)
    for node in ast.walk(tree):
        if isinstance(node, ast.Attribute) and isinstance(node.ctx, (ast.Store, ast.Del)) \
                and isinstance(node.value, ast.Name) and node.value.id in ("hevm_cheat_code", "halmos_cheat_code"):
            raise ExtractError(f"{node.value.id}.{node.attr} is rebound at line {node.lineno}")

    # halmos_cheat_code.handlers
    hcls = find_class(tree, "halmos_cheat_code")
    d = _dict_node(find_assign(hcls.body, "handlers").value, "halmos_cheat_code.handlers")
    halmos = []
    for k, v in zip(d.keys, d.values):
        sel = _check_selector(int_const(k, "halmos_cheat_code.handlers key"), "halmos_cheat_code.handlers")
        if not isinstance(v, ast.Name):
            raise ExtractError(f"halmos_cheat_code.handlers[{sel:#010x}]: value is not a plain function name")
        c = comments.get(v.end_lineno)
        if c is None or v.end_lineno in only:
            raise ExtractError(f"halmos_cheat_code.handlers[{sel:#010x}] (line {k.lineno}): no trailing signature comment")
        halmos.append((sel, _check_sig(c, f"halmos_cheat_code.handlers[{sel:#010x}]"), v.id))
    _no_dups([(s, g) for s, g, _ in halmos], "halmos_cheat_code.handlers")
    if not halmos:
        raise ExtractError("halmos_cheat_code.handlers is empty")
    return hevm, halmos


def extract_console():
    text, tree = parse("console.py")
    comments = comments_by_line(text)
    cls = find_class(tree, "console")
    d = _dict_node(find_assign(cls.body, "handlers").value, "console.handlers")
    defined = {st.name for st in tree.body if isinstance(st, ast.FunctionDef)}
    out = []
    for k, v in zip(d.keys, d.values):
        sel = _check_selector(int_const(k, "console.handlers key"), "console.handlers")
        if not (isinstance(v, ast.Name) and v.id.startswith("log_") and v.id in defined):
            raise ExtractError(f"console.handlers[{sel:#010x}]: value is not a module-level log_* function")
        c = comments.get(v.end_lineno, "")
        m = ALIAS_RE.search(c)
        if m:
            sig = m.group(1)
        elif c:
            raise ExtractError(f"console.handlers[{sel:#010x}]: unrecognised comment {c!r}")
        else:
            sig = "log(" + ",".join(v.id.split("_")[1:]) + ")"
        out.append((sel, _check_sig(sig, f"console.handlers[{sel:#010x}]"), v.id))
    _no_dups([(s, g) for s, g, _ in out], "console.handlers")
    if not out:
        raise ExtractError("console.handlers is empty")
    return out


def _emit_table(lines, name: str, entries, nchunks: int, doc: str):
    cs = chunks(entries, nchunks, name)
    for i, c in enumerate(cs):
        lines.append(f"def {name}{i} : List (Nat × String) := [")
        lines.append(",\n".join(f"  (0x{sel:08X}, {lean_str(sig)})" for sel, sig in c))
        lines.append("]\n")
    lines.append(f"/-- {doc} ({len(entries)} entries) -/")
    lines.append(f"def {name} : List (Nat × String) := " + " ++ ".join(f"{name}{i}" for i in range(nchunks)) + "\n")
    lines.append(f"def {name}Count : Nat := {len(entries)}\n")


def render() -> str:
    a = extract_assert()
    hevm, halmos = extract_hevm_and_halmos()
    con = extract_console()
    L = [
        "/- GENERATED by tools/extract/selectors.py from /repo/src/halmos/{assertions,cheatcodes,console}.py — do not edit. -/",
        "namespace HalmosVerif.Gen.Selectors\n",
    ]
    _emit_table(L, "assertSelectors", a, NCHUNKS["assert"],
                "assertions.py `assert_cheatcode_handler`: selector ↦ the signature passed to `mk_assert_handler`")
    _emit_table(L, "hevmSelectors", [(s, g) for _, s, g in hevm], NCHUNKS["hevm"],
                "cheatcodes.py `hevm_cheat_code.*_sig`: selector ↦ the signature in the comment above the constant")
    L.append("/-- `hevm_cheat_code` constant name ↦ selector (same order as `hevmSelectors`) -/")
    L.append("def hevmSigNames : List (String × Nat) := [")
    L.append(",\n".join(f"  ({lean_str(n)}, 0x{s:08X})" for n, s, _ in hevm))
    L.append("]\n")
    _emit_table(L, "halmosSelectors", [(s, g) for s, g, _ in halmos], NCHUNKS["halmos"],
                "cheatcodes.py `halmos_cheat_code.handlers`: selector ↦ the signature in the trailing comment")
    L.append("/-- `halmos_cheat_code.handlers`: selector ↦ handler function name -/")
    L.append("def halmosHandlerNames : List (Nat × String) := [")
    L.append(",\n".join(f"  (0x{s:08X}, {lean_str(h)})" for s, _, h in halmos))
    L.append("]\n")
    _emit_table(L, "consoleSelectors", [(s, g) for s, g, _ in con], NCHUNKS["console"],
                "console.py `console.handlers`: selector ↦ `log(<types of the handler name>)` or the quoted alias")
    L.append("/-- `console.handlers`: selector ↦ handler function name -/")
    L.append("def consoleHandlerNames : List (Nat × String) := [")
    L.append(",\n".join(f"  (0x{s:08X}, {lean_str(h)})" for s, _, h in con))
    L.append("]\n")
    L.append("end HalmosVerif.Gen.Selectors\n")
    return "\n".join(L)


def main():
    out = GEN / "Selectors.lean"
    try:
        text = render()
    except Exception:
        # fail closed: a stale table must not stay buildable
        write_if_changed(out, "/- extraction failed: see tools/extract/selectors.py -/\n#exit_extraction_failed\n")
        raise
    write_if_changed(out, text)


if __name__ == "__main__":
    main()
    print("wrote", GEN / "Selectors.lean")
