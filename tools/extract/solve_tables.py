"""Extract the data of `solve.py` (refine's regexes, dump's templates, the validity needle, from_result's
dispatch, the regexes of the model/unsat-core parsers) and the abstraction-symbol declarations of `sevm.py`
into lean/HalmosVerif/Gen/SolveTables.lean.

The source is parsed with `ast` (never imported).  Every shape that is not exactly what the Lean model knows how
to interpret raises (= broken obligation): fail closed.
"""
from __future__ import annotations

import ast
import os
from pathlib import Path

VERIF = Path(__file__).resolve().parents[2]
REPO = Path(os.environ.get("HALMOS_REPO", "/repo"))
OUT = VERIF / "lean" / "HalmosVerif" / "Gen" / "SolveTables.lean"


class Bad(Exception):
    pass


def lean_str(s: str) -> str:
    out = ['"']
    for ch in s:
        if ch == "\\":
            out.append("\\\\")
        elif ch == '"':
            out.append('\\"')
        elif ch == "\n":
            out.append("\\n")
        elif ch == "\t":
            out.append("\\t")
        elif 32 <= ord(ch) < 127:
            out.append(ch)
        else:
            out.append("\\u{%x}" % ord(ch))
    out.append('"')
    return "".join(out)


def lean_chars(s: str) -> str:
    """explicit `List Char` literal (kernel evaluation of `String.toList` on literals is slow)"""
    out = []
    for ch in s:
        if ch == "\\":
            out.append("'\\\\'")
        elif ch == "'":
            out.append("'\\''")
        elif ch == "\n":
            out.append("'\\n'")
        elif ch == "\t":
            out.append("'\\t'")
        elif 32 <= ord(ch) < 127:
            out.append(f"'{ch}'")
        else:
            out.append("'\\u{%x}'" % ord(ch))
    return "[" + ", ".join(out) + "]"


def lean_list(xs) -> str:
    return "[" + ", ".join(xs) + "]"


def fundef(tree, name, cls=None):
    body = tree.body
    if cls:
        for n in body:
            if isinstance(n, ast.ClassDef) and n.name == cls:
                body = n.body
                break
        else:
            raise Bad(f"class {cls} not found")
    hits = [n for n in body if isinstance(n, ast.FunctionDef) and n.name == name]
    if len(hits) != 1:
        raise Bad(f"function {name}: {len(hits)} definitions")
    return hits[0]


def strip_doc(stmts):
    if stmts and isinstance(stmts[0], ast.Expr) and isinstance(stmts[0].value, ast.Constant) and isinstance(stmts[0].value.value, str):
        return stmts[1:]
    return stmts


# ---------------------------------------------------------------------------------------------------------
# the regex fragment used by refine:   literal chars, \( \) escapes, (a|b|c) capture, ([0-9]+) capture, \N backrefs
# ---------------------------------------------------------------------------------------------------------
SPECIAL = set(".^$*+?{}[]|()\\")


def parse_rx(p: str):
    """-> list of ('lit', s) | ('alt', [s..]) | ('digits',) | ('backref', n); captures are alt/digits in order"""
    items = []
    lit = []
    i = 0

    def flush():
        if lit:
            items.append(("lit", "".join(lit)))
            lit.clear()

    while i < len(p):
        c = p[i]
        if c == "\\":
            if i + 1 >= len(p):
                raise Bad("dangling backslash in regex")
            d = p[i + 1]
            if d.isdigit():
                if d == "0" or (i + 2 < len(p) and p[i + 2].isdigit()):
                    raise Bad("unsupported backref form")
                flush()
                items.append(("backref", int(d)))
            elif d in SPECIAL:
                lit.append(d)
            else:
                raise Bad(f"unsupported escape \\{d}")
            i += 2
        elif c == "(":
            j = p.find(")", i)
            if j < 0:
                raise Bad("unclosed group")
            inner = p[i + 1 : j]
            flush()
            if inner == "[0-9]+":
                items.append(("digits",))
            else:
                alts = inner.split("|")
                if not alts or any((not a) or any(ch in SPECIAL or ch.isspace() for ch in a) for a in alts):
                    raise Bad(f"unsupported group ({inner})")
                if any(a != b and b.startswith(a) for a in alts for b in alts):
                    raise Bad("an alternative is a prefix of another: first-match order would matter")
                items.append(("alt", alts))
            i = j + 1
        elif c in SPECIAL:
            raise Bad(f"unsupported regex metacharacter {c!r}")
        else:
            lit.append(c)
            i += 1
    flush()
    # the greedy-without-backtracking reading of ([0-9]+) / (a|b) is exact only if what follows is a literal
    # starting with a non-digit (digits) and alternatives are followed by a literal
    ncap = 0
    for k, it in enumerate(items):
        if it[0] in ("digits", "alt"):
            ncap += 1
            if k + 1 >= len(items) or items[k + 1][0] != "lit":
                raise Bad("capture not followed by a literal")
            if it[0] == "digits" and items[k + 1][1][0].isdigit():
                raise Bad("digits followed by a digit literal")
        if it[0] == "backref" and it[1] > ncap:
            raise Bad("backref to a later group")
    if not items or items[0][0] != "lit":
        raise Bad("pattern must start with a literal")
    return items


def parse_tpl(r: str):
    """replacement template -> list of ('lit', s) | ('grp', n)"""
    items, lit, i = [], [], 0
    while i < len(r):
        c = r[i]
        if c == "\\":
            if i + 1 >= len(r) or not r[i + 1].isdigit() or r[i + 1] == "0" or (i + 2 < len(r) and r[i + 2].isdigit()):
                raise Bad("unsupported escape in replacement")
            if lit:
                items.append(("lit", "".join(lit)))
                lit = []
            items.append(("grp", int(r[i + 1])))
            i += 2
        else:
            lit.append(c)
            i += 1
    if lit:
        items.append(("lit", "".join(lit)))
    return items


def sexpr(s: str):
    toks = s.replace("(", " ( ").replace(")", " ) ").split()
    pos = 0

    def rd():
        nonlocal pos
        if pos >= len(toks):
            raise Bad("sexpr: eof")
        t = toks[pos]
        pos += 1
        if t == "(":
            out = []
            while True:
                if pos >= len(toks):
                    raise Bad("sexpr: eof")
                if toks[pos] == ")":
                    pos += 1
                    return out
                out.append(rd())
        if t == ")":
            raise Bad("sexpr: )")
        return t

    v = rd()
    if pos != len(toks):
        raise Bad("sexpr: trailing tokens")
    return v


def body_ast(e) -> str:
    """body of the define-fun in the replacement -> Lean `Rx.Body` term"""
    if e == "x":
        return "Body.x"
    if e == "y":
        return "Body.y"
    if e == ["_", "bv0", "\\2"]:
        return "Body.zero"
    if isinstance(e, list) and len(e) == 3 and e[0] == "\\1":
        return f"(Body.app {body_ast(e[1])} {body_ast(e[2])})"
    if isinstance(e, list) and len(e) == 4 and e[0] == "ite" and isinstance(e[1], list) and len(e[1]) == 3 and e[1][0] == "=":
        return f"(Body.iteEq {body_ast(e[1][1])} {body_ast(e[1][2])} {body_ast(e[2])} {body_ast(e[3])})"
    raise Bad(f"unsupported define-fun body {e}")


def extract_refine(tree):
    f = fundef(tree, "refine")
    body = strip_doc(f.body)
    if [a.arg for a in f.args.args] != ["query"]:
        raise Bad("refine: signature")
    if ast.unparse(body[0]) != "smtlib = query.smtlib":
        raise Bad("refine: first statement")
    if ast.unparse(body[-1]) != "return SMTQuery(smtlib, query.assertions)":
        raise Bad("refine: return statement")
    rules = []
    for st in body[1:-1]:
        if not (isinstance(st, ast.Assign) and len(st.targets) == 1 and ast.unparse(st.targets[0]) == "smtlib"):
            raise Bad("refine: unexpected statement " + ast.unparse(st)[:60])
        c = st.value
        if not (isinstance(c, ast.Call) and ast.unparse(c.func) == "re.sub" and len(c.args) == 3 and not c.keywords):
            raise Bad("refine: expected re.sub(pat, repl, smtlib)")
        pat, rep, subj = c.args
        if not (isinstance(pat, ast.Constant) and isinstance(pat.value, str) and isinstance(rep, ast.Constant) and isinstance(rep.value, str)):
            raise Bad("refine: non-literal pattern")
        if ast.unparse(subj) != "smtlib":
            raise Bad("refine: subject")
        items = parse_rx(pat.value)
        tpl = parse_tpl(rep.value)
        se = sexpr(rep.value)
        want_head = ["define-fun", "f_evm_\\1_\\2", [["x", ["_", "BitVec", "\\2"]], ["y", ["_", "BitVec", "\\2"]]], ["_", "BitVec", "\\2"]]
        if not (isinstance(se, list) and len(se) == 5 and se[:4] == want_head):
            raise Bad("refine: replacement is not the expected define-fun header")
        # the pattern must be exactly a binary declaration over one width
        want = [("lit", "(declare-fun f_evm_"), ("alt", None), ("lit", "_"), ("digits",), ("lit", " ((_ BitVec "), ("backref", 2),
                ("lit", ") (_ BitVec "), ("backref", 2), ("lit", ")) (_ BitVec "), ("backref", 2), ("lit", "))")]
        if len(items) != len(want) or any(a[0] != b[0] or (a[0] != "alt" and a != b) for a, b in zip(items, want)):
            raise Bad("refine: pattern is not the expected binary declaration shape")
        rules.append({"pat": pat.value, "rep": rep.value, "items": items, "tpl": tpl, "ops": items[1][1], "body": body_ast(se[4])})
    if not rules:
        raise Bad("refine: no rules")
    return rules


def extract_needle(tree):
    f = fundef(tree, "is_model_valid")
    body = strip_doc(f.body)
    if len(body) != 1 or not isinstance(body[0], ast.Return):
        raise Bad("is_model_valid: shape")
    v = body[0].value
    if not (isinstance(v, ast.Compare) and len(v.ops) == 1 and isinstance(v.ops[0], ast.NotIn) and isinstance(v.left, ast.Constant)
            and isinstance(v.left.value, str) and ast.unparse(v.comparators[0]) == f.args.args[0].arg):
        raise Bad("is_model_valid: expected `<needle> not in <arg>`")
    return v.left.value


def extract_from_result(tree):
    f = fundef(tree, "from_result", cls="SolverOutput")
    body = strip_doc(f.body)
    src = [ast.unparse(s) for s in body]
    if src[0] != "newline_idx = stdout.find('\\n')" or src[1] != "first_line = stdout[:newline_idx] if newline_idx != -1 else stdout":
        raise Bad("from_result: first-line extraction changed")
    m = [s for s in body if isinstance(s, ast.Match)]
    if len(m) != 1 or ast.unparse(m[0].subject) != "first_line":
        raise Bad("from_result: match statement")
    table, default = [], None
    for case in m[0].cases:
        if case.guard is not None:
            raise Bad("from_result: guarded case")
        rets = [s for s in case.body if isinstance(s, ast.Return)]
        if len(rets) != 1 or not isinstance(rets[0].value, ast.Call) or ast.unparse(rets[0].value.func) != "SolverOutput":
            raise Bad("from_result: case body")
        call = rets[0].value
        a0 = call.args[0]
        kind = a0.id if isinstance(a0, ast.Name) else (a0.value if isinstance(a0, ast.Constant) else None)
        if kind not in ("sat", "unsat", "unknown", "err"):
            raise Bad("from_result: result kind")
        kws = sorted(k.arg for k in call.keywords)
        extra = [ast.unparse(s) for s in case.body if not isinstance(s, ast.Return)]
        if kind == "unsat":
            if kws != ["unsat_core"] or extra != ["unsat_core = parse_unsat_core(stdout) if args.cache_solver else None"]:
                raise Bad("from_result: unsat case")
        elif kind == "sat":
            if kws != ["model"] or extra != ["is_valid = is_model_valid(stdout)", "model = PotentialModel(model=parse_model_str(stdout), is_valid=is_valid)"]:
                raise Bad("from_result: sat case")
        elif kind == "unknown":
            if kws or extra:
                raise Bad("from_result: unknown case")
        else:
            if kws != ["error"] or extra:
                raise Bad("from_result: err case")
        pat = case.pattern
        if isinstance(pat, ast.MatchValue) and isinstance(pat.value, ast.Constant) and isinstance(pat.value.value, str):
            table.append((pat.value.value, kind))
        elif isinstance(pat, ast.MatchAs) and pat.pattern is None:
            default = kind
        else:
            raise Bad("from_result: case pattern")
    if default is None:
        raise Bad("from_result: no default")
    return table, default


def joined_pieces(node, names):
    """string expression (Constant / JoinedStr / implicit concatenation already merged by ast) -> pieces"""
    if isinstance(node, ast.Constant) and isinstance(node.value, str):
        return [("lit", node.value)]
    if isinstance(node, ast.JoinedStr):
        out = []
        for v in node.values:
            if isinstance(v, ast.Constant):
                out.append(("lit", v.value))
            elif isinstance(v, ast.FormattedValue) and v.conversion == -1 and v.format_spec is None:
                e = ast.unparse(v.value)
                if e not in names:
                    raise Bad(f"dump: unexpected interpolation {e}")
                out.append(("var", names[e]))
            else:
                raise Bad("dump: format spec")
        return out
    raise Bad("dump: not a string template")


def extract_dump(tree):
    f = fundef(tree, "dump")
    ifs = [s for s in strip_doc(f.body) if isinstance(s, ast.If) and ast.unparse(s.test) == "args.cache_solver"]
    if len(ifs) != 1:
        raise Bad("dump: cache_solver branch")
    node = ifs[0]
    # cached branch: named_assertions = ''.join([f'...' for assert_id in query.assertions]); dump_file.write_text(...)
    if len(node.body) != 2 or len(node.orelse) != 1:
        raise Bad("dump: branch shapes")
    na = node.body[0]
    if not (isinstance(na, ast.Assign) and ast.unparse(na.targets[0]) == "named_assertions"):
        raise Bad("dump: named_assertions")
    call = na.value
    if not (isinstance(call, ast.Call) and ast.unparse(call.func) == "''.join" and len(call.args) == 1 and isinstance(call.args[0], ast.ListComp)):
        raise Bad("dump: join/listcomp")
    lc = call.args[0]
    if len(lc.generators) != 1 or lc.generators[0].ifs or ast.unparse(lc.generators[0].iter) != "query.assertions" or ast.unparse(lc.generators[0].target) != "assert_id":
        raise Bad("dump: comprehension")
    named = joined_pieces(lc.elt, {"assert_id": "id"})

    def wt(stmt):
        if not (isinstance(stmt, ast.Expr) and isinstance(stmt.value, ast.Call) and ast.unparse(stmt.value.func) == "dump_file.write_text" and len(stmt.value.args) == 1):
            raise Bad("dump: write_text")
        return joined_pieces(stmt.value.args[0], {"query.smtlib": "smtlib", "named_assertions": "named"})

    return named, wt(node.body[1]), wt(node.orelse[0])


def extract_patterns(tree, text):
    # parse_unsat_core: pattern = r"..."; re.search(pattern, output); re.sub(r"<([0-9]+)>", r"\1", name) over match.group(2).split()
    f = fundef(tree, "parse_unsat_core")
    pats = [s for s in ast.walk(f) if isinstance(s, ast.Assign) and ast.unparse(s.targets[0]) == "pattern"]
    if len(pats) != 1 or not isinstance(pats[0].value, ast.Constant):
        raise Bad("parse_unsat_core: pattern")
    core_pat = pats[0].value.value
    src = ast.unparse(f)
    for needle in ("match = re.search(pattern, output)", "[re.sub('<([0-9]+)>', '\\\\1', name) for name in match.group(2).split()]", "return None"):
        if needle not in src:
            raise Bad(f"parse_unsat_core: expected `{needle}`")
    # halmos_var_pattern = re.compile(r"""...""", re.VERBOSE)
    hv = [s for s in tree.body if isinstance(s, ast.Assign) and ast.unparse(s.targets[0]) == "halmos_var_pattern"]
    if len(hv) != 1:
        raise Bad("halmos_var_pattern")
    c = hv[0].value
    if not (isinstance(c, ast.Call) and ast.unparse(c.func) == "re.compile" and len(c.args) == 2 and ast.unparse(c.args[1]) == "re.VERBOSE" and isinstance(c.args[0], ast.Constant)):
        raise Bad("halmos_var_pattern: shape")
    # strip the VERBOSE layout: comments and unescaped whitespace
    out = []
    for line in c.args[0].value.splitlines():
        j, buf = 0, []
        while j < len(line):
            ch = line[j]
            if ch == "\\" and j + 1 < len(line):
                buf.append(line[j : j + 2])
                j += 2
                continue
            if ch == "[":
                k = line.index("]", j)
                buf.append(line[j : k + 1])
                j = k + 1
                continue
            if ch == "#":
                break
            if not ch.isspace():
                buf.append(ch)
            j += 1
        out.append("".join(buf))
    return core_pat, "".join(out)


def extract_check_unsat_cores(tree):
    f = fundef(tree, "check_unsat_cores")
    src = ast.unparse(ast.Module(body=strip_doc(f.body), type_ignores=[]))
    want = "for unsat_core in unsat_cores:\n    if all((core in query.assertions for core in unsat_core)):\n        return True\nreturn False"
    if src != want:
        raise Bad("check_unsat_cores: body changed:\n" + src)
    return True


def extract_symbols(sevm_tree, utils_tree):
    sorts = {}
    for t in (utils_tree, sevm_tree):
        for s in t.body:
            if isinstance(s, ast.Assign) and len(s.targets) == 1 and isinstance(s.targets[0], ast.Name):
                v = s.value
                if isinstance(v, ast.Subscript) and ast.unparse(v.value) == "BitVecSorts" and isinstance(v.slice, ast.Constant):
                    sorts[s.targets[0].id] = int(v.slice.value)

    def width(n):
        if isinstance(n, ast.Name) and n.id in sorts:
            return sorts[n.id]
        if isinstance(n, ast.Subscript) and ast.unparse(n.value) == "BitVecSorts" and isinstance(n.slice, ast.Constant):
            return int(n.slice.value)
        raise Bad(f"unknown sort {ast.unparse(n)}")

    syms = []

    def fun(call, key=None):
        if not (isinstance(call, ast.Call) and ast.unparse(call.func) == "Function" and call.args and isinstance(call.args[0], ast.Constant)):
            return
        name = call.args[0].value
        if not (isinstance(name, str) and name.startswith("f_evm_")):
            return
        ws = [width(a) for a in call.args[1:]]
        if key is not None and (len(set(ws)) != 1 or ws[0] != key):
            raise Bad(f"{name}: dict key {key} differs from widths {ws}")
        syms.append((name, ws[:-1], ws[-1]))

    for t in (sevm_tree, utils_tree):
        for s in ast.walk(t):
            if isinstance(s, ast.Assign):
                v = s.value
                if isinstance(v, ast.Call):
                    fun(v)
                elif isinstance(v, ast.Dict):
                    for k, e in zip(v.keys, v.values):
                        if isinstance(e, ast.Call) and ast.unparse(e.func) == "Function":
                            if not isinstance(k, ast.Constant):
                                raise Bad("abstraction dict with a non-literal key")
                            fun(e, int(k.value))
    # any other construction of an f_evm_ name (f-strings etc.) cannot be tabulated: fail closed
    for t in (sevm_tree, utils_tree):
        for s in ast.walk(t):
            if isinstance(s, ast.JoinedStr) and any(isinstance(v, ast.Constant) and "f_evm_" in str(v.value) for v in s.values):
                raise Bad("f_evm_ name built dynamically")
    if not syms:
        raise Bad("no abstraction symbols found")
    if len({n for n, _, _ in syms}) != len(syms):
        raise Bad("duplicate abstraction symbol")
    return syms


def extract_to_smt2(sevm_tree):
    f = fundef(sevm_tree, "to_smt2", cls="Path")
    src = ast.unparse(ast.Module(body=strip_doc(f.body), type_ignores=[]))
    want = (
        "ids = [str(cond.get_id()) for cond in self.conditions]\n"
        "tmp_solver = create_solver(ctx=Context())\n"
        "for cond in self.conditions:\n"
        "    cond_copied = cond.translate(tmp_solver.ctx)\n"
        "    if args.cache_solver:\n"
        "        tmp_solver.assert_and_track(cond_copied, str(cond.get_id()))\n"
        "    else:\n"
        "        tmp_solver.add(cond_copied)\n"
        "query = tmp_solver.to_smt2()\n"
        "tmp_solver.reset()\n"
        "query = query.replace('(check-sat)', '')\n"
        "return SMTQuery(query, ids)"
    )
    return src == want, src


def pieces_lean(ps):
    out = []
    for p in ps:
        if p[0] == "lit":
            out.append(f".lit {lean_chars(p[1])}")
        elif p[0] == "grp":
            out.append(f".grp {p[1]}")
        elif p[0] == "var":
            out.append(f".var {lean_str(p[1])}")
    return lean_list(out)


def items_lean(items):
    out = []
    for it in items:
        if it[0] == "lit":
            out.append(f".lit {lean_chars(it[1])}")
        elif it[0] == "alt":
            out.append(f".alt {lean_list([lean_chars(a) for a in it[1]])}")
        elif it[0] == "digits":
            out.append(".digits")
        elif it[0] == "backref":
            out.append(f".backref {it[1]}")
    return lean_list(out)


def harvest_ints(*trees_and_names):
    vals = set()
    for tree, names in trees_and_names:
        for n in ast.walk(tree):
            if isinstance(n, ast.FunctionDef) and n.name in names:
                for c in ast.walk(n):
                    if isinstance(c, ast.Constant) and isinstance(c.value, int) and not isinstance(c.value, bool):
                        vals.add(c.value)
    return sorted(vals)


def load():
    solve_src = (REPO / "src/halmos/solve.py").read_text()
    sevm_src = (REPO / "src/halmos/sevm.py").read_text()
    utils_src = (REPO / "src/halmos/utils.py").read_text()
    st, vt, ut = ast.parse(solve_src), ast.parse(sevm_src), ast.parse(utils_src)
    rules = extract_refine(st)
    needle = extract_needle(st)
    table, default = extract_from_result(st)
    named, cached, plain = extract_dump(st)
    core_pat, var_pat = extract_patterns(st, solve_src)
    extract_check_unsat_cores(st)
    syms = extract_symbols(vt, ut)
    smt2_ok, smt2_src = extract_to_smt2(vt)
    if not smt2_ok:
        raise Bad("Path.to_smt2 body changed:\n" + smt2_src)
    return dict(rules=rules, needle=needle, table=table, default=default, named=named, cached=cached, plain=plain,
                core_pat=core_pat, var_pat=var_pat, syms=syms)


def main():
    d = load()
    L = []
    L.append("/- GENERATED by tools/extract/solve_tables.py from src/halmos/solve.py and src/halmos/sevm.py — do not edit. -/")
    L.append("import HalmosVerif.Model.RegexLite")
    L.append("namespace HalmosVerif.Gen.SolveTables")
    L.append("open HalmosVerif.Model.Rx")
    L.append("")
    L.append("/-- `refine`: the `re.sub` calls in source order: (pattern items, replacement template, operator alternatives, body of the define-fun) -/")
    L.append("def refineRules : List Rule := [")
    rs = []
    for r in d["rules"]:
        rs.append("  { pat := " + items_lean(r["items"]) + ",\n    tpl := " + pieces_lean(r["tpl"]) + ",\n    ops := "
                  + lean_list([lean_chars(o) for o in r["ops"]]) + ",\n    body := " + r["body"] + " }")
    L.append(",\n".join(rs) + "]")
    L.append("")
    L.append("/-- raw regexes / replacements as written in the source (for the record; the items above are their parse) -/")
    L.append("def refineRaw : List (String × String) := " + lean_list([f"({lean_str(r['pat'])}, {lean_str(r['rep'])})" for r in d["rules"]]))
    L.append("")
    L.append("/-- abstraction symbols declared in sevm.py/utils.py: (name, argument widths, result width) -/")
    L.append("def abstractionSymbols : List (String × List Nat × Nat) := " + lean_list(
        [f"({lean_str(n)}, {lean_list([str(a) for a in args])}, {res})" for n, args, res in d["syms"]]))
    L.append("")
    L.append(f"/-- `is_model_valid`: the substring whose absence makes a model valid -/\ndef validNeedle : String := {lean_str(d['needle'])}")
    L.append("")
    L.append("/-- `SolverOutput.from_result`: first line ↦ result kind; anything else ↦ default -/")
    L.append("def firstLineTable : List (String × String) := " + lean_list([f"({lean_str(a)}, {lean_str(b)})" for a, b in d["table"]]))
    L.append(f"def firstLineDefault : String := {lean_str(d['default'])}")
    L.append("")
    L.append("/-- `dump`: template of one named assertion, of the file with `--cache-solver`, and of the plain file -/")
    L.append("def dumpNamed : List Piece := " + pieces_lean(d["named"]))
    L.append("def dumpCached : List Piece := " + pieces_lean(d["cached"]))
    L.append("def dumpPlain : List Piece := " + pieces_lean(d["plain"]))
    L.append("")
    L.append(f"/-- `parse_unsat_core`'s regex and `halmos_var_pattern` (VERBOSE layout removed), pinned by theorems next to the hand-written matchers -/")
    L.append(f"def unsatCorePattern : String := {lean_str(d['core_pat'])}")
    L.append(f"def halmosVarPattern : String := {lean_str(d['var_pat'])}")
    L.append("")
    L.append("end HalmosVerif.Gen.SolveTables")
    OUT.parent.mkdir(parents=True, exist_ok=True)
    new = "\n".join(L) + "\n"
    if not OUT.exists() or OUT.read_text() != new:
        OUT.write_text(new)


if __name__ == "__main__":
    main()
