"""Extract the verdict logic of halmos into lean/HalmosVerif/Gen/Verdict.lean (property C05).

Parsed from the source text with `ast` (halmos is never imported):

  __main__.py  Exitcode enum; run_test: the loop-top early-exit check, the per-path classification if-chain, the verdict
               if-chain over Counter(str(m.result)); CounterexampleHandler._get_solver_output (order of the err sources);
               _solve_end_to_end_callback (early exit only on a *valid* model, outputs appended before anything else);
               run_tests (exception -> Exitcode.EXCEPTION); _main (num_failed, no-tests exit, final exit code)
  solve.py     SolverOutput.from_result (first-line dispatch), from_error, is_model_valid needle, solve_low_level
               (TimeoutExpired -> unknown, EXIT_TIMEDOUT), solve_end_to_end (cache hit, refine-once condition)

Data (names, numbers, order of the chains, dispatch table) is emitted as Lean data which the Model interprets; control
shapes the Model hard-codes are compared against their expected normalised source and any difference raises: fail closed.
"""
from __future__ import annotations

import ast
import os
from pathlib import Path

VERIF = Path(__file__).resolve().parents[2]
REPO = Path(os.environ.get("HALMOS_REPO", "/repo"))
OUT = VERIF / "lean" / "HalmosVerif" / "Gen" / "Verdict.lean"


class Bad(Exception):
    pass


def u(node) -> str:
    return ast.unparse(node)


def need(cond, what):
    if not cond:
        raise Bad(what)


def lean_str(s: str) -> str:
    need(all(32 <= ord(c) < 127 and c not in '"\\' for c in s), f"unexpected characters in {s!r}")
    return '"' + s + '"'


def find_def(body, name, kind=ast.FunctionDef):
    hits = [n for n in body if isinstance(n, kind) and n.name == name]
    need(len(hits) == 1, f"{name}: {len(hits)} definitions")
    return hits[0]


def strip_doc(stmts):
    if stmts and isinstance(stmts[0], ast.Expr) and isinstance(stmts[0].value, ast.Constant) and isinstance(stmts[0].value.value, str):
        return stmts[1:]
    return stmts


def exit_name(value) -> str:
    """`Exitcode.NAME.value` -> NAME"""
    s = u(value)
    need(s.startswith("Exitcode.") and s.endswith(".value") and s.count(".") == 2, f"not an Exitcode value: {s}")
    return s.split(".")[1]


# ------------------------------------------------------------------------------------------------ __main__.py


def exitcodes(tree):
    cls = find_def(tree.body, "Exitcode", ast.ClassDef)
    need([u(b) for b in cls.bases] == ["Enum"], "Exitcode is not an Enum")
    out = []
    for st in cls.body:
        need(isinstance(st, ast.Assign) and len(st.targets) == 1 and isinstance(st.targets[0], ast.Name)
             and isinstance(st.value, ast.Constant) and isinstance(st.value.value, int) and not isinstance(st.value.value, bool),
             f"Exitcode member: {u(st)}")
        out.append((st.targets[0].id, st.value.value))
    need(len({n for n, _ in out}) == len(out) and len({v for _, v in out}) == len(out), "Exitcode names/values not distinct")
    consts = {}
    for st in tree.body:
        if isinstance(st, ast.Assign) and len(st.targets) == 1 and isinstance(st.targets[0], ast.Name) and st.targets[0].id in ("PASS", "COUNTEREXAMPLE"):
            consts[st.targets[0].id] = exit_name(st.value)
    need(consts.get("PASS") == "PASS", "module constant PASS is not Exitcode.PASS.value")
    return out


def run_test_parts(tree):
    fn = find_def(tree.body, "run_test")
    body = strip_doc(fn.body)

    # initial counters
    inits = {u(s) for s in body if isinstance(s, ast.Assign)}
    for want in ("normal = 0", "potential = 0", "stuck = []"):
        need(want in inits, f"run_test: missing `{want}`")

    loops = [s for s in body if isinstance(s, ast.For) and u(s.iter) == "enumerate(exs)"]
    need(len(loops) == 1 and u(loops[0].target) == "(path_id, ex)" and u(loops[0].iter) == "enumerate(exs)" and not loops[0].orelse,
         "run_test: exploration loop shape")
    loop = loops[0].body

    # loop-top early-exit check (first statement)
    top = loop[0]
    need(isinstance(top, ast.If) and u(top.test) == "ctx.solving_ctx.executor.is_shutdown()" and not top.orelse
         and isinstance(top.body[-1], ast.Break), "run_test: loop-top shutdown check")

    defs = {u(s) for s in loop if isinstance(s, ast.Assign)}
    for want in ("output = ex.context.output", "error_output = output.error",
                 "panic_found = ex.is_panic_of(args.panic_error_codes)"):
        need(want in defs, f"run_test: missing `{want}`")

    chains = [s for s in loop if isinstance(s, ast.If) and u(s.test) == "panic_found or is_global_fail_set(ex.context)"]
    need(len(chains) == 1, "run_test: classification chain not found")
    node = chains[0]
    pchain = []
    cond_names = {
        "panic_found or is_global_fail_set(ex.context)": "panicOrFail",
        "ex.context.is_stuck()": "isStuck",
        "not error_output": "noError",
    }
    while True:
        c = u(node.test)
        need(c in cond_names, f"run_test: unknown classification condition `{c}`")
        stmts = [s for s in node.body]
        srcs = [u(s) for s in stmts]
        if "potential += 1" in srcs:
            # potential += 1; try: handler.handle_assertion_violation(...) except ShutdownError: ... break
            need(srcs[0] == "potential += 1" and len(stmts) == 2 and isinstance(stmts[1], ast.Try), "potential branch shape")
            tr = stmts[1]
            need(len(tr.body) == 1 and u(tr.body[0]).startswith("handler.handle_assertion_violation(")
                 and len(tr.handlers) == 1 and u(tr.handlers[0].type) == "ShutdownError"
                 and isinstance(tr.handlers[0].body[-1], ast.Break) and not tr.orelse and not tr.finalbody,
                 "potential branch: try/except ShutdownError shape")
            act = "potential"
        elif any(s.startswith("solver_output = solve_low_level(") for s in srcs):
            # confirm with the solver on the main thread, un-guarded (exceptions escape run_test)
            need(not any(isinstance(s, ast.Try) for s in stmts), "stuck branch: unexpected try")
            ifs = [s for s in stmts if isinstance(s, ast.If)]
            need(len(ifs) == 1 and u(ifs[0].test) == "solver_output.result != unsat" and not ifs[0].orelse
                 and u(ifs[0].body[0]) == "stuck.append((path_id, ex, ex.context.get_stuck_reason()))",
                 "stuck branch: confirmation shape")
            i_solve = next(i for i, s in enumerate(srcs) if s.startswith("solver_output = solve_low_level("))
            need(srcs[i_solve] == "solver_output = solve_low_level(path_ctx)" and stmts.index(ifs[0]) == i_solve + 1,
                 "stuck branch: order")
            act = "confirmStuck"
        elif "normal += 1" in srcs:
            need(srcs[-1] == "normal += 1" and all(isinstance(s, (ast.If, ast.AugAssign)) for s in stmts), "normal branch shape")
            act = "normal"
        else:
            raise Bad(f"run_test: unknown classification action {srcs}")
        pchain.append((cond_names[c], act))
        if len(node.orelse) == 1 and isinstance(node.orelse[0], ast.If):
            node = node.orelse[0]
        else:
            need(node.orelse == [], "run_test: classification chain has a final else")
            break
    need(len({c for c, _ in pchain}) == len(pchain), "classification conditions repeated")

    # nothing else in the loop may touch the counters
    for s in loop:
        if s is chains[0]:
            continue
        for n in ast.walk(s):
            if isinstance(n, (ast.AugAssign, ast.Assign)):
                tg = n.target if isinstance(n, ast.AugAssign) else n.targets[0]
                need(u(tg) not in ("normal", "potential", "stuck"), f"counter modified outside the chain: {u(n)}")
            if isinstance(n, ast.Call) and u(n.func) in ("stuck.append", "stuck.clear", "stuck.pop"):
                raise Bad(f"stuck modified outside the chain: {u(n)}")

    # the join before the verdict
    after = body[body.index(loops[0]) + 1:]
    srcs = [u(s) for s in after]
    need("ctx.thread_pool.shutdown(wait=True)" in srcs, "run_test: thread_pool.shutdown(wait=True) missing")
    i_join = srcs.index("ctx.thread_pool.shutdown(wait=True)")
    cnt = "counter = Counter((str(m.result) for m in ctx.solver_outputs))"
    need(cnt in srcs and srcs.index(cnt) > i_join, "run_test: Counter over solver_outputs must follow the join")
    i_cnt = srcs.index(cnt)
    node = after[i_cnt + 1]
    need(isinstance(node, ast.If), "run_test: verdict chain must directly follow the Counter")
    vchain = []
    velse = None
    while True:
        c = node.test
        cs = u(c)
        if (isinstance(c, ast.Compare) and len(c.ops) == 1 and isinstance(c.ops[0], ast.Gt) and u(c.comparators[0]) == "0"
                and isinstance(c.left, ast.Subscript) and u(c.left.value) == "counter" and isinstance(c.left.slice, ast.Constant)
                and isinstance(c.left.slice.value, str)):
            cond = ("counterPos", c.left.slice.value)
        elif cs == "len(stuck) > 0":
            cond = ("stuckPos", None)
        elif cs == "normal == 0":
            cond = ("normalZero", None)
        else:
            raise Bad(f"run_test: unknown verdict condition `{cs}`")
        vchain.append((cond, verdict_branch(node.body)))
        if len(node.orelse) == 1 and isinstance(node.orelse[0], ast.If):
            node = node.orelse[0]
        else:
            velse = verdict_branch(node.orelse)
            break
    # exitcode is not reassigned afterwards and is what the TestResult carries
    rest = after[i_cnt + 2:]
    for s in rest:
        for n in ast.walk(s):
            if isinstance(n, ast.Assign) and any(u(t) == "exitcode" for t in n.targets):
                raise Bad("exitcode reassigned after the verdict chain")
    rets = [n for s in rest for n in ast.walk(s) if isinstance(n, ast.Return)]
    need(len(rets) == 2 and all(u(r.value).startswith("TestResult(funsig, exitcode, ") for r in rets), "run_test: return TestResult(funsig, exitcode, …)")
    return pchain, vchain, velse


def verdict_branch(stmts) -> str:
    asg = [s for s in stmts if isinstance(s, ast.Assign) and u(s.targets[0]) == "exitcode"]
    need(len(asg) == 1, f"verdict branch must assign exitcode once: {[u(s) for s in stmts]}")
    for s in stmts:
        need(isinstance(s, (ast.Assign, ast.Expr)), f"verdict branch: unexpected statement {u(s)}")
    return exit_name(asg[0].value)


EXPECT_GET_SOLVER_OUTPUT = [
    "path_id, query_file = path_ctx.path_id, str(path_ctx.dump_file)",
    "if self.ctx.solving_ctx.executor.is_shutdown():\n    e = 'executor has been shutdown'\n    return SolverOutput.from_error(e, path_id=path_id, query_file=query_file)",
    "if (e := future.exception()):\n    if not is_benign_solving_error(e):\n        error(f'encountered exception during assertion solving: {e!r}')\n    return SolverOutput.from_error(e, path_id=path_id, query_file=query_file)",
    "try:\n    return future.result()\nexcept Exception as e:\n    if not is_benign_solving_error(e):\n        error(f'encountered exception during assertion solving: {e!r}')\n    return SolverOutput.from_error(e, path_id=path_id, query_file=query_file)",
]

EXPECT_CALLBACK_HEAD = [
    "ctx = self.ctx",
    "args = ctx.args",
    "solver_output: SolverOutput = self._get_solver_output(future, path_ctx)",
    "ctx.solver_outputs.append(solver_output)",
    "result, model = solver_output.result, solver_output.model",
    "path_id = solver_output.path_id",
    "if result == unsat:\n    if solver_output.unsat_core:\n        ctx.append_unsat_core(solver_output.unsat_core)\n    return",
    "if result == 'err':\n    error(f'solver_output.error={solver_output.error!r} (solver_output.returncode={solver_output.returncode!r})')\n    self._save_failed_query(path_id, solver_output, 'error')\n    return",
    "if result == unknown:\n    self._save_failed_query(path_id, solver_output, 'timeout')\n    return",
    "if model is None:\n    return",
]


def _norm(src: str) -> str:
    return ast.unparse(ast.parse(src).body[0])


def handler_parts(tree):
    cls = find_def(tree.body, "CounterexampleHandler", ast.ClassDef)
    g = find_def(cls.body, "_get_solver_output")
    got = [u(s) for s in strip_doc(g.body)]
    need(got == [_norm(x) for x in EXPECT_GET_SOLVER_OUTPUT], "_get_solver_output differs from the modelled shape:\n" + "\n".join(got))

    cb = find_def(cls.body, "_solve_end_to_end_callback")
    stmts = strip_doc(cb.body)
    got = [u(s) for s in stmts[: len(EXPECT_CALLBACK_HEAD)]]
    need(got == [_norm(x) for x in EXPECT_CALLBACK_HEAD], "_solve_end_to_end_callback head differs from the modelled shape:\n" + "\n".join(got))
    # early exit: only inside `if model.is_valid:` and guarded by args.early_exit
    shut = []
    for s in stmts:
        for n in ast.walk(s):
            if isinstance(n, ast.Call) and u(n.func).endswith("executor.shutdown"):
                shut.append(n)
    need(len(shut) == 1 and u(shut[0]) == "ctx.solving_ctx.executor.shutdown(wait=False)", "callback: exactly one executor.shutdown(wait=False)")
    valid_ifs = [s for s in stmts if isinstance(s, ast.If) and u(s.test) == "model.is_valid"]
    need(len(valid_ifs) == 1, "callback: `if model.is_valid:` not found")
    inner = [s for s in valid_ifs[0].body if isinstance(s, ast.If) and u(s.test) == "args.early_exit"]
    need(len(inner) == 1 and any(u(x) == "ctx.solving_ctx.executor.shutdown(wait=False)" for x in inner[0].body) and not inner[0].orelse,
         "callback: early exit must be `if model.is_valid: … if args.early_exit: executor.shutdown(wait=False)`")
    need("ctx.valid_counterexamples.append(model)" in [u(s) for s in valid_ifs[0].body], "callback: valid_counterexamples.append")
    need("ctx.invalid_counterexamples.append(model)" in [u(s) for s in valid_ifs[0].orelse], "callback: invalid_counterexamples.append")

    # the callback is what the thread-pool future of solve_end_to_end gets
    h = find_def(cls.body, "handle_assertion_violation")
    srcs = [u(s) for s in strip_doc(h.body)]
    need("solve_future = ctx.thread_pool.submit(solve_end_to_end, path_ctx)" in srcs, "handle_assertion_violation: submit(solve_end_to_end, path_ctx)")
    need(any(s.startswith("solve_future.add_done_callback(partial(self._solve_end_to_end_callback") for s in srcs), "handle_assertion_violation: add_done_callback")
    need("path_ctx = PathContext(args=args, path_id=path_id, query=query, solving_ctx=ctx.solving_ctx)" in srcs, "handle_assertion_violation: PathContext (not refined)")


def run_tests_parts(tree):
    fn = find_def(tree.body, "run_tests")
    loops = [s for s in strip_doc(fn.body) if isinstance(s, ast.For) and u(s.iter) == "funsigs"]
    need(len(loops) == 1, "run_tests: loop over funsigs")
    trys = [s for s in loops[0].body if isinstance(s, ast.Try)]
    need(len(trys) == 1 and len(trys[0].handlers) == 1 and u(trys[0].handlers[0].type) == "Exception", "run_tests: try/except Exception")
    need(u(trys[0].body[-1]) == "test_result = run_test(test_ctx)", "run_tests: run_test call")
    hb = trys[0].handlers[0].body
    app = [s for s in hb if u(s).startswith("test_results.append(TestResult(funsig, ")]
    need(len(app) == 1 and isinstance(hb[-1], ast.Continue), "run_tests: exception handler shape")
    call = app[0].value.args[0]
    need(len(call.args) == 2 and not call.keywords, "run_tests: TestResult(funsig, code)")
    code = exit_name(call.args[1])
    need(u(loops[0].body[-1]) == "test_results.append(test_result)", "run_tests: append(test_result)")
    return code


def main_parts(tree):
    fn = find_def(tree.body, "_main")
    srcs = []
    for n in ast.walk(fn):
        if isinstance(n, ast.stmt):
            srcs.append(u(n))
    for want in ("num_passed = sum((r.exitcode == PASS for r in test_results))", "num_failed = num_found - num_passed",
                 "total_found += num_found", "total_failed += num_failed", "test_results = run_contract(contract_ctx)",
                 "num_found = len(funsigs)", "if num_found == 0:\n    continue"):
        need(want in srcs, f"_main: missing `{want}`")
    top = strip_doc(fn.body)
    last = top[-1]
    prev = top[-2]
    need(isinstance(last, ast.Return) and u(last) == "return on_exit(exitcode)", "_main: final return")
    need(isinstance(prev, ast.Assign) and u(prev.targets[0]) == "exitcode" and isinstance(prev.value, ast.IfExp)
         and u(prev.value.test) == "total_failed == 0" and isinstance(prev.value.body, ast.Constant) and isinstance(prev.value.orelse, ast.Constant),
         "_main: exitcode = A if total_failed == 0 else B")
    ok, bad = prev.value.body.value, prev.value.orelse.value
    none_if = [s for s in top if isinstance(s, ast.If) and u(s.test) == "total_found == 0"]
    need(len(none_if) == 1 and isinstance(none_if[0].body[-1], ast.Return), "_main: `if total_found == 0` shape")
    r = none_if[0].body[-1].value
    need(isinstance(r, ast.Call) and u(r.func) == "MainResult" and len(r.args) == 1 and isinstance(r.args[0], ast.Constant), "_main: MainResult(k) for no tests")
    # on_exit returns MainResult(exitcode, …) unchanged
    on_exit = find_def(fn.body, "on_exit")
    need(any(u(s) == "result = MainResult(exitcode, test_results_map)" for s in on_exit.body) and u(on_exit.body[-1]) == "return result", "_main.on_exit shape")
    return int(ok), int(bad), int(r.args[0].value)


def setup_parts(tree):
    """setup(): the solver filter over the non-reverting setUp() paths keeps every path not answered `unsat`"""
    fn = find_def(tree.body, "setup")
    want_if = _norm("if solver_output.result != unsat:\n    setup_exs.append(ex)\n    if len(setup_exs) > 1:\n        break")
    hits = [n for n in ast.walk(fn) if isinstance(n, ast.If) and u(n) == want_if]
    need(len(hits) == 1, "setup: `if solver_output.result != unsat: setup_exs.append(ex); if len(setup_exs) > 1: break` not found")
    fors = [n for n in ast.walk(fn) if isinstance(n, ast.For) and any(h is c for h in hits for c in n.body)]
    need(len(fors) == 1 and u(fors[0].iter) == "enumerate(setup_exs_no_error)"
         and any(u(c) == "solver_output = solve_low_level(path_ctx)" for c in fors[0].body), "setup: filter loop shape")
    srcs = [u(n) for n in ast.walk(fn) if isinstance(n, ast.Raise)]
    need(any("No successful path found" in x for x in srcs) and any("Multiple paths were found" in x for x in srcs),
         "setup: 0 / >1 remaining paths must raise")


def run_contract_parts(tree):
    fn = find_def(tree.body, "run_contract")
    trys = [s for s in strip_doc(fn.body) if isinstance(s, ast.Try)]
    need(len(trys) == 1 and len(trys[0].handlers) == 1 and u(trys[0].handlers[0].type) == "Exception"
         and u(trys[0].handlers[0].body[-1]) == "return []", "run_contract: setUp failure returns []")
    need(any(u(s) == "test_results = run_tests(ctx, setup_ex, ctx.funsigs)" for s in fn.body), "run_contract: run_tests call")
    need(u(fn.body[-1]) == "return test_results", "run_contract: return")


# ------------------------------------------------------------------------------------------------ solve.py

EXPECT_FROM_RESULT_HEAD = [
    "newline_idx = stdout.find('\\n')",
    "first_line = stdout[:newline_idx] if newline_idx != -1 else stdout",
]

EXPECT_SOLVE_E2E = [
    "path_id, query = ctx.path_id, ctx.query",
    "verbose = print if ctx.args.verbose >= 1 else lambda *args, **kwargs: None",
    "verbose(f'Checking path condition path_id={path_id!r}')",
    "if check_unsat_cores(query, ctx.solving_ctx.unsat_cores):\n    verbose('  Already proven unsat')\n    return SolverOutput(unsat, 0, path_id, str(ctx.dump_file))",
    "solver_output = solve_low_level(ctx)",
    "result, model = solver_output.result, solver_output.model",
    "if result == sat and (not model.is_valid) and (not ctx.is_refined):\n    verbose('  Checking again with refinement')\n    refined_ctx = ctx.refine()\n    if refined_ctx.query.smtlib != query.smtlib:\n        return solve_low_level(refined_ctx)\n    else:\n        verbose('    Refinement did not change the query, no need to solve again')",
    "return solver_output",
]

EXPECT_CHECK_CORES = [
    "for unsat_core in unsat_cores:\n    if all((core in query.assertions for core in unsat_core)):\n        return True",
    "return False",
]


def solve_parts(tree):
    cls = find_def(tree.body, "SolverOutput", ast.ClassDef)
    fr = find_def(cls.body, "from_result")
    need([a.arg for a in fr.args.args] == ["stdout", "stderr", "returncode", "path_ctx"], "from_result signature")
    body = strip_doc(fr.body)
    need([u(s) for s in body[:2]] == [_norm(x) for x in EXPECT_FROM_RESULT_HEAD], "from_result: first-line extraction shape")
    m = body[-1]
    need(isinstance(m, ast.Match) and u(m.subject) == "first_line", "from_result: match first_line")
    for s in body[2:-1]:
        need(not any(isinstance(n, (ast.Return, ast.Raise)) for n in ast.walk(s)), "from_result: early return/raise before the match")
        for n in ast.walk(s):
            if isinstance(n, ast.Assign):
                need(all(u(t) != "first_line" and u(t) != "stdout" for t in n.targets), "from_result: first_line reassigned")
    dispatch, default = [], None
    cache_core = None
    for case in m.cases:
        need(case.guard is None and 1 <= len(case.body) <= 3, "from_result: case body shape")
        ret = case.body[-1]
        need(isinstance(ret, ast.Return) and isinstance(ret.value, ast.Call) and u(ret.value.func) == "SolverOutput", "from_result: case must return SolverOutput(…)")
        r0 = ret.value.args[0]
        res = r0.id if isinstance(r0, ast.Name) else (r0.value if isinstance(r0, ast.Constant) and isinstance(r0.value, str) else None)
        need(res in ("sat", "unsat", "unknown", "err"), f"from_result: result {u(r0)}")
        if isinstance(r0, ast.Constant):
            need(res == "err", "only err is a string result")
        need(u(ret.value.args[1]) == "returncode", "from_result: returncode passed through")
        pat = case.pattern
        if isinstance(pat, ast.MatchValue) and isinstance(pat.value, ast.Constant) and isinstance(pat.value.value, str):
            need(default is None, "from_result: case after the wildcard")
            dispatch.append((pat.value.value, res))
            if res == "unsat":
                need(len(case.body) == 2 and u(case.body[0]) == "unsat_core = parse_unsat_core(stdout) if args.cache_solver else None"
                     and any(k.arg == "unsat_core" and u(k.value) == "unsat_core" for k in ret.value.keywords), "from_result: unsat core only with cache_solver")
                cache_core = True
            if res == "sat":
                need(len(case.body) == 3 and any(k.arg == "model" and u(k.value) == "model" for k in ret.value.keywords), "from_result: sat case")
            if res == "unknown":
                need(len(case.body) == 1, "from_result: unknown case")
        elif isinstance(pat, ast.MatchAs) and pat.pattern is None and pat.name is None:
            default = res
        else:
            raise Bad(f"from_result: pattern {u(pat)}")
    # sat case: validity
    sat_case = [c for c in m.cases if isinstance(c.pattern, ast.MatchValue) and c.pattern.value.value == "sat"]
    need(len(sat_case) == 1, "from_result: one sat case")
    srcs = [u(s) for s in sat_case[0].body]
    need(srcs[:2] == ["is_valid = is_model_valid(stdout)", "model = PotentialModel(model=parse_model_str(stdout), is_valid=is_valid)"], "from_result: sat case body")
    need(default is not None and cache_core, "from_result: wildcard / unsat case missing")
    need(len({k for k, _ in dispatch}) == len(dispatch), "from_result: repeated pattern")

    fe = find_def(cls.body, "from_error")
    need(len(strip_doc(fe.body)) == 1, "from_error shape")
    kw = {k.arg: u(k.value) for k in strip_doc(fe.body)[0].value.keywords}
    need(kw.get("result") == "'err'", "from_error: result='err'")

    imv = find_def(tree.body, "is_model_valid")
    ret = strip_doc(imv.body)[-1]
    need(isinstance(ret, ast.Return) and isinstance(ret.value, ast.Compare) and len(ret.value.ops) == 1 and isinstance(ret.value.ops[0], ast.NotIn)
         and isinstance(ret.value.left, ast.Constant) and isinstance(ret.value.left.value, str) and u(ret.value.comparators[0]) == "solver_stdout"
         and len(strip_doc(imv.body)) == 1, "is_model_valid: `return NEEDLE not in solver_stdout`")
    needle = ret.value.left.value

    sll = find_def(tree.body, "solve_low_level")
    trys = [s for s in strip_doc(sll.body) if isinstance(s, ast.Try)]
    need(len(trys) == 1 and u(trys[0].body[0]) == _norm("stdout, stderr, returncode = future.result()") and len(trys[0].body) == 1
         and len(trys[0].handlers) == 1 and u(trys[0].handlers[0].type) == "subprocess.TimeoutExpired", "solve_low_level: try future.result() except TimeoutExpired")
    hret = trys[0].handlers[0].body[-1]
    need(isinstance(hret, ast.Return) and u(hret.value.func) == "SolverOutput", "solve_low_level: timeout handler returns SolverOutput")
    kw = {k.arg: u(k.value) for k in hret.value.keywords}
    need(kw.get("result") in ("unknown", "unsat", "sat", "'err'") and kw.get("returncode") == "EXIT_TIMEDOUT", "solve_low_level: timeout result")
    timeout_res = kw["result"].strip("'")
    need(u(strip_doc(sll.body)[-1]) == "return SolverOutput.from_result(stdout, stderr, returncode, path_ctx)", "solve_low_level: final return")
    et = [s for s in tree.body if isinstance(s, ast.Assign) and u(s.targets[0]) == "EXIT_TIMEDOUT"]
    need(len(et) == 1 and isinstance(et[0].value, ast.Constant) and isinstance(et[0].value.value, int), "EXIT_TIMEDOUT")

    e2e = find_def(tree.body, "solve_end_to_end")
    got = [u(s) for s in strip_doc(e2e.body)]
    need(got == [_norm(x) for x in EXPECT_SOLVE_E2E], "solve_end_to_end differs from the modelled shape:\n" + "\n".join(got))
    cuc = find_def(tree.body, "check_unsat_cores")
    got = [u(s) for s in strip_doc(cuc.body)]
    need(got == [_norm(x) for x in EXPECT_CHECK_CORES], "check_unsat_cores differs from the modelled shape")
    return dispatch, default, needle, timeout_res, et[0].value.value


# ------------------------------------------------------------------------------------------------ emit


def generate() -> str:
    mt = ast.parse((REPO / "src/halmos/__main__.py").read_text())
    st = ast.parse((REPO / "src/halmos/solve.py").read_text())
    codes = exitcodes(mt)
    pchain, vchain, velse = run_test_parts(mt)
    handler_parts(mt)
    exc_code = run_tests_parts(mt)
    ok, bad, none = main_parts(mt)
    run_contract_parts(mt)
    setup_parts(mt)
    dispatch, default, needle, timeout_res, exit_timedout = solve_parts(st)
    names = {n for n, _ in codes}
    for _, n in vchain:
        need(n in names, f"verdict chain refers to unknown Exitcode {n}")
    need(velse in names and exc_code in names, "unknown Exitcode")

    def vc(c):
        k, a = c
        return f".counterPos {lean_str(a)}" if k == "counterPos" else f".{k}"

    L = []
    L.append("/- GENERATED by tools/extract/verdict.py from src/halmos/__main__.py and src/halmos/solve.py — do not edit. -/")
    L.append("namespace HalmosVerif.Gen.Verdict")
    L.append("")
    L.append("/-- condition of one arm of the verdict if-chain of `run_test` -/")
    L.append("inductive VCond where")
    L.append("  | counterPos (key : String)   -- counter[key] > 0, counter = Counter(str(m.result) for m in ctx.solver_outputs)")
    L.append("  | stuckPos                    -- len(stuck) > 0")
    L.append("  | normalZero                  -- normal == 0")
    L.append("  deriving DecidableEq, Repr")
    L.append("")
    L.append("/-- condition of one arm of the per-path classification chain of `run_test` -/")
    L.append("inductive PCond where")
    L.append("  | panicOrFail   -- panic_found or is_global_fail_set(ex.context)")
    L.append("  | isStuck       -- ex.context.is_stuck()")
    L.append("  | noError       -- not error_output")
    L.append("  deriving DecidableEq, Repr")
    L.append("")
    L.append("inductive PAct where")
    L.append("  | potential      -- potential += 1; submit solve_end_to_end to the thread pool")
    L.append("  | confirmStuck   -- solve_low_level on the main thread (unguarded); stuck unless the result is `unsat`")
    L.append("  | normal         -- normal += 1")
    L.append("  deriving DecidableEq, Repr")
    L.append("")
    L.append("/-- `class Exitcode(Enum)` -/")
    L.append("def exitcodes : List (String × Nat) := [" + ", ".join(f"({lean_str(n)}, {v})" for n, v in codes) + "]")
    L.append("")
    L.append("/-- the verdict if-chain, in source order; the first arm whose condition holds decides -/")
    L.append("def verdictChain : List (VCond × String) := [" + ", ".join(f"({vc(c)}, {lean_str(n)})" for c, n in vchain) + "]")
    L.append(f"def verdictElse : String := {lean_str(velse)}")
    L.append("")
    L.append("/-- the classification chain, in source order (no final else: other paths are not counted) -/")
    L.append("def pathChain : List (PCond × PAct) := [" + ", ".join(f"(.{c}, .{a})" for c, a in pchain) + "]")
    L.append("")
    L.append("/-- `SolverOutput.from_result`: first line of stdout ↦ result; anything else ↦ `dispatchDefault` (return code ignored) -/")
    L.append("def dispatch : List (String × String) := [" + ", ".join(f"({lean_str(k)}, {lean_str(v)})" for k, v in dispatch) + "]")
    L.append(f"def dispatchDefault : String := {lean_str(default)}")
    L.append(f"/-- `is_model_valid`: the model is valid iff this needle does not occur in stdout -/")
    L.append(f"def validNeedle : String := {lean_str(needle)}")
    L.append(f"/-- `solve_low_level`: subprocess.TimeoutExpired ↦ this result, return code EXIT_TIMEDOUT -/")
    L.append(f"def timeoutResult : String := {lean_str(timeout_res)}")
    L.append(f"def exitTimedout : Nat := {exit_timedout}")
    L.append(f"/-- `run_tests`: an exception escaping `run_test` ↦ TestResult(funsig, Exitcode.<this>) -/")
    L.append(f"def runTestsExceptionCode : String := {lean_str(exc_code)}")
    L.append(f"/-- `_main`: exit code when every selected test passed / some did not / nothing was selected -/")
    L.append(f"def mainExitAllPassed : Nat := {ok}")
    L.append(f"def mainExitSomeFailed : Nat := {bad}")
    L.append(f"def mainExitNoTests : Nat := {none}")
    L.append("")
    L.append("end HalmosVerif.Gen.Verdict")
    return "\n".join(L) + "\n"


def main():
    text = generate()
    OUT.parent.mkdir(parents=True, exist_ok=True)
    if not OUT.exists() or OUT.read_text() != text:
        OUT.write_text(text)


if __name__ == "__main__":
    main()
    print(OUT.read_text())
