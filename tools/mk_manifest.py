#!/usr/bin/env python3
"""Regenerate /verif/MANIFEST.json from the table below (kept here so the manifest stays valid and uniform)."""
import json
from pathlib import Path

VERIF = Path(__file__).resolve().parents[1]

# id -> (technique, level text, level note, design ref)
CLAIMED = {
    "C01": (
        "Lean 4 simulation proof: Props.C01.sound / sound_exec — every untagged end state of the model of SEVM.run's exploration core (worklist, dispatch, Exec.check, jumpi with visit counters and loop bound, --depth, Path.append/concretization), under every valuation satisfying its path, is reached by the reference EVM (Spec.Evm) with exactly that halt, those returned bytes and that storage/transient storage of the executing account (WRel); no bound on program size, steps or inputs, no assumption on the solver; word instructions through C06's op_exact. Tie: exact model-vs-implementation comparison of the exploration on generated core programs with a fixed oracle, plus pointwise differential of the REAL SEVM against the Lean reference EVM on structured programs over the whole supported instruction set (memory, storage, hashing, logs, calls, creations) with solver-found and random inputs",
        "Proof for the core instruction set (stack/word/control/calldata/environment instructions, memory MLOAD/MSTORE/MSTORE8/CALLDATACOPY/CODECOPY, RETURN/REVERT with data, RETURNDATASIZE/COPY, SLOAD/SSTORE/TLOAD/TSTORE on concrete slots < 2^64 with the static-context check: the theorem covers halt kind, returned bytes AND the storage of the halting world; everything else ends the model path as stuck, so the theorem is stated for all programs); Props.C01.sound_calls extends the simulation to nested message calls (Model.SevmCalls.runC: CALL/CALLCODE with literal zero value, DELEGATECALL, STATICCALL to literal targets with known code, any nesting depth, snapshot rollback of every account's storage on a failing callee, static-flag inheritance, return-area truncation, RETURNDATASIZE/COPY, LOG0-4 with rollback, EXTCODESIZE/EXTCODECOPY/CODESIZE on literal addresses) against Spec.Evm.exec, with WRelM describing the storage of every modelled account in the halting world; BALANCE/SELFBALANCE and value-bearing CALL/CALLCODE are modelled on halmos' Store-chain balance array (insufficient-funds split, debit-then-credit, rollback; WRelM.bal states the balances of the halting world) under the visible hypotheses BalHyp (I's balance_0 is the start world's balances) and, for completeness, BalBound (total supply <= 2^128, the documented balance assumption, proved preserved by transfers); symbolic targets, precompile/cheat addresses and depth 1024 end the model path as stuck; SHA3 of a memory range as a value is modelled with exactly the conditions sha3_data appends (sound_calls needs only ShaInterp: I's f_sha3_N is Keccak-256; complete_calls/flagged_calls take the visible assumption ShaOK/HashIdeal that those appended conditions hold along the run); CREATE is modelled (Model.SevmCalls createOut/createEnd, tied to the real SEVM by the correspondence run, model-level theorems create_frame_model/create_fail_model/create_success_model in Props.C09Core) and its simulation is proved, including value-bearing creations (sound_calls_create / complete_calls_create / flagged_calls_create under the visible allocator-agreement hypothesis p.newAddress (w.created + n) = (allocBase + n) mod 2^160; the relation is stated against the start world extended by the created accounts' code and the advanced allocator counter); the create-free sound_calls/complete_calls/flagged_calls carry cfg.create = false and are stated on the plain start world (runC_noCr); hashed storage slots are modelled for single-level 256-bit-key mappings and dynamic arrays (Cfg.hsto; correspondence on ~3000 programs) with machine-level theorems in all three directions (sound_calls_hsto, complete_calls_hsto, flagged_calls_hsto; the location tie decodeSlot_ok and chain well-formedness are proved) under the visible hash-ideal hypothesis HstoOK (the hashed location is >= 2^64 and collides with no other cell met on the path) and, for completeness, HEmptyZero; nested mappings, packed keys, generic layout, CREATE2 and symbolic init code are covered by the differential run only (C08/C09 prove their components separately); halmos' own memory-limit errors are tagged end states about which nothing is claimed (hypothesis cfg.maxMem + 32 <= memLimit is visible in the statements). The 1024-item stack limit, which halmos does not model, is a tagged end state of the model (stackLimit) about which nothing is claimed, and a recorded known finding",
        "Trusted: Lean kernel, Spec.Evm as the meaning of EVM execution, Model.Sevm (hand model; int_of substitution, calldata size candidates, PUSH32 empty-keccak and the dynamic-array overflow quick check are approximated as stuck), z3 only as a search aid for inputs; known findings recorded for MSIZE, value-bearing CALL in a static frame, JUMPI with symbolic condition and invalid destination",
        "DESIGN.md §4 C01",
    ),
    "C02": (
        "Lean 4 theorem Props.C02.complete: if the reference EVM terminates with halt h on an input, the model's run has an end state whose path the input satisfies and which reports h (or is stuck/tagged), or a flag is raised — requiring of the solver only that `unsat` answers are sound (discard_only_if_unsat, unknown_never_discards hold for every oracle and every branching timeout); tie as for C01 plus oracle stress (a seeded subset of Path.check queries forced to `unknown`) and solver-found 'covered by no path' inputs on the real SEVM",
        "Proof for the core instruction set and, through complete_calls, for nested message calls (same scope as C01.sound_calls); alias resolution, symbolic JUMP enumeration, size candidates, insufficient-fund split and cheatcode branching are covered by the differential run (uncovered-input search) only; one recorded deviation (alias to the test-contract address) is not yet replayed by a directed case",
        "Trusted: as C01; the documented modelling assumptions (hash range/injectivity, balances <= 2^128) are excluded as the property says",
        "DESIGN.md §4 C02",
    ),
    "C09": (
        "Lean 4 theorems on an executable interaction-tree model of SEVM.call / SEVM.create (snapshots, value transfer, insufficient-fund branch, callbacks, returndata copy, depth limit): atomic / atomic_tree (a failing frame leaves code, storage, transient storage and balances as at its entry, for every callee behaviour and every tree), success_persists, caller_sees, frame_context (+table for CALL/STATICCALL/DELEGATECALL/CALLCODE/CREATE), static_enforced for SSTORE/TSTORE/LOG/CREATE with a proved counterexample for value-bearing CALL (recorded finding), value_conserved by structural induction over trees, insufficient_fails, depth_limit, kernel-checked agreement with Spec.Evm.exec on two call programs; Props.C09Core proves atomicity (atomic_model, atomic_spec, atomic_sim), the snapshot discipline (conts_discipline) and the per-call-kind context table (context_table_model/_spec, context_sim) on the call machine Model.SevmCalls.runC that C01.sound_calls / C02.complete_calls relate to Spec.Evm.exec for every program; tie: random and directed call trees (depth <= 4) compiled to contracts and run on the REAL SEVM, compared three ways with the Lean model (Driver/Calls) and the reference EVM, plus the generic SEVM-vs-reference differential on call scenarios",
        "Full proof on the model for trees of any depth and width; CREATE2 and pranked calls are proved in the model but not exercised differentially (CREATE2 addresses are symbolic keccak terms in halmos); gas stipends are not modelled",
        "Trusted: Lean kernel, Spec.Evm, Model.Calls (hand model, three-way correspondence), the tree-to-bytecode compiler in tools/vlib/callsmodel.py",
        "DESIGN.md §4 C09",
    ),
    "C10": (
        "Lean 4 theorems Props.C10.flagged (no flag and no satisfied stuck/tagged end state implies every terminating concrete input is reported by a satisfied end state), loop_bound_flag, concrete_loops_uncut, must_uncut (for every --loop, including 0), bounded_only_in_jumpi, cuts_flagged, flags_persist on the model of the exploration core; tie: exact comparison of flags with the real SEVM on core programs (--depth placed at the exact step count +-1), loop-heavy programs against the reference EVM, concrete-count loops under --loop 1..3, and end-to-end runs of run_contract on loop tests (regular, --width, --depth, setUp, invariant targets) requiring the warning whenever a failure lies beyond the cut",
        "Proof on the core model for the SEVM-level flags (flagged_calls / cuts_flagged_calls for the call machine); the propagation of flags to warnings / non-PASS in __main__.py is checked end to end (differential), not modelled in Lean",
        "Trusted: as C01; halmos' logger as the observation point for warnings",
        "DESIGN.md §4 C10",
    ),
    "C03": (
        "Lean 4 composition theorem pass_sound over arbitrary path lists (PASS with no flag implies no admissible input fails, from explicit hypotheses H1 coverage [C02/C10], H2 path faithfulness [C01/C12], H3 query = path [C11/C13], H4 solver sound on unsat) + setup_single_path; Props.C03Core discharges H1 and H2 for the exploration-core machine from C02.complete and C01.sound_exec (covered_core, faithful_core, pass_sound_core: PASS + no flag + H3 + H4 imply Spec.Evm.exec never ends in a configured Panic, for every valuation; hlit_needed shows the literal-Panic-code side condition cannot be dropped); Props.C03Calls does the same on the frame-stack machine runC (pass_sound_calls, _bytes, _all: nested calls, balances and value, SHA3, LOG, EXTCODE*, CREATE, mapping/array storage cells; admissibility AdmC = the visible hypotheses of C01.sound_calls_hsto / C02.complete_calls_hsto; failing_call_not_pass for non-vacuity); Props.C03Setup lifts it to the whole test run (pass_sound_test: setUp transaction then the test transaction on the world setUp left; model nextTx / runCFrom mirroring SEVM.run_message + Path.extend_path; C01.sound_calls_from, C02.complete_calls_from, relC_nextTx; admissibility AdmT; non-vacuity failing_test_not_pass; the coremodel correspondence runs two-transaction programs against the real run_message); end-to-end differential run of the real run_contract on generated test contracts (guarded assertion failures: equalities, inequalities, arithmetic needing refinement, hashes, array lengths, storage set in setUp; static and dynamic parameters) against brute force on the Lean reference EVM, both solvers and both storage layouts, with replay of every printed counterexample",
        "Composition proof as strong as its premises (each premise is another property's theorem/check; the solver's soundness on unsat is a stated hypothesis); the end-to-end half is a differential exploration (no PASS on a reachable failure in ~130 tests per quick run)",
        "Trusted: Lean kernel, Spec.Evm, the artifact fabricator (hand-assembled forge JSON), external solvers yices/z3",
        "DESIGN.md §4 C03",
    ),
    "C15": (
        "Lean 4 theorems on a model of _compute_frontier: frontier_complete_digest (no assumption on the digest: every state reached by n calls is represented at some level <= n or a prefix was merged into a state with equal digest, by induction on depth), frontier_complete under DigestFaithful, dedup_only_identical, filters_as_foundry_*, invariant_checked_each, and decide-proved counterexamples showing the current digest is not faithful (Block fields) — replayed on the real code; end-to-end differential run of invariant tests on stateful target contracts against a breadth-first brute force of all call sequences on the Lean reference EVM (depths 0-3, all six target/exclude filters)",
        "Proof of the frontier/dedup/filter logic on the model; coverage of each transaction's paths inherits C02; the recorded digest finding shows the faithful-digest hypothesis fails for block fields",
        "Trusted: Lean kernel, Spec.Evm + Driver/E2e brute force, Model.Frontier (hand model), digest collision-freedom (hypothesis)",
        "DESIGN.md §4 C15",
    ),
    "C20": (
        "Lean 4 theorems on an abstract heap: isolation (if every in-place-mutated field is copied to the depth of the mutation at a fork site, no operation sequence on the child changes the parent), copy_table_ok by `decide` on the copy-mode table of the Exec(...) construction sites regenerated from sevm.py each run, order_independent on the abstract runTests model; dynamic checks: every order/subset/repetition of the tests of generated contracts through the real run_contract with normalised results, uid streams replaced, deep fingerprints of sibling worklist states before/after the other sibling runs",
        "Proof over a heap abstraction + extracted copy table; which fields are mutated in place is a hand table validated dynamically; singletons and logger de-duplication are covered by the dynamic check only (one recorded finding)",
        "Trusted: Lean kernel, Model.Heap, extractor copy_table.py, the fingerprinting harness; runs use --solver-timeout-branching 0 (path counts vary with the 1 ms default; stated assumption)",
        "DESIGN.md §4 C20",
    ),
    "C04": (
        "Lean 4 theorems (const_roundtrip for every width/value in the three solver syntaxes by induction on digits, valid_means_no_abstraction, abstract_never_valid, printed_is_model) over an executable model of solve.py's model parsing and labelling; tied to the code by an extractor for the regex/needle/dispatch tables and a differential run of the real parser, from_result, is_model_valid and the real counterexample callback on real yices/z3 outputs and synthetic ones",
        "Proof for the parsing/labelling half (all widths, all values); reproducibility of valid counterexamples on the reference EVM is exercised by the C01/C03 engines, not proved here",
        "Trusted: Lean kernel, the hand model Model.ModelParse (correspondence-validated), the regex transcription (RegexBT), solver binaries as producers of test outputs. End-to-end replay of counterexamples inherits the C01 stage coverage",
        "DESIGN.md §4 C04",
    ),
    "C05": (
        "Lean 4 theorems over arbitrary lists of paths and arbitrary completion schedules (pass_iff, precedence_order, perm_invariant with and without early exit, exit_nonzero_iff, timeout_never_unsat, garbage_is_err, and decide-proved counterexamples for the three recorded deviations) on a model whose verdict chain and dispatch tables are regenerated from __main__.py/solve.py each run; differential run of the real run_contract/_main on hand-assembled artifacts with a scripted stub solver controlling replies and completion order",
        "Proof of the decision logic for all numbers of paths and all permutations of completion order; the thread hand-off itself is C17's subject; three genuine deviations are recorded known findings with proved witnesses",
        "Trusted: Lean kernel, Model.Verdict (hand model + extractor verdict.py that fails closed on the shape of run_test, from_result, solve_low_level, _main), the stub-solver harness; --solver-threads is over-approximated (all schedules)",
        "DESIGN.md §4 C05",
    ),
    "C07": (
        "Lean 4 refinement proof: every ByteVec method refines the flat zero-extended byte array (refines_* per method with WF preservation and error branches), lifted by induction over arbitrary operation histories on any number of objects (history_refines), plus copy_independent and the read-over-write laws stated outright (Props.C07Laws: flat_get_write on the spec, get_after_set_slice / get_after_set_word / slice_after_set_slice on the chunked object for every layout); the aliasing variant of the model is proved NOT to refine (decide witnesses) and the live variant is detected at run time; differential run of the real ByteVec / State / Message wrappers against the model, the spec and a Python flat array after every operation",
        "Full proof on the model for all histories; tie by correspondence (exhaustive length<=2 histories over a 66-operation alphabet + sampled length 3 + 4000 random histories of length <= 40 per quick run, with layout comparison)",
        "Trusted: Lean kernel, Model.ByteVec (hand model), sortedcontainers, z3 Extract/Concat (bytes compared as canonical tokens); a ByteVec passed whole to its own append/set_slice and negative offsets are stated exclusions",
        "DESIGN.md §4 C07",
    ),
    "C08": (
        "Lean 4 theorems: load_after_store / load_returns_last_write by induction on arbitrary store histories against a flat storage spec, decode_faithful under HashIdeal for the layout grammar (both layouts; generic same-shape iff is partial), select_sound, transient_fresh, precomputed_tables_ok (all 768 table entries are Keccak of their preimages, kernel-evaluated), OffsetMap lookup theorems; tables regenerated from hashes.py each run; differential run of storage programs on the real SEVM (both layouts) against the Lean reference EVM with real Keccak, and of the real decoder/OffsetMap against the Lean models",
        "Proof for location terms of the stated layout grammar under the documented HashIdeal assumption; outside the grammar the code raises (stuck, fail-safe); normalize's re-association is a parameter; cross-shape aliasing is shown impossible to decide by decode alone (proved counterexample) and relies on Solidity typing",
        "Trusted: Lean kernel, Spec.Keccak (validated against eth_hash each run), Model.Storage/Model.OffsetMap (hand models, correspondence-validated), z3 term shapes",
        "DESIGN.md §4 C08",
    ),
    "C13": (
        "Lean 4 theorems: selectors_ok (every cheatcode selector in assertions.py/cheatcodes.py/console.py equals the Keccak selector of its Forge-std signature, kernel-evaluated Keccak, tables regenerated from the source each run), handler_semantics (for every table entry, all calldata and interpretations, the condition built denotes the Forge-std relation: unsigned/signed order, bitwise equality, element-wise array equality, length-sensitive bytes/string), assert_fail_exact, assume_exact, fail_propagates (any nesting depth), derive_agrees/table ties; differential run of the real handler on all 76 selectors + vm.assume (direct and through generated SEVM programs at nesting depth 0-1, quick) against the Lean model and the Forge spec, plus end-to-end verdicts",
        "Full proof for word types and for bytes/string/T[] with concrete offsets (symbolic offsets raise -> stuck, stated); two recorded findings about truncated cheatcode calldata",
        "Trusted: Lean kernel, Spec.Keccak (validated against eth_hash), Spec.Forge (Forge-std semantics as read by us), Model.Assertions, extractors selectors.py / assert_table.py",
        "DESIGN.md §4 C13",
    ),
    "C14": (
        "Lean 4 theorems: prank_refines (the Model's (msg.sender, tx.origin) per frame equals the Foundry state machine for ALL histories without console calls, by induction with a frame-stack invariant; the console case is a proved counterexample = recorded finding), prank_scope_*, prank_no_override, create_width_range_* / create_fresh for every encoder, state_cheats_exact; the lookup exclusion list and resolve_prank call sites are regenerated from the source; differential run of exhaustive short prank histories and random call trees, every state cheatcode and every create*/random* selector on the real SEVM against Model, Spec and the reference EVM",
        "Full proof for Prank and the encoders on the model; state cheatcodes are proved on an abstract state and tied by differential runs; reachability of every bytesN payload is sampled, not proved",
        "Trusted: Lean kernel, Spec.Foundry (the Foundry book semantics as read by us; DELEGATECALL/origin choices are stated assumptions), Model.Prank, extractor prank.py",
        "DESIGN.md §4 C14",
    ),
    "C06": (
        "Lean 4 theorems over an executable model of bitvec.py / the word-instruction cases of SEVM.run (op_exact: every instruction, every operand representation, every sound simplifier, every standard interpretation), model tied to the code by a differential run of one-instruction SEVM executions against the Lean model and the Lean EVM spec",
        "Proof on the model for all 2^256 operand values and all representation combinations (36 theorems: op_exact for all 25 instructions, abstraction_axioms_valid, fast_eq_slow, bool coercions, exp_by_const, promptness bound; Props.C06Algebra states the named laws outright as corollaries for every representation pair: by_zero_gives_zero / modzero_gives_zero for divisors and moduli that merely denote 0, commutative_ops, compare_mirror, iszero_is_eq_zero, self_cancel, oversize_shift, byte_out_of_range, exp_zero_exponent, sdiv_overflow_wraps, not_involutive, and spec_closed / result_in_range: Spec.Word and the model map 256-bit words to 256-bit words for all 25 instructions); the tie to the code is a correspondence run (about 10^4 cases per quick run, all 25 instructions x 9 operand representations, boundary + harvested-literal + random values, two valuations per symbolic case) plus probes for promptness and for the shared TRUE/FALSE singletons",
        "Trusted: Lean kernel (axioms propext, Classical.choice, Quot.sound), Spec.Word as the meaning of the EVM, z3 simplify (hypothesis SimpSound), the hand-written model Model.BitVecOps (validated by correspondence, not generated), harness and z3-AST evaluator. Symbolic SIGNEXTEND size is rejected by design (NotConcreteError) and outside the claim; abstraction=None branches are not reached from SEVM.run",
        "DESIGN.md §4 C06",
    ),
    "C11": (
        "Lean 4 theorems (none_dropped incl. sliced parents and the cached form, named_equisat, refine_exact, refine_untouched, refine_covers with exp stated as the uncovered symbol) over a model of Path.to_smt2 / dump / refine whose regexes, templates and abstraction table are regenerated from the source each run; differential run re-parsing the real to_smt2/dump/refine output with z3 against And(path.conditions)",
        "Proof for the script transformations for arbitrary condition sets and interpretations; the text-level refine theorem is proved for the 9 declared abstraction symbols (all that sevm.py declares), not for arbitrary digit strings",
        "Trusted: Lean kernel, z3's printer/parser (sexpr/parse_smt2_string), the SMT-LIB script semantics written in Model.Query, extractor solve_tables (fails closed on any unexpected shape incl. the literal bodies of to_smt2 and check_unsat_cores)",
        "DESIGN.md §4 C11",
    ),
    "C12": (
        "Lean 4 theorems by structural induction on ABI type trees (encode_general_all/encode_general/create_general: every well-typed value whose dynamic lengths are among the candidates is an instance of the symbolic calldata and decodes back; abi_dec_enc; size_field_ok; leaves_distinct; unsupported_rejected) over a model of calldata.py; differential run of the real mk_calldata against the model (item by item) and against the Lean ABI spec (decode of instantiated calldata), plus candidate branching on the real SEVM",
        "Full-strength proof on the model (no nesting/arity bound); one recorded exception proved as a negation (T[0] of dynamic T, not expressible in Solidity); calldataload candidate branching is covered by the harness on the real SEVM only",
        "Trusted: Lean kernel, Spec.Abi as the meaning of the Solidity ABI, the hand model Model.Calldata (correspondence-validated), distinctness of (name, uid, counter) naming triples is an explicit hypothesis of leaves_distinct_names",
        "DESIGN.md §4 C12",
    ),
    "C16": (
        "Lean 4 theorems (cache_sound_if_stable / cache_transparent_if_stable by induction on query histories under IdStable; cache_unsound_recycled_cex proving the unconditional statement false) over a model of the unsat-core cache; monitor of IdStable on real runs + directed allocator-driving search that reproduces a flipped verdict on the real code (recorded known finding)",
        "Conditional proof: the cache is transparent iff assertion ids are stable; the hypothesis is not guaranteed by the code (z3 AST ids are recycled) and the check demonstrates the flip on the real solve_end_to_end; core_parse_ok is proved on the three solver output shapes only (partial)",
        "Trusted: Lean kernel, Model.Cache (hand model, correspondence-validated against parse_unsat_core / check_unsat_cores / solve_end_to_end), real yices/z3 as core producers",
        "DESIGN.md §4 C16",
    ),
    "C17": (
        "Lean 4 theorems over a labelled transition system of PopenFuture/PopenExecutor (result_once, timeout_is_unknown, after_shutdown_quiescent and after_join_quiescent for the repaired code, with decide-proved counterexample schedules for each unrepaired site), for any number of jobs and all interleavings by induction on traces; tied to the code by deterministic schedule replay of the REAL classes under a cooperative scheduler substituted into halmos.processes, plus real-subprocess runs",
        "Proof over the model for all schedules; correspondence compares enabled-step sets and final states on thousands of enumerated schedules (bounded preemptions) and random walks; real OS process/pipe/signal behaviour is not modelled (partial by nature); liveness is enabledness + rank decrease under fair scheduling",
        "Trusted: Lean kernel, Model.Popen (hand model; variant detected structurally and by replaying the counterexample schedules), the cooperative scheduler harness, CPython threading primitives, psutil",
        "DESIGN.md §4 C17",
    ),
    "C18": (
        "Lean 4 theorems (precedence for all layer stacks against an independent argmax spec, annotation_scope, solver_command_rule, unbounded round trips for every structured option type incl. timeout_roundtrip on exact decimals, malformed_rejected) over a model of config.py with the source order / field / action tables regenerated from the source each run; differential run on the real Config, parsers, TOML/natspec/devdoc loaders and the run_tests derivation, plus an exhaustive 10^5-point millisecond grid on real floats",
        "Full proof on the model; binary float rounding inside parse/unparse is covered by the exhaustive grid only; argparse/shlex are modelled for whitespace-separated long options",
        "Trusted: Lean kernel, Model.Config (hand model, correspondence-validated), CPython's int()/float()/str.isspace tables (compared with the running CPython over all code points each run)",
        "DESIGN.md §4 C18",
    ),
    "C19": (
        "Lean 4 theorems for all byte strings, all chunkings / concrete-prefix splits and all pcs (jumpdests_eq, jumpdests_sweep, decode_eq, decode_past_end, slice_eq_read, getitem_eq, never_jumps_into_push_data, accepts_every_jumpdest, decode_cache_transparent) over a model of contract.py with opcode constants and insn_len regenerated from the source; differential run exhaustive over a decoding-class-preserving alphabet with every split, random code up to 4 KiB and real SEVM jump programs",
        "Full proof on the model; one recorded exception with a proved negation (a numeral byte inside a symbolic chunk ends the sweep)",
        "Trusted: Lean kernel, Spec.Code (Yellow Paper 9.4.3), Model.Contract (hand model, correspondence-validated), extractor opcodes",
        "DESIGN.md §4 C19",
    ),
}

PENDING_REASON = "check not built yet in this session (planned; see DESIGN.md §6 staging) — not a statement that the technique cannot apply"

ALL = [f"C{i:02d}" for i in range(1, 21)]


def main():
    checks = []
    for pid, (technique, text, note, ref) in sorted(CLAIMED.items()):
        checks.append({
            "property_id": pid,
            "quick_cmd": f"./check {pid} --tier quick",
            "thorough_cmd": f"./check {pid} --tier thorough",
            "evidence_file": f"evidence/{pid}.json",
            "replay_cmd_template": f"./check {pid} --replay {{path}}",
            "engine": "lean4-proof+correspondence",
            "level_claimed": {"category": "proof", "text": text, "design_ref": ref},
            "level_note": note,
            "technique": technique,
        })
    man = {
        "version": 1,
        "setup_cmd": "./setup.sh",
        "hooks": {
            "guard": "HALMOS_VERIF",
            "enable": "no source hooks are needed: every observation point is reached by importing halmos in-process from /repo/src and substituting module-level names from the harness; HALMOS_VERIF=1 is reserved should one become necessary",
            "baseline_off_cmd": "cd /repo && /venv/bin/python -m pytest -ra -q -p no:cacheprovider --timeout=900 --continue-on-collection-errors",
            "source_commits": [],
            "add_only": True,
        },
        "engines": [{
            "name": "lean4-proof+correspondence",
            "path": "lean/ (lake project HalmosVerif) + tools/ (runner, extractors, harnesses)",
            "serves_properties": sorted(CLAIMED),
            "kind_free_text": "Lean 4 theorems over executable models of halmos components; models tied to /repo on every run by table extractors regenerated from source and by differential correspondence runs (implementation vs Lean model vs independent Lean spec)",
        }],
        "checks": checks,
        "notes": "All checks: ./check <id> --tier quick|thorough (cwd /verif); honours VERIF_SEED; exit 0 = held, 1 = VIOLATION line(s), 2 = timeout/infrastructure. known_findings.json lists recorded genuine defects.",
        "not_applicable": [
            {"property_id": pid, "reason": PENDING_REASON} for pid in ALL if pid not in CLAIMED
        ],
    }
    (VERIF / "MANIFEST.json").write_text(json.dumps(man, indent=1) + "\n")
    print(f"MANIFEST.json: {len(checks)} checks, {len(man['not_applicable'])} not claimed")


if __name__ == "__main__":
    main()
