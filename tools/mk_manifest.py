#!/usr/bin/env python3
"""Regenerate /verif/MANIFEST.json from the table below (kept here so the manifest stays valid and uniform)."""
import json
from pathlib import Path

VERIF = Path(__file__).resolve().parents[1]

# id -> (technique, level text, level note, design ref)
CLAIMED = {
    "C06": (
        "Lean 4 theorems over an executable model of bitvec.py / the word-instruction cases of SEVM.run (op_exact: every instruction, every operand representation, every sound simplifier, every standard interpretation), model tied to the code by a differential run of one-instruction SEVM executions against the Lean model and the Lean EVM spec",
        "Proof on the model for all 2^256 operand values and all representation combinations; the tie to the code is a correspondence run (about 10^4 cases per quick run, all 25 instructions x 9 operand representations, boundary + harvested-literal + random values, two valuations per symbolic case) plus probes for promptness and for the shared TRUE/FALSE singletons",
        "Trusted: Lean kernel (axioms propext, Classical.choice, Quot.sound), Spec.Word as the meaning of the EVM, z3 simplify (hypothesis SimpSound), the hand-written model Model.BitVecOps (validated by correspondence, not generated), harness and z3-AST evaluator. Symbolic SIGNEXTEND size is rejected by design (NotConcreteError) and outside the claim; abstraction=None branches are not reached from SEVM.run",
        "DESIGN.md §4 C06",
    ),
}

PENDING_REASON = "check not built yet in this session (planned; see DESIGN.md §6 staging) — not a statement that the technique cannot apply"

ALL = [f"C{i:02d}" for i in range(1, 21)]


def main():
    checks = []
    for pid, (technique, text, note, ref) in sorted(CLAIMED.items()):
        checks.append({
            "property_id": pid,
            "quick_cmd": f"./check {pid} --tier quick",
            "thorough_cmd": f"./check {pid} --tier thorough",
            "evidence_file": f"evidence/{pid}.json",
            "replay_cmd_template": f"./check {pid} --replay {{path}}",
            "engine": "lean4-proof+correspondence",
            "level_claimed": {"category": "proof", "text": text, "design_ref": ref},
            "level_note": note,
            "technique": technique,
        })
    man = {
        "version": 1,
        "setup_cmd": "./setup.sh",
        "hooks": {
            "guard": "HALMOS_VERIF",
            "enable": "no source hooks are needed: every observation point is reached by importing halmos in-process from /repo/src and substituting module-level names from the harness; HALMOS_VERIF=1 is reserved should one become necessary",
            "baseline_off_cmd": "cd /repo && /venv/bin/python -m pytest -ra -q -p no:cacheprovider --timeout=900 --continue-on-collection-errors",
            "source_commits": [],
            "add_only": True,
        },
        "engines": [{
            "name": "lean4-proof+correspondence",
            "path": "lean/ (lake project HalmosVerif) + tools/ (runner, extractors, harnesses)",
            "serves_properties": sorted(CLAIMED),
            "kind_free_text": "Lean 4 theorems over executable models of halmos components; models tied to /repo on every run by table extractors regenerated from source and by differential correspondence runs (implementation vs Lean model vs independent Lean spec)",
        }],
        "checks": checks,
        "notes": "All checks: ./check <id> --tier quick|thorough (cwd /verif); honours VERIF_SEED; exit 0 = held, 1 = VIOLATION line(s), 2 = timeout/infrastructure. known_findings.json lists recorded genuine defects.",
        "not_applicable": [
            {"property_id": pid, "reason": PENDING_REASON} for pid in ALL if pid not in CLAIMED
        ],
    }
    (VERIF / "MANIFEST.json").write_text(json.dumps(man, indent=1) + "\n")
    print(f"MANIFEST.json: {len(checks)} checks, {len(man['not_applicable'])} not claimed")


if __name__ == "__main__":
    main()
