"""C01 — every reported execution path is a real EVM behaviour (see vlib/sevmcheck.py)."""
from vlib.runner import VERIF

ID = "C01"
EXTRACTORS = []
LEAN_MODULES = ["HalmosVerif.Props.C01"]
RULE = ("programs from a structured grammar (expressions over calldata/env/storage/memory/hash leaves, if/else, counted loops "
        "with concrete and symbolic trip counts, copies, logs, nested calls to generated callees of every outcome kind, "
        "creations) + a malformed stream; per program the real SEVM runs symbolically; concrete inputs = random/boundary + a "
        "solver model of every reported path + solver models of 'covered by no path' (each re-validated by evaluation); "
        "the Lean reference EVM runs every input; a case = (program, input); all are non-trivial (each executes the program)")
TRUSTED = ["Spec.Evm (Lean reference interpreter) is the meaning of 'concrete EVM execution'; Spec.Keccak validated against eth_hash",
           "z3 as a search aid for inputs (never as the judge: every input is re-validated by evaluating the path conditions)"]
ASSUMPTIONS = ["keccak is read as the real Keccak-256; its injectivity witnesses f_inv_sha3_* are assumed to exist (HashIdeal)",
               "balances are at most 2^128 (halmos' documented MAX_ETH assumption)",
               "gas is not modelled: GAS/GASPRICE/BLOCKHASH are excluded from generated programs",
               "CREATE addresses follow halmos' deterministic allocator (a parameter of the reference EVM)"]

# generator exclusions: each one exists only because of a recorded known finding (known_findings.json) that the
# corpus replays deterministically; remove the exclusion when the defect is repaired
FEATURES = {"calls": True, "create": True, "static": True,
            "symbolic_target": True, "value_in_static": False,   # known finding corpus:static-call-with-value (value-bearing CALL inside a static frame)
            }                           # MSIZE is never generated: known finding corpus:msize-after-mload

CFGS = [{}, {"loop": 3}, {"solver_timeout_branching": 0}, {"storage_layout": "generic"}, {"symbolic_storage": True}, {"symbolic_storage": True, "storage_layout": "generic"}]


def correspond(ctx):
    from vlib import sevmcheck

    n = ctx.scale(60, 1000)
    sevmcheck.run(ctx, ID, dict(FEATURES), n_scenarios=n, n_random_inputs=ctx.scale(6, 12), cfgs=CFGS,
                  malformed=ctx.scale(25, 300))
    # code with symbolic immutables (concrete | PUSH32 <symbolic word> | concrete), jump destinations located after the holes
    from vlib import proggen

    sevmcheck.run(ctx, ID, {}, n_scenarios=ctx.scale(16, 300), n_random_inputs=ctx.scale(6, 12),
                  cfgs=[{}, {"symbolic_jump": True}], gen=proggen.gen_immutable, corpus=False)
    # one word instruction on operands of mixed representation (Bool-typed comparison results, run-time-concrete words with
    # dirty bits, calldata words), observed as data and through a branch: every instruction x representation tuple, twice
    # (different constants), then random ones
    # ... preceded by one program per instruction over a grid of run-time-concrete operand tuples (the concrete fast paths)
    grid_ops = iter(proggen.BIN + proggen.UN + proggen.TER)
    sevmcheck.run(ctx, ID, {}, n_scenarios=len(proggen.BIN + proggen.UN + proggen.TER), n_random_inputs=1, cfgs=[{}],
                  gen=lambda rng: proggen.gen_concrete_grid(rng, next(grid_ops)), corpus=False)
    plan = proggen.wordmix_plan() * 2
    it = iter(plan)
    sevmcheck.run(ctx, ID, {}, n_scenarios=len(plan) + ctx.scale(20, 500), n_random_inputs=ctx.scale(4, 10), cfgs=[{}],
                  gen=lambda rng: proggen.gen_wordmix(rng, next(it, None)), corpus=False)


def replay(ctx, data):
    print("replay of SEVM scenarios: see vlib/sevmcheck.py; stored program and inputs are in the file")
    return True
