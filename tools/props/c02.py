"""C02 — no feasible behaviour is dropped during exploration (see vlib/sevmcheck.py, vlib/coremodel.py)."""
ID = "C02"
EXTRACTORS = []
LEAN_MODULES = ["HalmosVerif.Props.C02"]
RULE = ("same scenario stream as C01; for every concrete input (random/boundary, a solver model of every path, solver "
        "models of 'covered by no path') the check asks for a reported path whose constraints the input satisfies, unless the "
        "run raised a flag (bounded loop, stuck path, incompleteness warning); half of the scenarios run with Path.check "
        "answering `unknown` to a seeded subset of queries (oracle stress) and with --solver-timeout-branching in "
        "{0, 1ms, large}; plus exact model-vs-implementation comparison of the exploration on core programs with a fixed oracle")
TRUSTED = ["Spec.Evm (Lean reference interpreter); z3 only as a search aid for uncovered inputs (each re-validated by evaluation)"]
ASSUMPTIONS = ["documented modelling assumptions are excluded as the property says: hash range/injectivity, balances <= 2^128",
               "gas-dependent instructions are not generated"]

FEATURES = {"calls": True, "create": True, "static": True, "symbolic_target": True, "value_in_static": False}
CFGS = [{}, {"loop": 3}, {"loop": 1}, {"solver_timeout_branching": 0}, {"solver_timeout_branching": 1000},
        {"storage_layout": "generic"}, {"symbolic_storage": True}, {"symbolic_storage": True, "storage_layout": "generic"}]


def gen_symjump(rng):
    """JUMP with a symbolic destination (--symbolic-jump): the destination is an arithmetic combination of label addresses
    selected by bits of a0, and the same JUMP is reached on several paths that constrain those bits differently (a branch
    on a condition over a0 or an unrelated word, then a rejoin), so the set of feasible targets differs per path"""
    from vlib import asm
    from vlib.evmdiff import MAIN, Scenario

    nt = rng.choice([2, 2, 3])
    labels = [f"T{i}" for i in range(nt)]
    bits = [("push", 4), "CALLDATALOAD", ("push", 1), "AND"], [("push", 4), "CALLDATALOAD", ("push", 1), "SHR", ("push", 1), "AND"]
    pre = []
    shape = rng.choice(["bit0", "lt", "eq", "other", "none"])
    if shape != "none":
        cond = {"bit0": [("push", 4), "CALLDATALOAD", ("push", 1), "AND"],
                "lt": [("push", rng.choice([1, 2, 3])), ("push", 4), "CALLDATALOAD", "LT"],
                "eq": [("push", rng.choice([0, 1, 2, 3])), ("push", 4), "CALLDATALOAD", "EQ"],
                "other": [("push", 0x24), "CALLDATALOAD"]}[shape]
        side = [("push", rng.randrange(1, 9)), ("push", 0x40), "MSTORE"]
        if rng.random() < 0.5:
            pre = cond + [("ref", "J"), "JUMPI"] + side + [("label", "J")]
        else:
            pre = cond + [("ref", "S"), "JUMPI", ("ref", "J"), "JUMP", ("label", "S")] + side + [("label", "J")]
    # dest = T0 + b0*(T1-T0) [+ b1*(T2-T0)]
    dest = [("ref", "T0")]
    for i in range(1, nt):
        dest += [("ref", "T0"), ("ref", labels[i]), "SUB"] + list(bits[i - 1]) + ["MUL", "ADD"]
    blocks = []
    for i, l in enumerate(labels):
        end = rng.choice(["ret", "ret", "rev", "stop"])
        body = [("label", l), ("push", i + 1), ("push", 0), "MSTORE", ("push", 0x40), "MLOAD", ("push", 0x20), "MSTORE"]
        body += {"ret": [("push", 0x40), ("push", 0), "RETURN"], "rev": [("push", 0x20), ("push", 0), "REVERT"], "stop": ["STOP"]}[end]
        blocks += body
    # a 0x5b byte inside push data, so that an off-by-some destination is not accidentally valid
    items = pre + dest + ["JUMP", ("push", 0x5B5B), "POP", "INVALID"] + blocks
    return Scenario({MAIN: asm.assemble(items)}, nargs=2), {f"symjump:{shape}": 1, f"symjump:targets{nt}": 1}


def correspond(ctx):
    import z3

    from vlib import coremodel, sevmcheck
    from halmos import sevm as S

    # (iii) oracle stress: a seeded subset of Path.check queries is answered `unknown`
    orig = S.Path.check
    rng = ctx.rng
    state = {"on": False}

    def stressed(self, cond):
        if state["on"] and rng.random() < 0.5:
            ctx.count("oracle-stress:forced-unknown")
            return z3.unknown
        return orig(self, cond)

    S.Path.check = stressed
    try:
        n = ctx.scale(30, 400)
        sevmcheck.run(ctx, ID, dict(FEATURES), n_scenarios=n, n_random_inputs=ctx.scale(6, 12), cfgs=CFGS, malformed=ctx.scale(10, 150))
        state["on"] = True
        sevmcheck.run(ctx, ID, dict(FEATURES), n_scenarios=n, n_random_inputs=ctx.scale(6, 12), cfgs=CFGS, corpus=False)
        # (iv) symbolic JUMP destinations under --symbolic-jump
        state["on"] = False
        sevmcheck.run(ctx, ID, {}, n_scenarios=ctx.scale(24, 300), n_random_inputs=ctx.scale(8, 12),
                      cfgs=[{"symbolic_jump": True}, {"symbolic_jump": True, "solver_timeout_branching": 0}], gen=gen_symjump, corpus=False)
        # (v) code with symbolic immutables (concrete | PUSH32 <symbolic word> | concrete), jump destinations after the holes
        from vlib import proggen

        sevmcheck.run(ctx, ID, {}, n_scenarios=ctx.scale(16, 300), n_random_inputs=ctx.scale(6, 12),
                      cfgs=[{}, {"symbolic_jump": True}], gen=proggen.gen_immutable, corpus=False)
        # one word instruction on operands of mixed representation (Bool-typed comparison results, run-time-concrete words with
        # dirty bits, calldata words), observed as data and through a branch: every instruction x representation tuple, twice
        # (different constants), then random ones
        # ... preceded by one program per instruction over a grid of run-time-concrete operand tuples (the concrete fast paths)
        grid_ops = iter(proggen.BIN + proggen.UN + proggen.TER)
        sevmcheck.run(ctx, ID, {}, n_scenarios=len(proggen.BIN + proggen.UN + proggen.TER), n_random_inputs=1, cfgs=[{}],
                      gen=lambda rng: proggen.gen_concrete_grid(rng, next(grid_ops)), corpus=False)
        plan = proggen.wordmix_plan() * 2
        it = iter(plan)
        sevmcheck.run(ctx, ID, {}, n_scenarios=len(plan) + ctx.scale(20, 500), n_random_inputs=ctx.scale(4, 10), cfgs=[{}],
                      gen=lambda rng: proggen.gen_wordmix(rng, next(it, None)), corpus=False)
    finally:
        S.Path.check = orig
    stale = coremodel.compare_core(ctx, ctx.scale(60, 1200))
    if stale:
        raise RuntimeError(f"Model.Sevm disagrees with the real SEVM exploration on {len(stale)} core programs; first: {stale[0]}")


def replay(ctx, data):
    print("stored program and inputs are in the replay file; re-run ./check C02 to re-evaluate the corpus")
    return True
