"""C02 — no feasible behaviour is dropped during exploration (see vlib/sevmcheck.py, vlib/coremodel.py)."""
ID = "C02"
EXTRACTORS = []
LEAN_MODULES = ["HalmosVerif.Props.C02"]
RULE = ("same scenario stream as C01; for every concrete input (random/boundary, a solver model of every path, solver "
        "models of 'covered by no path') the check asks for a reported path whose constraints the input satisfies, unless the "
        "run raised a flag (bounded loop, stuck path, incompleteness warning); half of the scenarios run with Path.check "
        "answering `unknown` to a seeded subset of queries (oracle stress) and with --solver-timeout-branching in "
        "{0, 1ms, large}; plus exact model-vs-implementation comparison of the exploration on core programs with a fixed oracle")
TRUSTED = ["Spec.Evm (Lean reference interpreter); z3 only as a search aid for uncovered inputs (each re-validated by evaluation)"]
ASSUMPTIONS = ["documented modelling assumptions are excluded as the property says: hash range/injectivity, balances <= 2^128",
               "gas-dependent instructions are not generated"]

FEATURES = {"calls": True, "create": True, "static": True, "symbolic_target": True, "value_in_static": False}
CFGS = [{}, {"loop": 3}, {"loop": 1}, {"solver_timeout_branching": 0}, {"solver_timeout_branching": 1000},
        {"storage_layout": "generic"}]


def correspond(ctx):
    import z3

    from vlib import coremodel, sevmcheck
    from halmos import sevm as S

    # (iii) oracle stress: a seeded subset of Path.check queries is answered `unknown`
    orig = S.Path.check
    rng = ctx.rng
    state = {"on": False}

    def stressed(self, cond):
        if state["on"] and rng.random() < 0.5:
            ctx.count("oracle-stress:forced-unknown")
            return z3.unknown
        return orig(self, cond)

    S.Path.check = stressed
    try:
        n = ctx.scale(30, 700)
        sevmcheck.run(ctx, ID, dict(FEATURES), n_scenarios=n, n_random_inputs=ctx.scale(6, 12), cfgs=CFGS, malformed=ctx.scale(10, 150))
        state["on"] = True
        sevmcheck.run(ctx, ID, dict(FEATURES), n_scenarios=n, n_random_inputs=ctx.scale(6, 12), cfgs=CFGS, corpus=False)
    finally:
        S.Path.check = orig
    stale = coremodel.compare_core(ctx, ctx.scale(60, 1200))
    if stale:
        raise RuntimeError(f"Model.Sevm disagrees with the real SEVM exploration on {len(stale)} core programs; first: {stale[0]}")


def replay(ctx, data):
    print("stored program and inputs are in the replay file; re-run ./check C02 to re-evaluate the corpus")
    return True
