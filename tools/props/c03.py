"""C03 — PASS means no admissible input violates the test (end to end).

Real code under test: halmos.__main__.run_contract (deploy_test, setup, run_tests, run_test, run_message, the counterexample
handler), calldata.mk_calldata, the whole SEVM and solve.py — through `run_contract_offline` on hand-assembled artifacts.
Ground truth: the reference EVM (Lean Spec.Evm, Driver/E2e.lean) run on the witness the generator built together with the
guard, on boundary values / a small domain sweep, and on the counterexample halmos printed.
Model + theorem: lean/HalmosVerif/Model/Main.lean, Props/C03.lean (`pass_sound`, `setup_single_path`).
"""
from __future__ import annotations

import json
import os
import random

from vlib import e2e
from vlib.runner import VERIF

ID = "C03"
EXTRACTORS = []
LEAN_MODULES = ["HalmosVerif.Props.C03", "HalmosVerif.Props.C03Core", "HalmosVerif.Props.C03Calls", "HalmosVerif.Props.C03Setup"]
RULE = (
    "test contracts from the grammar in tools/vlib/e2e.py: setUp() storing constants (sometimes CREATE-ing a helper) + 3 check_* "
    "functions with 1-3 static parameters (uint256/address/bool/int256) and optionally one dynamic parameter (bytes / uint256[]); "
    "body = guarded failure (Panic(1) / legacy fail flag / vm.assertTrue / assertFalse / assertEq), guard = conjunction (single "
    "JUMPI or short-circuit chain) of atoms: equalities, inequalities, masks, x*y / x/y / x%y (symbolic operands: refinement), "
    "x*c, x%c, keccak of words / of dynamic content, array length and elements, storage written by setUp, optional vm.assume; "
    "every second contract also has a counted loop with a symbolic trip count (while-shaped, and do-while-shaped whose back edge is "
    "the taken JUMPI side) failing only after exactly k iterations, run with a per-function --loop below / above k; "
    "atoms whose sub-expression has only run-time-concrete operands (literals, setUp storage; dirty / boundary values) under every "
    "word instruction incl. SIGNEXTEND/SAR/SMOD/SDIV/BYTE/SHL/EXP, alone or tied to a parameter; "
    "`new C(arg)` with a constructor that panics for some argument derived from the test's parameter, the caller bubbling the "
    "revert data up or swallowing it (CREATE / CREATE2); guards on a memory word stored in the tail of a call's output window when the callee (identity precompile / helper contract) "
    "returns fewer bytes than the window; failures behind a JUMP to a JUMPDEST that follows a PUSH32 constant with embedded PUSH-opcode bytes (EIP-1967 slot, random); "
    "value-bearing CALLs (symbolic value) to reverting / accepting / conditionally reverting callees deployed by setUp, the failure "
    "swallowed, with assertions on balance(this) / balance(callee) that hold only with or only without the refund; "
    "tests where one sibling path learns x == c1 and the other re-reads x from calldata and fails for x == c2 (flat / nested, "
    "learning side explored first / last, x used directly, after arithmetic, through memory); "
    "a family of tests with several assertion-bearing sibling paths of identical shape (per-length branches of a bytes / uint256[] "
    "parameter, `if (a == k_i)` ladders) whose bodies assert L(x,y) == R(x,y) over symbolic products / quotients — valid on some "
    "siblings, violable on exactly one, in every position — run with --cache-solver (--solver-threads 1 and default) and without; "
    "half reachable (built around a witness), half contradictory (negated atom, empty interval, length outside the bounds, hash "
    "injectivity, arithmetic impossibility, assumption excluding the guard). Each contract is run by the real run_contract "
    "(yices / z3, storage layout solidity / generic); every test is one case, distinct by (guard shape, failure kind, solver, layout)."
)
TRUSTED = [
    "Spec.Evm + Spec.Keccak (Lean) are the meaning of a concrete run; the cheatcode stub (vlib/e2e.hevm_stub) is the meaning of vm.assume/assert*/fail flag",
    "the external solvers (yices-smt2, z3) are sound on `unsat` (hypothesis H4 of pass_sound)",
    "pass_sound is a composition theorem: its hypotheses H1 (C02), H2 (C01), H3 (C13/C11) are discharged by those properties' own checks, not here",
]
ASSUMPTIONS = [
    "admissible inputs = ABI-valid argument values whose dynamic sizes are among the size candidates halmos prints as bounds",
    "ground truth is sampled (witness + boundaries + small sweep), not exhaustive over 2^256",
]

VERDICT = {0: "PASS", 1: "FAIL", 2: "TIMEOUT", 3: "ERROR-stuck", 4: "ERROR-revert-all", 5: "ERROR-exception"}


def _solver_cmds():
    from vlib.artifacts import YICES_COMMAND, Z3_COMMAND
    import shutil

    out = []
    if os.path.exists(YICES_COMMAND.split()[0]):
        out.append(("yices", YICES_COMMAND))
    if shutil.which("z3"):
        out.append(("z3", Z3_COMMAND))
    return out


def _why_class(why: str) -> str:
    """stable class of a guard: sorted atom tags (+ the contradiction tag)"""
    base, _, contra = why.partition("|contra:")
    tags = "+".join(sorted(set(base.split("+"))))
    return tags + ("|contra:" + contra if contra else "")


def run_halmos(gen, solver_cmd, layout, timeout_ms=4000, **cfg):
    from vlib.artifacts import run_contract_offline

    return run_contract_offline(gen.desc, solver_command=solver_cmd, others=gen.others, storage_layout=layout,
                                solver_timeout_assertion=f"{timeout_ms}ms", **cfg)


def _flagged(run, funsig) -> list:
    """warnings / errors that qualify a verdict of this test (mentioning it, or not attributable to another test)"""
    out = []
    for lv, msg in run.log:
        if lv not in ("WARNING", "ERROR", "CRITICAL"):
            continue
        if msg.startswith("unknown deployed bytecode"):
            continue   # informational (a CREATEd contract that is not in the build output): says nothing about completeness
        if funsig in msg or "check_" not in msg:
            out.append(msg)
    return out


def collect(ctx, jobs, batch):
    """jobs: list of dict(gen, solver, layout, run); add the reference requests for each job's tests to `batch`"""
    for job in jobs:
        gen, run = job["gen"], job["run"]
        snap = 0
        batch.world(gen.desc, snapshot=snap)
        job["ref"] = {}
        by = run.by_name if run is not None else {}
        for chk in gen.checks:
            ent = {"inputs": [], "idx": [], "cex": []}
            inputs = []
            if chk.witness is not None:
                inputs.append(("witness", list(chk.witness)))
            for v in e2e.sweep_inputs(ctx.rng, chk, gen, limit=job.get("sweep", 40)):
                inputs.append(("sweep", v))
            for tag, vals in inputs:
                batch.load(snap)
                cd = e2e.calldata(chk.canon, chk.params, vals)
                ent["inputs"].append((tag, vals))
                ent["idx"].append(batch.call(e2e.FOUNDRY_TEST, cd))
            r = by.get(chk.canon)
            for m in (r.models or []) if r is not None and r.models else []:
                if m.model is None:
                    continue
                try:
                    vals, mx = e2e.model_values(m.model, chk.params, gen.dyn_sizes)
                    cd = e2e.calldata(chk.canon, chk.params, vals, mx)
                except Exception as exc:  # noqa: BLE001
                    ent["cex"].append((m, None, f"undecodable model: {exc}"))
                    continue
                batch.load(snap)
                ent["cex"].append((m, batch.call(e2e.FOUNDRY_TEST, cd), cd.hex()))
            job["ref"][chk.canon] = ent


def _cex_key(chk, cls):
    if "hash" in chk.why:  # hash, dhash, contra:hash-injective
        return "cex-replay:guard-compares-keccak-of-input-with-constant"
    return f"cex-replay:{chk.kind}|{cls}"


def judge(ctx, jobs, batch):
    for job in jobs:
        gen, run, solver, layout = job["gen"], job["run"], job["solver"], job["layout"]
        panic_codes = job.get("panic_codes", (1,))
        ctx.count("panic-codes:" + (",".join(map(hex, panic_codes)) or "*"))
        by = run.by_name
        for chk in gen.checks:
            ent = job["ref"][chk.canon]
            r = by.get(chk.canon)
            verdict = VERDICT.get(r.exitcode, str(r.exitcode)) if r is not None else "MISSING"
            cls = _why_class(chk.why)
            ctx.case(f"{cls}|{chk.kind}|{chk.style}|{solver}|{layout}|{job.get('opts')}|{','.join(p.typ for p in chk.params)}")
            ctx.count(f"verdict:{'reachable' if chk.reachable else 'unreachable'}:{verdict}")
            ctx.count(f"kind:{chk.kind}")
            ctx.count(f"solver:{solver}/{layout}")
            ctx.count("option:" + job.get("opts", "default"))
            for t in set(chk.why.replace("|contra:", "+contra:").split("+")):
                ctx.count(f"atom:{t}")
            if any(p.dynamic for p in chk.params):
                ctx.count("param:dynamic")
            outs = [batch.outcome(i) for i in ent["idx"]]
            failing = [(tag, vals, o) for (tag, vals), o in zip(ent["inputs"], outs) if o.fails(panic_codes)]
            bad = [o for o in outs if o.halt in ("outOfFuel", "bad-op") or o.halt.startswith("unsupported")]
            if bad:
                raise RuntimeError(f"reference run unusable for {gen.desc.name}.{chk.canon}: {bad[0].raw[:200]}")
            ctx.count("ref:inputs", len(outs))
            ctx.count("ref:failing-inputs", len(failing))
            wit_fails = any(tag == "witness" for tag, _, _ in failing)
            if chk.reachable and not wit_fails:
                # the generator's witness does not fail on the reference EVM: a generator slip, not a halmos finding
                ctx.count("generator:witness-not-confirmed")
            replay = {"contract": job["spec"], "test": chk.canon, "solver": solver, "layout": layout, "why": chk.why,
                      "kind": chk.kind, "verdict": verdict}
            flagged = _flagged(run, chk.canon)
            if r is not None and (r.num_bounded_loops or 0) > 0:
                flagged = flagged + [f"num_bounded_loops={r.num_bounded_loops}"]
            if chk.why.startswith("loop:"):
                ctx.count(f"loop:{chk.why}|{verdict}|{'flagged' if flagged else 'clean'}")
            if verdict == "MISSING":
                ctx.violation(f"test-missing|{cls}|{chk.kind}", f"{gen.desc.name}.{chk.canon}: no TestResult returned "
                              f"(errors: {run.errors[:2]})", replay)
                continue
            if verdict == "PASS" and failing:
                tag, vals, o = failing[0]
                key = f"pass-on-reachable-failure|{chk.kind}|{cls}"
                if chk.why.startswith("siblings:"):
                    key = f"pass-on-violable-test|{job.get('opts')}|{':'.join(chk.why.split(':')[:3])}"
                what = (f"{gen.desc.name}.{chk.canon} reported PASS ({solver}, {layout}, options {job.get('opts')}, flags: {flagged[:1]}) but the input "
                        f"{[v if not isinstance(v, bytes) else v.hex() for v in vals]} ({tag}) ends in "
                        f"{'Panic' if o.panic_code() is not None else 'fail flag'} on the reference EVM; guard: "
                        f"{' && '.join(map(str, chk.atoms))}")
                if flagged:
                    ctx.count("pass-with-failing-input-but-flagged")
                else:
                    ctx.violation(key, what, dict(replay, input=[v.hex() if isinstance(v, bytes) else v for v in vals]))
            # counterexamples halmos marked valid must replay (this half also serves C04)
            for m, idx, cdhex in ent["cex"]:
                ctx.count("cex:" + ("valid" if m.is_valid else "invalid"))
                if not m.is_valid:
                    continue
                if idx is None:
                    ctx.violation(f"cex-replay:undecodable|{chk.kind}|{cls}", f"{gen.desc.name}.{chk.canon}: {cdhex}", replay)
                    continue
                o = batch.outcome(idx)
                if not o.fails(panic_codes):
                    ctx.violation(
                        _cex_key(chk, cls),
                        f"{gen.desc.name}.{chk.canon} ({solver}, {layout}): counterexample marked valid "
                        f"{ {k: hex(v.value) for k, v in m.model.items()} } replays to halt={o.halt} data={o.data.hex()[:80]} "
                        f"flag={o.failed_flag()} on the reference EVM (calldata {cdhex[:200]})",
                        dict(replay, calldata=cdhex))
                else:
                    ctx.count("cex:replayed")
            if verdict == "FAIL" and not (r.models or []):
                ctx.count("fail-without-model")


def _codes(text):
    """the configured Panic codes as the reference judge needs them: () = any code"""
    if text is None:
        return (1,)
    if text.strip() == "*":
        return ()
    return tuple(int(x, 0) for x in text.split(","))


THOROUGH_BUDGET_S = 900   # stop generating random cases after this much wall time (directed / corpus cases come first)


def over_budget(ctx) -> bool:
    import time

    if ctx.tier == "quick" or time.time() - ctx.t0 < THOROUGH_BUDGET_S:
        return False
    if not ctx.hist.get("budget-stop"):
        ctx.count("budget-stop")
    return True


def make_jobs(ctx, specs, combos, sweep=40):
    """specs: list of (seed, name, kwargs) -> jobs with halmos runs done"""
    jobs = []
    for k, (seed, name, kw) in enumerate(specs):
        if not kw.get("directed") and over_budget(ctx):
            break
        cs = combos(k)
        if kw.get("solver"):
            cs = [(s_, c_, cs[0][2]) for (s_, c_) in _solver_cmds() if s_ == kw["solver"]][:1] or cs
        for solver, cmd, layout in cs:
            if kw.get("value"):
                gen = e2e.gen_value_contract(random.Random(seed), name=name, variants=kw["value"] if isinstance(kw["value"], list) else None)
            else:
                gen = e2e.gen_contract(random.Random(seed), name=name, pool=kw.get("pool", ()), ntests=kw.get("ntests", 3),
                                   bytes_sizes=kw.get("bytes_sizes"), array_sizes=kw.get("array_sizes"),
                                   panic_codes=kw.get("gen_panic_codes", (1,)), touch=kw.get("touch", False),
                                   loops=kw.get("loops", False), siblings=kw.get("siblings"), subst=kw.get("subst"), jumps=kw.get("jumps"), tails=kw.get("tails"), creates=kw.get("creates"))
            cfg = {}
            if kw.get("panic_error_codes") is not None:
                cfg["panic_error_codes"] = kw["panic_error_codes"]
            if kw.get("cache_solver"):
                cfg["cache_solver"] = True
            if kw.get("solver_threads"):
                cfg["solver_threads"] = kw["solver_threads"]
            if kw.get("bytes_sizes"):
                cfg["default_bytes_lengths"] = ",".join(map(str, kw["bytes_sizes"]))
            if kw.get("array_sizes"):
                cfg["default_array_lengths"] = ",".join(map(str, kw["array_sizes"]))
            run = run_halmos(gen, cmd, layout, **cfg)
            jobs.append({"gen": gen, "run": run, "solver": solver, "layout": layout, "sweep": sweep,
                         "panic_codes": _codes(kw.get("panic_error_codes")),
                         "opts": ("cache-solver" + (f"+threads{kw['solver_threads']}" if kw.get("solver_threads") else ""))
                         if kw.get("cache_solver") else "default",
                         "spec": {"seed": seed, "name": name, "kw": {k2: v for k2, v in kw.items() if k2 != "pool"},
                                  "pool": list(kw.get("pool", ()))}})
    return jobs


def check_symbolic_panic_code(ctx):
    """directed: `revert(Panic(code))` where the code is not a literal in the bytecode but a word computed from a parameter
    (hand-assembled: mstore(0, 0x4e487b71 << 224); mstore(4, code); revert(0, 36)); variants: unconditional code = x,
    guarded `if (x == 1)` code = x, `if (x < 5)` code = x, code = x & 0xff (unconditional and under `if (x > 0x100)`); --panic-error-codes default {1}, {1, 0x11} and * (any)."""
    from vlib import asm
    from vlib.artifacts import Fn, TestContract, YICES_COMMAND, run_contract_offline

    x = asm.calldata_arg(0)

    def panic_with(code_items):
        return asm.selector_word(asm.PANIC_SELECTOR) + [("push", 0), "MSTORE"] + code_items + [("push", 4), "MSTORE",
                                                                                              ("push", 36), ("push", 0), "REVERT"]

    fns = {
        "uncond": Fn("check_p_uncond(uint256 x)", panic_with(x)),
        "guarded": Fn("check_p_guarded(uint256 x)", asm.if_then(asm.eq_const(x, 1), panic_with(x))),
        "masked": Fn("check_p_masked(uint256 x)", panic_with(x + [("push", 0xFF), "AND"])),
        "range": Fn("check_p_range(uint256 x)", asm.if_then(x + [("push", 5), "SWAP1", "LT"], panic_with(x))),  # if (x < 5) Panic(x)
        "masked_range": Fn("check_p_masked_range(uint256 x)",
                           asm.if_then(x + [("push", 0x100), "LT"], panic_with(x + [("push", 0xFF), "AND"]))),  # if (x > 0x100)
        "literal": Fn("check_p_literal(uint256 x)", asm.if_then(asm.eq_const(x, 1), asm.panic(1))),  # control: literal code
    }
    c = TestContract("PanicCode", list(fns.values()))
    inputs = [0, 1, 2, 0x11, 0x12, 0x101, 0x111, (1 << 256) - 1]
    p = [e2e.Param("uint256", "x")]
    batch = e2e.RefBatch()
    batch.world(c)
    idx = {}
    for name, fn in fns.items():
        canon = fn.sig.split("(")[0] + "(uint256)"
        for v in inputs:
            batch.load(0)
            idx[(name, v)] = batch.call(e2e.FOUNDRY_TEST, e2e.calldata(canon, p, [v]))
    batch.run(ctx)
    for cfg_text in (None, "0x01,0x11", "*"):
        codes = _codes(cfg_text)
        kw = {} if cfg_text is None else {"panic_error_codes": cfg_text}
        run = run_contract_offline(c, solver_command=YICES_COMMAND, solver_timeout_assertion="4000ms", **kw)
        for name, fn in fns.items():
            canon = fn.sig.split("(")[0] + "(uint256)"
            r = run.by_name.get(canon)
            verdict = VERDICT.get(r.exitcode, str(r.exitcode)) if r is not None else "MISSING"
            failing = [v for v in inputs if batch.outcome(idx[(name, v)]).fails(codes)]
            ctx.case(f"symbolic-panic-code|{name}|{cfg_text}")
            ctx.count(f"symbolic-panic-code:{name}:codes={cfg_text or 'default'}:{verdict}:{'violable' if failing else 'holds'}")
            flagged = _flagged(run, canon)
            if verdict == "PASS" and failing and not flagged:
                key = ("pass-on-violable-test|panic-code-from-symbolic-word" if name != "literal"
                       else "pass-on-violable-test|panic-code-literal")
                ctx.violation(
                    key,
                    f"PanicCode.{canon} ({name}: Panic code taken from the parameter) reported PASS with --panic-error-codes "
                    f"{cfg_text or '0x01 (default)'} and no warning, but x = {failing[0]:#x} ends in Panic({batch.outcome(idx[(name, failing[0])]).panic_code():#x}) "
                    f"on the reference EVM (Output.is_panic_of: a symbolic code is not `in` the configured set)",
                    {"kind": "symbolic-panic-code"})


def check_loop_warning_repeat(ctx):
    """several tests with the SAME signature `check_loop(uint256)` cut by the same --loop bound in ONE process (two contracts, then
    the first contract again with the other solver; nothing resets halmos' process-wide state in between, as under `_main`):
    every PASS that misses the reachable failure (n & 7 == 5, on the reference EVM) must carry its own loop-bound warning."""
    import contextlib

    from vlib import artifacts
    from vlib.artifacts import Fn, TestContract, run_contract_offline

    rng = random.Random(3)
    grammar = e2e.Grammar(rng)

    def mk(name, shape):
        chk = e2e.gen_loop_check(rng, 0, grammar)
        chk.shape, chk.k, chk.loop_bound, chk.kind, chk.atoms, chk.params, chk.witness = shape, 5, 2, "panic", chk.atoms[:1], chk.params[:1], [5]
        chk.atoms = [e2e.Bin("EQ", e2e.Bin("AND", e2e.Arg(0), e2e.Const(7)), e2e.Const(5))]
        chk.name = "check_loop"
        return TestContract(name, [Fn("check_loop(uint256 n)", chk.body())]), chk

    c1, k1 = mk("LoopA", "dowhile")
    c2, k2 = mk("LoopB", "while")
    batch = e2e.RefBatch()
    idx = []
    for c, chk in ((c1, k1), (c2, k2)):
        batch.world(c)
        idx.append(batch.call(e2e.FOUNDRY_TEST, e2e.calldata("check_loop(uint256)", chk.params, [5])))
    batch.run(ctx)
    if not all(batch.outcome(i).fails() for i in idx):
        raise RuntimeError("check_loop(5) does not fail on the reference EVM")
    solvers = _solver_cmds()
    runs = [("LoopA", c1, solvers[0]), ("LoopB", c2, solvers[0]), ("LoopA", c1, solvers[-1]), ("LoopB", c2, solvers[-1])]
    orig = artifacts.reset_halmos_state
    first = True
    try:
        for pos, (nm, c, (sname, cmd)) in enumerate(runs):
            # the first run starts from a clean process state; afterwards nothing is reset
            artifacts.reset_halmos_state = orig if first else (lambda: None)
            first = False
            run = run_contract_offline(c, solver_command=cmd, loop=2, solver_timeout_assertion="4000ms")
            r = run.by_name.get("check_loop(uint256)")
            verdict = VERDICT.get(r.exitcode, str(r.exitcode)) if r is not None else "MISSING"
            warned = any("loop unrolling bound" in m for m in run.warnings) or "loop unrolling bound" in run.stdout
            ctx.case(f"loop-warning-repeat|{pos}|{nm}|{sname}")
            ctx.count(f"loop-warning-repeat:run{pos}:{verdict}:{'warned' if warned else 'silent'}")
            if verdict == "PASS" and not warned:
                ctx.violation(
                    "pass-without-loop-bound-warning|same-signature-repeated-in-process",
                    f"{nm}.check_loop(uint256) (run {pos + 1} of {len(runs)} in one process, {sname}, --loop 2): PASS with no loop-bound "
                    f"warning (num_bounded_loops={r.num_bounded_loops}) although n = 5 ends in Panic(1) on the reference EVM; the "
                    f"earlier runs of the same signature were {[x[0] for x in runs[:pos]]}", {"kind": "loop-warning-repeat"})
    finally:
        artifacts.reset_halmos_state = orig
        artifacts.reset_halmos_state()


def concrete_ops_jobs(ctx):
    """directed: every word instruction applied to run-time-CONCRETE operands (literals and values stored by setUp; dirty and
    boundary values) inside the guard of a failure: `if (y == 5 && op1(a1, b1) == v1 && … ) Panic(1)`, v_i from the instruction's
    meaning (checked by the reference EVM: the witness y = 5 must fail there)."""
    from vlib.artifacts import Fn, TestContract

    rng = random.Random(17)
    small = [0, 1, 2, 7, 8, 15, 30, 31, 32, 255, 256]
    ops = ["SIGNEXTEND", "SAR", "SHL", "SHR", "BYTE", "SDIV", "SMOD", "DIV", "MOD", "EXP", "SLT", "SGT", "LT", "GT", "AND", "OR", "XOR",
           "ADD", "SUB", "MUL"]
    stored = {s_: v for s_, v in enumerate(rng.sample(e2e.DIRTY, 6))}
    atoms = []
    for op in ops:
        firsts = small if op in ("SIGNEXTEND", "SAR", "SHL", "SHR", "BYTE") else e2e.DIRTY
        pairs = [(a, b) for a in rng.sample(firsts, 4) for b in rng.sample(e2e.DIRTY, 3)]
        if op == "SIGNEXTEND":
            pairs += [(0, 0x1234), (1, 0x12345678), (0, 0x7F), (0, 0x80), (1, 0xFF7F), (30, (1 << 255) + 0x34), (2, 0xABCD00)]
        for a, b in pairs[: (19 if op == "SIGNEXTEND" else 8)]:
            ea = e2e.SLoad(next(k for k, v in stored.items() if v == a)) if a in stored.values() and rng.random() < 0.5 else e2e.Const(a)
            eb = e2e.SLoad(next(k for k, v in stored.items() if v == b)) if b in stored.values() and rng.random() < 0.5 else e2e.Const(b)
            e = e2e.Bin(op, ea, eb)
            atoms.append((op, e2e.Bin("EQ", e, e2e.Const(e.ev({"args": [], "storage": stored})))))
    rng.shuffle(atoms)
    setup = []
    for s_, v in stored.items():
        setup += [("push", v), ("push", s_), "SSTORE"]
    solvers = _solver_cmds()
    jobs, per_test, per_contract = [], 5, 6
    groups = [atoms[i:i + per_test] for i in range(0, len(atoms), per_test)]
    for ci in range(0, len(groups), per_contract):
        checks = []
        for t, grp in enumerate(groups[ci:ci + per_contract]):
            opsn = "+".join(sorted({o for o, _ in grp}))
            checks.append(e2e.Check(f"check_c{t}", [e2e.Param("uint256", "y")], [e2e.Bin("EQ", e2e.Arg(0), e2e.Const(5))] + [a for _, a in grp],
                                    "panic", 1, True, [5], None, rng.choice(["and", "nested"]), f"concrete-operands:{opsn}", True))
        desc = TestContract(f"ConcOps{ci}", [Fn("setUp()", setup + ["STOP"])] + [Fn(c.named, c.body()) for c in checks])
        gen = e2e.Generated(desc, checks, dict(stored), [], dyn_sizes={"bytes": e2e.DEFAULT_BYTES_SIZES, "uint256[]": e2e.DEFAULT_ARRAY_SIZES})
        sname, cmd = solvers[(ci // per_contract) % len(solvers)]
        layout = ["solidity", "generic"][(ci // per_contract) % 2]
        run = run_halmos(gen, cmd, layout)
        jobs.append({"gen": gen, "run": run, "solver": sname, "layout": layout, "sweep": 6, "panic_codes": (1,), "opts": "default",
                     "spec": {"kind": "concrete-ops"}})
    return jobs


def harvest_pool():
    from vlib import solvekit as K

    ints = K.harvest_ints([
        ("__main__.py", {"run_test", "setup", "deploy_test", "run_message", "run_tests", "run_contract", "mk_block",
                         "handle_assertion_violation", "_solve_end_to_end_callback"}),
        ("sevm.py", {"is_panic_of", "run_message", "create_branch", "calldataload"}),
        ("calldata.py", {"encode", "encode_tuple", "get_dyn_sizes", "create"}),
    ])
    return [i for i in ints if i < (1 << 256)]


def correspond(ctx):
    import logging

    logging.getLogger("halmos").setLevel(logging.DEBUG)
    pool = harvest_pool()
    solvers = _solver_cmds()
    if not solvers:
        raise RuntimeError("no solver available")
    layouts = ["solidity", "generic"]
    all_combos = [(s, c, l) for (s, c) in solvers for l in layouts]

    def combos(k):
        if ctx.tier == "quick":
            return [all_combos[k % len(all_combos)]]
        return all_combos

    check_symbolic_panic_code(ctx)
    check_loop_warning_repeat(ctx)
    specs = []
    # corpus first
    cdir = VERIF / "corpus" / "C03"
    if cdir.exists():
        for p in sorted(cdir.glob("*.json")):
            d = json.loads(p.read_text())
            specs.append((d["seed"], d.get("name", "Corpus"), dict(d.get("kw", {}), pool=d.get("pool", pool))))
    # directed (run first): sibling assertion paths of identical shape, a valid one explored before the violable one, with the
    # unsat-core cache on (--cache-solver), deterministic order (--solver-threads 1) and default threads
    specs.append((11, "Sib0", {"pool": pool, "ntests": 0, "cache_solver": True, "solver_threads": 1, "solver": "yices",
                               "siblings": {"shape": "dynlen-bytes", "form": "mul", "violable_at": 1, "kind": "panic"}}))
    specs.append((12, "Sib1", {"pool": pool, "ntests": 0, "cache_solver": True, "solver": "z3",
                               "siblings": {"shape": "dynlen-3way", "form": "mul", "violable_at": 2, "kind": "panic"}}))
    # directed: one sibling path learns x == c1, the other re-reads x and fails for x == c2 (both exploration orders)
    for j, sub in enumerate([{"learn_on": "fall", "deep": False, "use": "eq", "kind": "panic"},
                             {"learn_on": "fall", "deep": True, "use": "add", "kind": "flag"},
                             {"learn_on": "taken", "deep": False, "use": "mem", "kind": "assertTrue"},
                             {"learn_on": "fall", "deep": False, "use": "mem", "kind": "panic"}]):
        specs.append((21 + j, f"Subst{j}", {"pool": pool, "ntests": 0, "subst": sub}))
    # directed: the failure behind a JUMPDEST that follows a PUSH32 constant with embedded PUSH-opcode bytes
    specs.append((41, "Jump0", {"pool": pool, "ntests": 0, "jumps": {"K": e2e.EIP1967_IMPL_SLOT, "use_k": "sload"}}))
    specs.append((42, "Jump1", {"pool": pool, "ntests": 0, "jumps": {"use_k": "pop"}}))
    specs.append((43, "Jump2", {"pool": pool, "ntests": 0, "jumps": {"use_k": "none"}}))
    # directed: `new C(arg)` whose constructor panics for some arg; the caller bubbles the revert data up / swallows it
    specs.append((61, "Create0", {"pool": pool, "ntests": 0, "creates": [{"bubble": True, "derive": "x", "create2": False},
                                                                         {"bubble": False, "derive": "x", "create2": False}]}))
    specs.append((62, "Create1", {"pool": pool, "ntests": 0, "creates": [{"bubble": True, "derive": "x&0xff", "create2": True},
                                                                         {"bubble": True, "derive": "x+1", "create2": False}]}))
    # directed: a guard on the memory word in the untouched tail of a call's output window
    specs.append((51, "Tail0", {"pool": pool, "ntests": 0, "tails": {"callee": "identity", "op": "STATICCALL"}}))
    specs.append((52, "Tail1", {"pool": pool, "ntests": 0, "tails": {"callee": "helper", "op": "CALL"}}))
    # directed: value-bearing CALLs whose failure is swallowed, assertions on balances (refund of the value of a failed call)
    specs.append((31, "Val0", {"pool": pool, "value": [["revert", "self-minus-v"], ["revert", "self-same"], ["accept", "self-same"]]}))
    specs.append((32, "Val1", {"pool": pool, "value": [["odd-reverts", "callee-zero"], ["invalid", "callee-eq-v"], ["odd-reverts", "self-minus-v"]]}))
    for sp in specs:
        sp[2]["directed"] = True
    nsib = ctx.scale(6, 24)
    for j in range(nsib):
        kw = {"pool": pool, "ntests": 0, "siblings": {"violable_at": j}, "solver": "yices"}
        if j % 3 == 2:
            kw["siblings"]["shape"] = ctx.rng.choice(["dynlen-bytes", "dynlen-array", "dynlen-3way"])
            kw["solver"] = "z3"
        if j % 4 != 3:
            kw["cache_solver"] = True
            if j % 2 == 0:
                kw["solver_threads"] = 1
        specs.append((ctx.rng.randrange(1 << 48), f"Sib{j + 2}", kw))
    n = ctx.scale(20, 300)
    for i in range(n):
        kw = {"pool": pool}
        if i % 5 == 2:
            kw["cache_solver"] = True
            if i % 10 == 2:
                kw["solver_threads"] = 1
        if i % 5 == 3:
            kw["bytes_sizes"] = [0, 32, 65]
        if i % 7 == 4:
            kw["array_sizes"] = [0, 1, 3]
        if i % 4 == 1:
            kw["touch"] = True
        if i % 2 == 0:
            kw["loops"] = True
        if i % 4 == 3:
            kw["subst"] = True
        if i % 4 == 2:
            kw["jumps"] = True
        if i % 4 == 0:
            kw["tails"] = True
        if i % 4 == 1:
            kw["creates"] = True
        if i % 8 == 6:
            kw = {"pool": pool, "value": True}
        if i % 6 == 5:
            kw["gen_panic_codes"] = (1, 0x11, 0x32)
            kw["panic_error_codes"] = ctx.rng.choice(["0x11", "0x01,0x32", "*"])
        specs.append((ctx.rng.randrange(1 << 48), f"T{i}", kw))
    chunk = 60
    for off in range(0, len(specs), chunk):
        jobs = make_jobs(ctx, specs[off:off + chunk], lambda k, off=off: combos(off + k))
        if off == 0:
            jobs = concrete_ops_jobs(ctx) + jobs
        if not jobs:
            break
        batch = e2e.RefBatch()
        collect(ctx, jobs, batch)
        batch.run(ctx)
        judge(ctx, jobs, batch)
    ctx.sample({"example": specs[-1][1], "tests": [c.named + " :: " + " && ".join(map(str, c.atoms)) for c in
                                                  e2e.gen_contract(random.Random(specs[-1][0]), pool=pool).checks]})
    ctx.note("PASS verdicts on tests whose constructed failure is reachable: violation unless a warning qualifies them; "
             "FAIL counterexamples marked valid are replayed on the reference EVM (keys cex-replay:*, shared with C04)")


def replay(ctx, data) -> bool:
    if (data.get("contract") or {}).get("kind") == "concrete-ops":
        jobs = concrete_ops_jobs(ctx)
        batch = e2e.RefBatch()
        collect(ctx, jobs, batch)
        batch.run(ctx)
        judge(ctx, jobs, batch)
        return bool(ctx.violations)
    if data.get("kind") == "loop-warning-repeat":
        check_loop_warning_repeat(ctx)
        return bool(ctx.violations)
    if data.get("kind") == "symbolic-panic-code":
        check_symbolic_panic_code(ctx)
        return bool(ctx.violations)
    spec = data.get("contract")
    if not spec:
        return False
    kw = dict(spec.get("kw", {}), pool=spec.get("pool", ()))
    solver = dict(_solver_cmds()).get(data.get("solver"), None)
    if solver is None:
        return False
    jobs = make_jobs(ctx, [(spec["seed"], spec["name"], kw)], lambda k: [(data["solver"], solver, data["layout"])])
    batch = e2e.RefBatch()
    collect(ctx, jobs, batch)
    batch.run(ctx)
    judge(ctx, jobs, batch)
    return bool(ctx.violations)
