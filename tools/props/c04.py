"""C04 — Counterexamples marked valid are reproducible: the parsing / labelling half.

Real code under test: solve.parse_const_value, parse_model_str (halmos_var_pattern, _parse_halmos_var_match),
is_model_valid, SolverOutput.from_result, __main__.CounterexampleHandler._solve_end_to_end_callback (valid vs invalid list).
Model: lean/HalmosVerif/Model/ModelParse.lean, Driver/ModelParse.lean.
"""
from __future__ import annotations

import contextlib
import io
import json
import shutil
import subprocess
import tempfile
from concurrent.futures import Future
from pathlib import Path as FsPath

from vlib.runner import VERIF

ID = "C04"
EXTRACTORS = ["solve_tables"]
LEAN_MODULES = ["HalmosVerif.Props.C04"]
LEAN_EXTRA_TARGETS = ["HalmosVerif.Spec.Evm", "HalmosVerif.Spec.EvmOps", "HalmosVerif.Spec.Keccak"]   # Driver/Evm (concrete replay)
RULE = (
    "(a) constants: widths 1..512 x boundary/random values x the three syntaxes (#b, #x, (_ bvN W)) through the real "
    "parse_const_value, the Lean model and the independent printers; malformed constants; "
    "(b) solver outputs: real yices-smt2 (halmos' flags and plain --smt2-model-format) and z3 run on small queries that force "
    "known values on p_*/halmos_* variables of random widths, with and without an f_evm_ function in the model, guards `OP(x,c)==k && x CMP b` (SDIV/SMOD/SAR/SIGNEXTEND/DIV/MOD by powers of two and small constants, negative non-multiple "
    "dividends) executed by the real SEVM, the failing path solved and labelled by the real loop, valid models and unsat verdicts judged "
    "against an independent Yellow-Paper evaluation of the guard; mixed Bool/word bitwise guards `BITOP(cmp(a,c), w(y)) != 0` (AND/OR/XOR of a "
    "comparison result with y, y & mask, y << k, y >> k, both operand orders) judged the same way; multi-path programs `if (x == c) return; assert(x OP y != k)` (EQ / ISZERO, both jump polarities, x and y re-read "
    "from calldata) whose valid models are executed on the reference EVM (Lean Driver/Evm) as a concrete run of the whole program; CODECOPY/EXTCODECOPY across the end of "
    "concrete code over input-dirtied memory followed by an assertion on the zero-filled part, judged by the same concrete replay; caller+helper (returning 0/1/4/31/32 bytes, CALL and STATICCALL) and the identity precompile with "
    "short input, output window over a pre-set word (constant or input) and a failure when x equals the word afterwards, same replay; a helper that forks on symbolic data into 2-3 paths "
    "that all revert, followed in the caller by `if (flag) fail(); flag = 1` over storage / transient storage, same replay; the real solve_end_to_end + callback flow with --dump-smt-directory for same-named functions / restarting path ids / a rerun "
    "into the same directory (every valid model replayed on THIS path's conditions), plus synthetic "
    "outputs (layout/whitespace variants, piped names, short names, duplicates, junk, first-line variants) through the real "
    "from_result / parse_model_str / is_model_valid / _solve_end_to_end_callback vs the Lean model; a case is distinct by its text."
)
TRUSTED = [
    "the replay half of C04 (a valid model drives the concrete execution to the failure) is checked elsewhere on the shared EVM interpreter",
    "yices-smt2 2.6.4 and z3 binaries produce the model syntaxes halmos meets in practice",
]
ASSUMPTIONS = [
    "solver output is ASCII (Python's \\s and \\d also match non-ASCII spaces/digits; int() also accepts '_', signs and base prefixes — unreachable through group 4 of the regex)",
]


def hexs(s: str) -> str:
    return s.encode("latin-1").hex() or "-"


def unhexs(h: str) -> str:
    return bytes.fromhex(h).decode("latin-1") if h != "-" else ""


def p_bin(w, v):
    return "#b" + format(v, "b").rjust(w, "0")


def p_hex(w, v):
    return "#x" + format(v, "x").rjust(w // 4, "0")


def p_dec(w, v):
    return f"(_ bv{v} {w})"


def correspond(ctx):
    from vlib import solvekit as K
    from halmos.__main__ import CounterexampleHandler
    from halmos.calldata import FunctionInfo
    from halmos.sevm import SMTQuery
    from halmos.solve import (ContractContext, FunctionContext, SolverOutput, is_model_valid, parse_const_value,
                              parse_model_str)
    from z3 import sat, unknown, unsat

    import logging

    logging.disable(logging.CRITICAL)  # the functions under test log every malformed model line
    rng = ctx.rng
    eng = K.Engine(nvars=1)
    tmp = FsPath(tempfile.mkdtemp(prefix="verif-c04-"))
    sctx = K.new_solving_ctx(tmp)
    ints = K.harvest_ints([("solve.py", {"parse_const_value", "_parse_halmos_var_match", "parse_model_str", "from_result", "is_model_valid"})])
    reqs = []  # (request, expected, label)

    def canon_vars(d):
        return sorted((v.full_name, v.variable_name, v.solidity_type, v.smt_type, v.size_bits, v.value) for v in d.values())

    def lean_vars(reply):
        if not reply.startswith("ok"):
            return reply
        body = reply[2:].strip()
        out = []
        for item in (body.split(";") if body else []):
            a, b, c, d, size, val = item.split(",")
            out.append((unhexs(a), unhexs(b), unhexs(c), unhexs(d), int(size), int(val)))
        return sorted(out)

    # ---------------------------------------------------------------- constants
    widths = list(range(1, 513)) if ctx.tier != "quick" else sorted(set(list(range(1, 70)) + [i for i in range(70, 513) if i % 8 in (0, 1, 7)] + [127, 128, 129, 255, 256, 257, 263, 264, 265, 511, 512]))
    for w in widths:
        M = 1 << w
        vals = {0, 1, M - 1, M >> 1, (M >> 1) - 1 if w > 1 else 0, rng.getrandbits(w)}
        vals |= {i % M for i in rng.sample(ints, min(2, len(ints)))}
        for v in sorted(vals):
            for kind, pr in (("bin", p_bin), ("hex", p_hex), ("dec", p_dec)):
                if kind == "hex" and w % 4:
                    continue
                text = pr(w, v)
                got = parse_const_value(text)
                ctx.case(f"const|{kind}|{w}|{v}")
                ctx.count(f"const:{kind}")
                if got != v:
                    ctx.violation(f"parse_const_value:{kind}-constant-misread", f"{text[:80]} read as {got}, is {v}",
                                  {"kind": "const", "text": text, "value": v})
                reqs.append((f"const {hexs(text)}", f"ok {got}", f"const {text[:60]}"))
                reqs.append((f"print {kind} {w} {v}", hexs(text), f"print {kind} {w} {v}"))
    # mixed-case hex, leading zeros beyond the width, decimal with extra blanks
    extra = ["#xFF", "#xAbCdEf0123456789", "#b" + "0" * 600 + "1", "#x" + "0" * 200 + "fF", "(_  bv17   8)", "(_\tbv9\n8)", "(_ bv0 1)",
             "bv12", "bv0", "(_ bv12 8) (_ bv13 8)", "( _ bv5 8 )", "(bv7 8)", "x bv8"]
    malformed = ["", "#", "#b", "#x", "bv", "#b012", "#b2", "#xg", "#xfg", "#y01", "(_ cv1 8)", "(_ bv 8)", "(_ bvx 8)", "(_ bv12x 8)",
                 "12", "#B01", "#X0f", "()", "(_ b v1 8)", "bvx", "bv 12", "#b 01", "#x 0f", "(_ 8)", "true", "false"]
    alpha = "01289afgxb#() v"
    for _ in range(ctx.scale(150, 3000)):
        malformed.append("".join(rng.choice(alpha) for _ in range(rng.randrange(1, 9))))
    for text in extra + malformed:
        if any(ch in text for ch in "_+-") and not text.startswith("(_") and "(_" not in text:
            continue
        body = text[2:] if text[:2] in ("#b", "#x", "bv") else None
        if body is not None and (body[:2].lower() in ("0b", "0x", "0o") or body != body.strip()):
            continue  # int() leniency (prefixes / surrounding blanks), unreachable through the regex
        try:
            got = f"ok {parse_const_value(text)}"
        except ValueError:
            got = "err value"
        ctx.case(f"constx|{text}", nontrivial=True)
        ctx.count("const:" + ("malformed-rejected" if got.startswith("err") else "odd-accepted"))
        reqs.append((f"const {hexs(text)}", got, f"const {text!r}"))

    # ---------------------------------------------------------------- the labelling path of __main__
    cargs = eng.args()
    contract_ctx = ContractContext(args=cargs, name="T", funsigs=[], creation_hexcode="", deployed_hexcode="", abi={},
                                   method_identifiers={}, contract_json={}, libs={}, build_out_map={})

    def label_through_callback(stdout, pid, refined=False):
        """run the real from_result and the real _solve_end_to_end_callback; return (kind, is_valid, which list)"""
        fctx = FunctionContext(args=cargs, info=FunctionInfo("T", "test", "test()", "f8a8fd6d"), solver=None, contract_ctx=contract_ctx)
        pc = K.path_ctx(cargs, pid, fctx.solving_ctx, SMTQuery("", []), refined=refined)
        so = SolverOutput.from_result(stdout, "stderr-text", 0, pc)
        fctx.call_sequences[pid] = ""
        handler = CounterexampleHandler(ctx=fctx, is_invariant=False, is_probe=False, flamegraph_enabled=False,
                                        potential_flamegraphs={}, submitted_futures=[])
        fut = Future()
        fut.set_result(so)
        buf = io.StringIO()
        with contextlib.redirect_stdout(buf), contextlib.redirect_stderr(buf):
            handler._solve_end_to_end_callback(fut, ex=None, path_ctx=pc, description=None)
        where = "valid" if fctx.valid_counterexamples else "invalid" if fctx.invalid_counterexamples else "none"
        if fctx.valid_counterexamples and fctx.invalid_counterexamples:
            where = "both"
        fctx.thread_pool.shutdown(wait=False)
        with contextlib.suppress(Exception):
            fctx.solving_ctx.dump_dir.cleanup()
        kind = so.result if isinstance(so.result, str) else str(so.result)
        return so, kind, where, buf.getvalue()

    def check_output(stdout, forced=None, label="synthetic"):
        """forced: {full_name: (width, value)} the values the query forces (real solver runs)"""
        ctx.case(f"out|{stdout}")
        # parse_model_str / is_model_valid directly
        try:
            mv = canon_vars(parse_model_str(stdout))
            got_model = None
        except IndexError:
            mv, got_model = None, "err index"
        except ValueError:
            mv, got_model = None, "err value"
        reqs.append((f"model {hexs(stdout)}", ("__vars__", mv) if mv is not None else got_model, f"model[{label}] {stdout[:80]!r}"))
        valid = is_model_valid(stdout)
        reqs.append((f"valid {hexs(stdout)}", "1" if valid else "0", f"valid[{label}]"))
        if valid != ("f_evm_" not in stdout):
            ctx.violation("is_model_valid:wrong-on-f_evm_-mention", f"is_model_valid={valid} for {stdout[:120]!r}", {"kind": "output", "stdout": stdout})
        # from_result + routing
        first = stdout.split("\n", 1)[0]
        if mv is None and first == "sat":
            ctx.count("from_result:raises")
            return
        so, kind, where, printed = label_through_callback(stdout, rng.randrange(10**6))
        want_kind = first if first in ("sat", "unsat", "unknown") else "err"
        ctx.count(f"result:{kind}:{where}")
        if kind != want_kind:
            ctx.violation("from_result:first-line-dispatch", f"first line {first!r} gives {kind}", {"kind": "output", "stdout": stdout})
        reqs.append((f"result {hexs(stdout)}", f"sat {1 if so.model.is_valid else 0}" if kind == "sat" else kind, f"result[{label}]"))
        if kind == "sat":
            if "f_evm_" in stdout and where != "invalid":
                ctx.violation("label:model-mentioning-abstraction-not-marked-invalid", f"{where}: {stdout[:160]!r}", {"kind": "output", "stdout": stdout})
            if "f_evm_" not in stdout and where != "valid":
                ctx.violation("label:clean-model-not-marked-valid", f"{where}: {stdout[:160]!r}", {"kind": "output", "stdout": stdout})
            if canon_vars(so.model.model) != mv:
                ctx.violation("from_result:model-differs-from-parse_model_str", stdout[:160], {"kind": "output", "stdout": stdout})
            for v in so.model.model.values():
                # (potentially invalid ones go through the logger; only the valid ones are printed to stdout)
                if where == "valid" and f"{v.full_name} = 0x{v.value:02x}" not in printed:
                    ctx.violation("label:counterexample-variable-not-printed", v.full_name, {"kind": "output", "stdout": stdout})
        elif where != "none":
            ctx.violation("label:non-sat-answer-produces-counterexample", f"{kind}/{where}", {"kind": "output", "stdout": stdout})
        # the same answer as the answer to a *refined* query (PathContext.is_refined): refine() has no pattern for f_evm_exp_256, so a
        # refined model may still interpret an abstraction and must then stay "potentially invalid" (Props.C04.abstract_never_valid)
        if kind == "sat":
            so_r, kind_r, where_r, _ = label_through_callback(stdout, rng.randrange(10**6), refined=True)
            ctx.count(f"result-refined:{kind_r}:{where_r}:{'abstraction' if 'f_evm_' in stdout else 'clean'}")
            if "f_evm_" in stdout and (where_r != "invalid" or so_r.model.is_valid):
                ctx.violation("label:refined-model-mentioning-abstraction-marked-valid",
                              f"is_refined=True, is_valid={so_r.model.is_valid}, list={where_r}: {stdout[:200]!r}", {"kind": "output", "stdout": stdout, "refined": True})
            if "f_evm_" not in stdout and where_r != "valid":
                ctx.violation("label:refined-clean-model-not-marked-valid", f"{where_r}: {stdout[:160]!r}", {"kind": "output", "stdout": stdout, "refined": True})
        if forced is not None and kind == "sat":
            got = {n: (s, v) for n, _, _, _, s, v in mv}
            for name, (w, v) in forced.items():
                if got.get(name) != (w, v):
                    ctx.violation(f"parse:value-differs-from-solver-model[{label}]", f"{name}: forced {(w, v)}, parsed {got.get(name)} from {stdout[:200]!r}",
                                  {"kind": "output", "stdout": stdout, "forced": {name: [w, v]}})

    # corpus
    cdir = VERIF / "corpus" / ID
    if cdir.exists():
        for f in sorted(cdir.glob("*.json")):
            d = json.loads(f.read_text())
            if d.get("kind") == "output":
                forced = {k: tuple(v) for k, v in d.get("forced", {}).items()} or None
                check_output(d["stdout"], forced, "corpus")
                ctx.count("corpus")

    # real solvers
    yices = shutil.which("yices-smt2") or "/venv/bin/yices-smt2"
    z3bin = shutil.which("z3") or "/venv/bin/z3"
    solvers = [("yices-halmos", [yices, "--smt2-model-format", "--bvconst-in-decimal"]), ("yices-bin", [yices, "--smt2-model-format"]), ("z3", [z3bin])]
    type_names = ["uint256", "bool", "address", "bytes32", "uint8", "bytes", "int128"]
    nreal = ctx.scale(36, 400)
    for qi in range(nreal):
        nv = rng.randrange(1, 5)
        forced, decls, asserts = {}, [], []
        for k in range(nv):
            w = rng.choice([1, 2, 3, 4, 7, 8, 9, 16, 31, 32, 64, 128, 160, 255, 256, 257, 264, 512, rng.randrange(1, 513)])
            v = rng.choice([0, 1, (1 << w) - 1, 1 << (w - 1), rng.getrandbits(w)])
            prefix = rng.choice(["p_", "halmos_"])
            name = f"{prefix}{rng.choice('xyzabc')}{k}_{rng.choice(type_names)}_{rng.getrandbits(28):07x}_{k:02d}"
            forced[name] = (w, v)
            decls.append(f"(declare-fun {name} () (_ BitVec {w}))")
            asserts.append(f"(assert (= {name} (_ bv{v} {w})))")
        with_abs = qi % 3 == 0
        if with_abs:
            fn = rng.choice(["f_evm_exp_256", "f_evm_bvmul_256", "f_evm_bvudiv_256"])
            decls.append(f"(declare-fun {fn} ((_ BitVec 256) (_ BitVec 256)) (_ BitVec 256))")
            asserts.append(f"(assert (= ({fn} (_ bv2 256) (_ bv3 256)) (_ bv8 256)))")
        decls.append("(declare-fun other_var () (_ BitVec 8))")
        asserts.append("(assert (= other_var #x07))")
        text = "(set-logic QF_AUFBV)\n" + "\n".join(decls + asserts) + "\n(check-sat)\n(get-model)\n"
        f = tmp / f"q{qi}.smt2"
        f.write_text(text)
        for sname, cmd in solvers:
            if ctx.tier == "quick" and qi % 3 != solvers.index((sname, cmd)) and qi > 8:
                continue
            out = subprocess.run(cmd + [str(f)], capture_output=True, text=True).stdout
            ctx.count(f"real:{sname}:{'abstraction' if with_abs else 'clean'}")
            check_output(out, forced if out.startswith("sat") else None, sname)
            if qi < 3:
                ctx.sample({"solver": sname, "stdout": out[:300]})
    # an unsat and an unknown-ish answer from the real solvers
    (tmp / "u.smt2").write_text("(set-logic QF_BV)(declare-fun p_x_uint8_0_00 () (_ BitVec 8))(assert (distinct p_x_uint8_0_00 p_x_uint8_0_00))(check-sat)(get-model)")
    for sname, cmd in solvers:
        check_output(subprocess.run(cmd + [str(tmp / "u.smt2")], capture_output=True, text=True).stdout, None, sname)

    # real refinement loop: conditions with a symbolic exp and another refinable operator through the real
    # Path.to_smt2 -> solve_end_to_end (first query, refine, second query) -> callback, with yices and z3
    from halmos.__main__ import mk_solver
    from halmos.sevm import Path, f_div, f_exp, f_mod, f_mul, f_sdiv, f_smod
    from halmos.solve import solve_end_to_end
    import z3 as Z

    hx, hy = Z.BitVec("halmos_x_uint256_00", 256), Z.BitVec("halmos_y_uint256_00", 256)

    def bv(n):
        return Z.BitVecVal(n, 256)

    e2e_cases = [
        ("exp+mul", [f_exp(hx, hy) == bv(0), f_mul[256](hx, hy) == bv(15), (hx & bv(1)) == bv(1)]),
        ("exp+div", [f_exp(hx, hy) == bv(7), f_div(hx, hy) == bv(3), hx == bv(9), hy == bv(3)]),
        ("exp+mod", [f_exp(hx, bv(3)) == bv(5), f_mod[256](hx, hy) == bv(2), hy == bv(5), Z.ULT(hx, bv(1000))]),
        ("mul-only", [f_mul[256](hx, hy) == bv(15), hx == bv(3)]),
        ("div-only", [f_div(hx, hy) == bv(3), hy == bv(0)]),
        ("exp-only", [f_exp(hx, hy) == bv(9)]),
        # by-zero: the EVM gives 0, SMT-LIB's bvurem/bvsrem give the dividend and bvudiv all-ones; a model with divisor 0 must either
        # be exact or not be called valid
        ("mod-zero", [f_mod[256](hx, hy) == hx, hy == bv(0), hx == bv(5)]),
        ("smod-zero", [f_smod(hx, hy) == hx, hy == bv(0), Z.UGT(hx, bv(2))]),
        ("sdiv-zero", [f_sdiv(hx, hy) != bv(0), hy == bv(0)]),
        ("div-zero", [f_div(hx, hy) != bv(0), hy == bv(0)]),
        ("addmod-zero", [Z.Extract(255, 0, f_mod[264](Z.ZeroExt(8, hx) + Z.ZeroExt(8, bv(1)), Z.ZeroExt(8, hy))) != bv(0), hy == bv(0)]),
        ("mod-nonzero", [f_mod[256](hx, hy) == bv(2), hy == bv(5), Z.ULT(hx, bv(100))]),
        ("smod-neg", [f_smod(hx, hy) == bv(2**256 - 1), hx == bv(2**256 - 4), hy == bv(3)]),
    ]
    from vlib import zeval
    for cname, conds in e2e_cases:
        for sname, scmd in (("yices", f"{yices} --smt2-model-format --bvconst-in-decimal"), ("z3", z3bin)):
            eargs = eng.args(solver_command=scmd, solver_timeout_assertion=8.0)
            fctx = FunctionContext(args=eargs, info=FunctionInfo("T", "test", "test()", "f8a8fd6d"), solver=None, contract_ctx=contract_ctx)
            p = Path(mk_solver(eargs))
            for c in conds:
                p.append(c)
            pid = rng.randrange(10**6)
            pc = K.path_ctx(eargs, pid, fctx.solving_ctx, p.to_smt2(eargs))
            out = solve_end_to_end(pc)
            refined_out = FsPath(str(pc.refine().dump_file) + ".out")
            first_out = FsPath(str(pc.dump_file) + ".out")
            was_refined = refined_out.exists()
            stdout = (refined_out if was_refined else first_out).read_text() if (was_refined or first_out.exists()) else ""
            fctx.call_sequences[pid] = ""
            handler = CounterexampleHandler(ctx=fctx, is_invariant=False, is_probe=False, flamegraph_enabled=False,
                                            potential_flamegraphs={}, submitted_futures=[])
            fut = Future()
            fut.set_result(out)
            with contextlib.redirect_stdout(io.StringIO()), contextlib.redirect_stderr(io.StringIO()):
                handler._solve_end_to_end_callback(fut, ex=None, path_ctx=pc, description=None)
            where = "valid" if fctx.valid_counterexamples else "invalid" if fctx.invalid_counterexamples else "none"
            kind = out.result if isinstance(out.result, str) else str(out.result)
            ctx.case(f"e2e|{cname}|{sname}")
            ctx.count(f"e2e:{cname}:{sname}:{kind}:{'refined' if was_refined else 'first'}:{where}:{'abstraction' if 'f_evm_' in stdout else 'clean'}")
            if kind == "sat":
                if "f_evm_" in stdout and (where != "invalid" or out.model.is_valid):
                    ctx.violation("label:refined-model-mentioning-abstraction-marked-valid" if was_refined else "label:model-mentioning-abstraction-not-marked-invalid",
                                  f"{cname} ({sname}): the {'refined' if was_refined else 'first'} query's model still interprets an abstraction but is "
                                  f"labelled {where} (is_valid={out.model.is_valid}): {stdout[:260]!r}",
                                  {"kind": "e2e", "case": cname, "solver": sname, "stdout": stdout})
                if "f_evm_" not in stdout and where != "valid":
                    ctx.violation("label:clean-model-not-marked-valid", f"{cname} ({sname}): {where}: {stdout[:200]!r}", {"kind": "e2e", "case": cname})
                # replay: a counterexample called valid must satisfy the path conditions under the exact EVM meaning of the abstractions
                if where == "valid":
                    env = {v.full_name: v.value for v in out.model.model.values()}
                    try:
                        holds = all(zeval.Evaluator(env, default_uf=K.prf("c04")).ev(c) for c in p.conditions)
                    except zeval.Unknown:
                        holds = None
                    ctx.count(f"e2e-replay:{cname}:{holds}")
                    if holds is False:
                        ctx.violation(f"valid-counterexample-does-not-satisfy-path[{cname}]",
                                      f"{cname} ({sname}): model {({k: hex(v) for k, v in env.items()})} is labelled valid but the path conditions "
                                      f"{[str(c)[:70] for c in p.conditions]} are false under the exact EVM operations (by-zero = 0)",
                                      {"kind": "e2e", "case": cname, "solver": sname, "model": {k: str(v) for k, v in env.items()}})
                if cname in ("mul-only", "div-only") and not was_refined:
                    ctx.violation("refine:loop-did-not-refine", f"{cname} ({sname})", {"kind": "e2e", "case": cname})
                # the refined answer goes through the Lean model too
                reqs.append((f"result {hexs(stdout)}", f"sat {0 if 'f_evm_' in stdout else 1}", f"result[e2e {cname} {sname}]"))
            fctx.thread_pool.shutdown(wait=False)
            with contextlib.suppress(Exception):
                fctx.solving_ctx.executor.shutdown(wait=False)
            with contextlib.suppress(Exception):
                fctx.solving_ctx.dump_dir.cleanup()

    # signed / small-constant guards through the real SEVM instruction: `if (OP(x, c) == k && x CMP b) fail()`.  The failing path is solved
    # with the real refinement loop; a model labelled valid must satisfy the guard under the Yellow-Paper semantics of the opcodes
    # (evaluated independently of halmos' terms), and if some input does satisfy it the path must not be reported unsat.
    M256 = 1 << 256

    def sg(v):
        v %= M256
        return v - M256 if v >> 255 else v

    def evm2(op, a, b):
        a %= M256
        b %= M256
        if op == "SDIV":
            if b == 0:
                return 0
            q = abs(sg(a)) // abs(sg(b))
            return (-q if (sg(a) < 0) != (sg(b) < 0) else q) % M256
        if op == "SMOD":
            if b == 0:
                return 0
            r_ = abs(sg(a)) % abs(sg(b))
            return (-r_ if sg(a) < 0 else r_) % M256
        if op == "DIV":
            return 0 if b == 0 else a // b
        if op == "MOD":
            return 0 if b == 0 else a % b
        if op == "SAR":      # SAR(shift=b, value=a)
            return (sg(a) >> min(b, 256)) % M256
        if op == "SIGNEXTEND":   # SIGNEXTEND(b, x=a)
            if b >= 31:
                return a
            bits = 8 * (b + 1)
            lo = a % (1 << bits)
            return (lo - (1 << bits) if lo >> (bits - 1) else lo) % M256
        raise ValueError(op)

    def cmp2(c, a, b):
        return {"SLT": sg(a) < sg(b), "SGT": sg(a) > sg(b), "LT": a % M256 < b % M256, "GT": a % M256 > b % M256}[c]

    guard_cases = [
        ("SDIV", 4, -2, "SGT", -8), ("SDIV", 4, -2, "SLT", -8), ("SDIV", 2, -3, "SGT", -7), ("SDIV", 8, -1, "SLT", -14), ("SDIV", 8, 0, "SLT", -1),
        ("SDIV", 1 << 255, 1, "SLT", 0), ("SDIV", 1 << 255, 0, "SLT", -5), ("SDIV", 1, -7, "SLT", 0), ("SDIV", -4, 2, "SLT", -8),
        ("SMOD", 4, -3, "SLT", -4), ("SMOD", 8, -7, "SGT", -16), ("SMOD", 4, 1, "SLT", 0),
        ("SAR", 2, -2, "SGT", -8), ("SAR", 2, -2, "SLT", -7), ("SAR", 255, -1, "SGT", -3), ("SAR", 1, -4, "SLT", -7),
        ("SIGNEXTEND", 0, -1, "LT", 256), ("SIGNEXTEND", 0, -128, "LT", 300), ("SIGNEXTEND", 1, -2, "GT", 70000),
        ("DIV", 4, 3, "GT", 13), ("MOD", 8, 5, "LT", 20), ("DIV", 1 << 255, 1, "SLT", -1),
    ]
    if ctx.tier != "quick":
        for _ in range(60):
            op = rng.choice(["SDIV", "SMOD", "SAR", "SDIV", "SMOD"])
            c = rng.choice([1, 2, 4, 8, 16, 3, 5, 1 << 255, -2, -4]) if op != "SAR" else rng.choice([1, 2, 3, 8, 255])
            xw = rng.randrange(-40, 40)
            guard_cases.append((op, c, sg(evm2(op, xw, c)) + rng.choice([0, 0, 1]), rng.choice(["SLT", "SGT"]), xw + rng.choice([-1, 0, 1])))
    eng1 = eng
    for gi, (op, c, k, cmpop, b) in enumerate(guard_cases):
        if ctx.tier == "quick" and gi % 2 != ctx.seed % 2 and gi > 3 and op in ("SIGNEXTEND", "DIV", "MOD"):
            continue
        xload = [("push", 0), "CALLDATALOAD"]
        if op in ("SAR", "SIGNEXTEND"):
            compute = xload + [("push", c % M256), op]                 # OP(c, x)
            val = lambda xv: evm2(op, xv, c % M256)                    # noqa: E731
        else:
            compute = [("push", c % M256)] + xload + [op]              # OP(x, c)
            val = lambda xv: evm2(op, xv, c)                           # noqa: E731
        items = (compute + [("push", k % M256), "EQ", ("push", "L1"), "JUMPI", "STOP", ("label", "L1"), ("push", b % M256)] + xload
                 + [cmpop, ("push", "FAIL"), "JUMPI", "STOP", ("label", "FAIL"), ("push", 0), ("push", 0), "REVERT"])
        guard = lambda xv: val(xv) == k % M256 and cmp2(cmpop, xv, b)  # noqa: E731
        witnesses = [xv for xv in list(range(-80, 81)) + [(1 << 255) + d for d in range(-3, 4)] + [b + d for d in (-2, -1, 1, 2)] if guard(xv % M256)]
        desc = f"{op}(x,{sg(c)})=={k} && x {cmpop} {b}"
        try:
            exs = eng1.run(K.asm(items))
        except Exception as e:
            ctx.count(f"engine-error:{type(e).__name__}")
            continue
        failing = [ex for ex in exs if ex.context.output.error is not None]
        for sname, scmd in (("yices", f"{yices} --smt2-model-format --bvconst-in-decimal"), ("z3", z3bin)):
            if ctx.tier == "quick" and sname == "z3" and gi % 4:
                continue
            ctx.case(f"guard|{desc}|{sname}", nontrivial=True)
            if not failing:
                ctx.count(f"guard:{op}:no-failing-path:witness={bool(witnesses)}")
                if witnesses:
                    ctx.violation(f"counterexample-lost[{op}]", f"{desc}: x = {sg(witnesses[0])} reaches the failure on the EVM but halmos explores no failing path",
                                  {"kind": "guard", "case": [op, str(c), k, cmpop, b]})
                continue
            gargs = eng.args(solver_command=scmd, solver_timeout_assertion=6.0)
            gf = K.mk_function_ctx(gargs, "test", "G")
            gpath = failing[0].path
            gpc = K.path_ctx(gargs, gi, gf.solving_ctx, gpath.to_smt2(gargs))
            gout = solve_end_to_end(gpc)
            gf.call_sequences[gi] = ""
            gh = CounterexampleHandler(ctx=gf, is_invariant=False, is_probe=False, flamegraph_enabled=False, potential_flamegraphs={}, submitted_futures=[])
            gfut = Future()
            gfut.set_result(gout)
            with contextlib.redirect_stdout(io.StringIO()), contextlib.redirect_stderr(io.StringIO()):
                gh._solve_end_to_end_callback(gfut, ex=None, path_ctx=gpc, description=None)
            gkind = gout.result if isinstance(gout.result, str) else str(gout.result)
            ctx.count(f"guard:{op}:{sname}:{gkind}:{'valid' if gf.valid_counterexamples else 'invalid' if gf.invalid_counterexamples else 'none'}:witness={bool(witnesses)}")
            for m in gf.valid_counterexamples:
                xs_ = [v.value for v in m.model.values() if v.full_name.startswith("p_x_")]
                xv = xs_[0] if xs_ else 0
                if not guard(xv):
                    ctx.violation(f"valid-counterexample-does-not-reach-failure[{op}]",
                                  f"{desc} ({sname}): x = {sg(xv)} is reported as a valid counterexample, but on the EVM {op} gives {sg(val(xv))} and the guard is false "
                                  f"(path conditions {[str(cn)[:70] for cn in gpath.conditions]})", {"kind": "guard", "case": [op, str(c), k, cmpop, b], "x": str(xv)})
            if gkind == "unsat" and witnesses:
                ctx.violation(f"counterexample-lost[{op}]", f"{desc} ({sname}): x = {sg(witnesses[0])} reaches the failure on the EVM but the failing path's query is unsat "
                                                            f"(path conditions {[str(cn)[:70] for cn in gpath.conditions]})", {"kind": "guard", "case": [op, str(c), k, cmpop, b]})
            if gkind not in ("sat", "unsat"):
                ctx.count(f"solver-timing:guard:{op}:{gkind}")
            K.close_function_ctx(gf)

    # mixed Bool/word bitwise guards: `if (BITOP(cmp(a, c1), w(y)) != 0) fail()` where cmp leaves a Bool-typed item on halmos' stack and
    # w(y) is a general word (y, y & even-mask, y << k, y >> k): bit-level on the EVM (cmp is 0/1, so AND only sees bit 0 of w).
    eng2 = K.Engine(nvars=2)

    def word_fn(kind, kk):
        if kind == "y":
            return [("push", 32), "CALLDATALOAD"], (lambda yv: yv)
        if kind == "mask":
            return [("push", 32), "CALLDATALOAD", ("push", kk), "AND"], (lambda yv: yv & kk)
        if kind == "shl":
            return [("push", 32), "CALLDATALOAD", ("push", kk), "SHL"], (lambda yv: (yv << kk) % M256)
        if kind == "shr":
            return [("push", 32), "CALLDATALOAD", ("push", kk), "SHR"], (lambda yv: yv >> kk)
        raise ValueError(kind)

    def cmp_fn(cname, c1):
        if cname == "ISZERO":
            return [("push", 0), "CALLDATALOAD", "ISZERO"], (lambda av: int(av == 0))
        return [("push", c1 % M256), ("push", 0), "CALLDATALOAD", cname], {
            "LT": lambda av: int(av < c1 % M256), "GT": lambda av: int(av > c1 % M256), "EQ": lambda av: int(av == c1 % M256),
            "SLT": lambda av: int(sg(av) < sg(c1)), "SGT": lambda av: int(sg(av) > sg(c1))}[cname]

    bit_cases = [("AND", "LT", 5, "mask", 6), ("AND", "LT", 5, "y", 0), ("AND", "LT", 5, "shl", 1), ("AND", "GT", 3, "mask", 0xF0), ("AND", "EQ", 7, "mask", 2),
                 ("AND", "SLT", -1, "mask", 1 << 255), ("AND", "ISZERO", 0, "shl", 8), ("AND", "SGT", -5, "mask", 0xFE), ("AND", "LT", 5, "mask", 7),
                 ("AND", "LT", 5, "shr", 1), ("OR", "LT", 5, "mask", 6), ("XOR", "LT", 5, "mask", 6), ("XOR", "EQ", 7, "mask", 1), ("OR", "ISZERO", 0, "shl", 1)]
    if ctx.tier != "quick":
        for _ in range(40):
            bit_cases.append((rng.choice(["AND", "AND", "OR", "XOR"]), rng.choice(["LT", "GT", "EQ", "SLT", "SGT", "ISZERO"]), rng.randrange(-6, 9),
                              rng.choice(["mask", "mask", "shl", "shr", "y"]), rng.choice([1, 2, 6, 8, 0xFE, 0xFF, 1 << 255, 3])))
    for bi, (bop, cname, c1, wk, kk) in enumerate(bit_cases):
        for order in ((0, 1) if ctx.tier != "quick" else (bi % 2,)):      # which operand is pushed first (Bool on top or word on top)
            wcode, wf = word_fn(wk, kk if wk == "mask" else kk % 256)
            ccode, cf = cmp_fn(cname, c1)
            items = (wcode + ccode if order == 0 else ccode + wcode) + [bop, ("push", "FAIL"), "JUMPI", "STOP", ("label", "FAIL"), ("push", 0), ("push", 0), "REVERT"]
            fn = {"AND": lambda p_, q_: p_ & q_, "OR": lambda p_, q_: p_ | q_, "XOR": lambda p_, q_: p_ ^ q_}[bop]
            fails = lambda av, yv: fn(cf(av % M256), wf(yv % M256)) != 0      # noqa: E731
            desc = f"{bop}({cname}(a,{c1}), {wk}[{kk}](y)) != 0 [order {order}]"
            grid_a = [0, 1, 4, 5, 7, 8, M256 - 1, M256 - 6, 1 << 255]
            grid_y = [0, 1, 2, 3, 4, 6, 7, 8, 0x10, 0xFF, 0x100, 1 << 255, M256 - 1, M256 - 2]
            witness = next(((av, yv) for av in grid_a for yv in grid_y if fails(av, yv)), None)
            try:
                exs = eng2.run(K.asm(items))
            except Exception as e:
                ctx.count(f"engine-error:{type(e).__name__}")
                continue
            failing = [ex for ex in exs if ex.context.output.error is not None]
            ctx.case(f"bitguard|{desc}", nontrivial=True)
            if not failing:
                ctx.count(f"bitguard:{bop}:no-failing-path:witness={witness is not None}")
                if witness:
                    ctx.violation(f"counterexample-lost[{bop}-bool-word]", f"{desc}: a={witness[0]}, y={hex(witness[1])} reaches the failure on the EVM but halmos explores no failing path",
                                  {"kind": "bitguard", "case": [bop, cname, c1, wk, str(kk), order]})
                continue
            sname, scmd = (("yices", f"{yices} --smt2-model-format --bvconst-in-decimal") if bi % 3 else ("z3", z3bin))
            gargs = eng.args(solver_command=scmd, solver_timeout_assertion=6.0)
            for fx in failing:
                gf = K.mk_function_ctx(gargs, "test", "B")
                gpc = K.path_ctx(gargs, bi, gf.solving_ctx, fx.path.to_smt2(gargs))
                gout = solve_end_to_end(gpc)
                gf.call_sequences[bi] = ""
                gh = CounterexampleHandler(ctx=gf, is_invariant=False, is_probe=False, flamegraph_enabled=False, potential_flamegraphs={}, submitted_futures=[])
                gfut = Future()
                gfut.set_result(gout)
                with contextlib.redirect_stdout(io.StringIO()), contextlib.redirect_stderr(io.StringIO()):
                    gh._solve_end_to_end_callback(gfut, ex=None, path_ctx=gpc, description=None)
                gkind = gout.result if isinstance(gout.result, str) else str(gout.result)
                ctx.count(f"bitguard:{bop}:{wk}:{sname}:{gkind}:{'valid' if gf.valid_counterexamples else 'invalid' if gf.invalid_counterexamples else 'none'}:witness={witness is not None}")
                for m in gf.valid_counterexamples:
                    vals = {v.full_name[:3]: v.value for v in m.model.values()}
                    av, yv = vals.get("p_x", 0), vals.get("p_y", 0)
                    if not fails(av, yv):
                        ctx.violation(f"valid-counterexample-does-not-reach-failure[{bop}-bool-word]",
                                      f"{desc} ({sname}): a={av}, y={hex(yv)} is reported as a valid counterexample, but on the EVM {cname} gives {cf(av)}, the word is "
                                      f"{hex(wf(yv))} and {bop} of them is 0: the run ends in STOP (path conditions {[str(cn)[:70] for cn in fx.path.conditions]})",
                                      {"kind": "bitguard", "case": [bop, cname, c1, wk, str(kk), order], "a": str(av), "y": str(yv)})
                if gkind == "unsat" and witness and len(failing) == 1:
                    ctx.violation(f"counterexample-lost[{bop}-bool-word]", f"{desc} ({sname}): a={witness[0]}, y={hex(witness[1])} reaches the failure on the EVM but the failing "
                                                                        f"path's query is unsat", {"kind": "bitguard", "case": [bop, cname, c1, wk, str(kk), order]})
                if gkind not in ("sat", "unsat"):
                    ctx.count(f"solver-timing:bitguard:{gkind}")
                K.close_function_ctx(gf)

    # multi-path programs: one branch learns `x == c` and ends; its sibling re-reads x and y from calldata and reaches a failing assertion
    # over `x OP y`.  Every model routed to the valid list is executed on the reference EVM (Lean Driver/Evm) as a concrete run of the
    # WHOLE program and must end in the reported failure (here the path's own conditions may well be satisfied by the model: it is the
    # path that must be a real behaviour of the program).
    from vlib import evmdiff

    replay_jobs = []     # (scenario, inputs, description)

    def queue_replay(code, xv, yv, desc):
        scn = evmdiff.Scenario(contracts={evmdiff.MAIN: code}, nargs=2, selector=b"", name=desc)
        inp = evmdiff.Inputs(args=[xv % M256, yv % M256], caller=0xCA11E4, origin=0x0419, value=0, balances={}, baldefault=0)
        replay_jobs.append((scn, inp, desc))

    mp_cases = [("EQ", 5, "ADD", 12, 0), ("ISZERO", 0, "XOR", 6, 1), ("EQ", 7, "SUB", 1, 1), ("EQ", 2**255, "AND", 8, 0), ("ISZERO", 0, "ADD", 0, 0), ("EQ", 1, "OR", 3, 1)]
    if ctx.tier != "quick":
        for _ in range(30):
            mp_cases.append((rng.choice(["EQ", "ISZERO"]), rng.choice([0, 1, 5, 9, M256 - 1]), rng.choice(["ADD", "SUB", "XOR", "AND", "OR"]), rng.randrange(0, 20), rng.randrange(2)))
    lx, ly = [("push", 0), "CALLDATALOAD"], [("push", 32), "CALLDATALOAD"]
    for mi, (learn, c, op2, k, variant) in enumerate(mp_cases):
        if learn == "EQ":
            test = [("push", c % M256)] + lx + ["EQ"]                 # x == c
        else:
            c = 0
            test = lx + ["ISZERO"]                                    # x == 0
        if variant == 0:      # jump taken when equal
            head = test + [("push", "RET"), "JUMPI"]
        else:                 # fall through when equal: jump over the return when different
            head = test + ["ISZERO", ("push", "GO"), "JUMPI", "STOP", ("label", "GO")]
        items = (head + ly + lx + [op2, ("push", k % M256), "EQ", ("push", "FAIL"), "JUMPI", "STOP", ("label", "RET"), "STOP",
                                  ("label", "FAIL"), ("push", 0), ("push", 0), "REVERT"])
        code = K.asm(items)
        desc = f"if (x == {c}) return; assert(x {op2} y != {k}) [variant {variant}]"
        try:
            exs = eng2.run(code)
        except Exception as e:
            ctx.count(f"engine-error:{type(e).__name__}")
            continue
        failing = [ex for ex in exs if ex.context.output.error is not None]
        ctx.case(f"multipath|{desc}", nontrivial=True)
        ctx.count(f"multipath:{learn}:{op2}:paths={len(exs)}:failing={len(failing)}")
        sname, scmd = (("yices", f"{yices} --smt2-model-format --bvconst-in-decimal") if mi % 2 else ("z3", z3bin))
        gargs = eng.args(solver_command=scmd, solver_timeout_assertion=6.0)
        for fx in failing:
            gf = K.mk_function_ctx(gargs, "test", "M")
            gpc = K.path_ctx(gargs, mi, gf.solving_ctx, fx.path.to_smt2(gargs))
            gout = solve_end_to_end(gpc)
            gf.call_sequences[mi] = ""
            gh = CounterexampleHandler(ctx=gf, is_invariant=False, is_probe=False, flamegraph_enabled=False, potential_flamegraphs={}, submitted_futures=[])
            gfut = Future()
            gfut.set_result(gout)
            with contextlib.redirect_stdout(io.StringIO()), contextlib.redirect_stderr(io.StringIO()):
                gh._solve_end_to_end_callback(gfut, ex=None, path_ctx=gpc, description=None)
            gkind = gout.result if isinstance(gout.result, str) else str(gout.result)
            ctx.count(f"multipath:{sname}:{gkind}:{'valid' if gf.valid_counterexamples else 'invalid' if gf.invalid_counterexamples else 'none'}")
            for m in gf.valid_counterexamples:
                vals = {v.full_name[:3]: v.value for v in m.model.values()}
                queue_replay(code, vals.get("p_x", 0), vals.get("p_y", 0),
                             f"{desc} ({sname}): valid counterexample x={vals.get('p_x', 0)}, y={vals.get('p_y', 0)}; path conditions {[str(cn)[:60] for cn in fx.path.conditions]}")
            K.close_function_ctx(gf)
    # CODECOPY / EXTCODECOPY across the end of fully concrete code over input-dirtied memory: the part past the end of code must be
    # zero-filled, so `assert(mload(0) == tail ++ zeros)` can never fail; any valid counterexample is replayed on the reference EVM.
    tail = bytes([0xDE, 0xAD, 0xBE, 0xEF, 0x01, 0x02, 0x03, 0x04])
    cc_cases = [("CODECOPY", 4, 32, 0), ("CODECOPY", 1, 32, 0), ("CODECOPY", 0, 32, 0), ("CODECOPY", 8, 64, 0), ("CODECOPY", 4, 32, 1), ("EXTCODECOPY", 4, 32, 0),
                ("CODECOPY", 4, 5, 0)]
    for ci, (cop, back, length, dirty_y) in enumerate(cc_cases):
        # mstore(0, x) [; mstore(32, y)]; codecopy(0, codesize - back, length); if (mload(0) != expected) fail
        body_exp = (tail[len(tail) - back:] if back else b"") + bytes(32)
        if length < 32:
            expected = None        # only `length` bytes are overwritten: the rest of the word keeps x -> compare only the copied prefix
        items = lx + [("push", 0), "MSTORE"]
        if dirty_y:
            items += ly + [("push", 32), "MSTORE"]
        src = [("push", back), "CODESIZE", "SUB"]
        if cop == "CODECOPY":
            items += [("push", length)] + src + [("push", 0), "CODECOPY"]
        else:
            items += [("push", length)] + src + [("push", 0), "ADDRESS", "EXTCODECOPY"]
        if length >= 32:
            items += [("push", 0), "MLOAD", ("push", int.from_bytes(body_exp[:32], "big")), "EQ"]
        else:   # compare the first `length` bytes only: mload(0) >> (256 - 8*length)
            items += [("push", 0), "MLOAD", ("push", 256 - 8 * length), "SHR", ("push", int.from_bytes(body_exp[:length], "big")), "EQ"]
        if dirty_y:
            items += [("push", 32), "MLOAD", "ISZERO", "AND"] if length >= 64 else []
        items += [("push", "OK"), "JUMPI", ("push", 0), ("push", 0), "REVERT", ("label", "OK"), "STOP", ("raw", tail)]
        code = K.asm(items)
        desc = f"mstore(0,x); {cop.lower()}(0, codesize-{back}, {length}); assert(copied prefix of mload(0) == code tail ++ zeros)"
        try:
            exs = eng2.run(code)
        except Exception as e:
            ctx.count(f"engine-error:{cop}:{type(e).__name__}")
            continue
        failing = [ex for ex in exs if ex.context.output.error is not None]
        ctx.case(f"codecopy|{desc}|{dirty_y}", nontrivial=True)
        ctx.count(f"codecopy:{cop}:paths={len(exs)}:failing={len(failing)}")
        gargs = eng.args(solver_command=z3bin if ci % 2 else f"{yices} --smt2-model-format --bvconst-in-decimal", solver_timeout_assertion=6.0)
        for fx in failing:
            gf = K.mk_function_ctx(gargs, "test", "CC")
            gpc = K.path_ctx(gargs, ci, gf.solving_ctx, fx.path.to_smt2(gargs))
            gout = solve_end_to_end(gpc)
            gf.call_sequences[ci] = ""
            gh = CounterexampleHandler(ctx=gf, is_invariant=False, is_probe=False, flamegraph_enabled=False, potential_flamegraphs={}, submitted_futures=[])
            gfut = Future()
            gfut.set_result(gout)
            with contextlib.redirect_stdout(io.StringIO()), contextlib.redirect_stderr(io.StringIO()):
                gh._solve_end_to_end_callback(gfut, ex=None, path_ctx=gpc, description=None)
            gkind = gout.result if isinstance(gout.result, str) else str(gout.result)
            ctx.count(f"codecopy:{cop}:{gkind}:{'valid' if gf.valid_counterexamples else 'invalid' if gf.invalid_counterexamples else 'none'}")
            for m in gf.valid_counterexamples:
                vals = {v.full_name[:3]: v.value for v in m.model.values()}
                queue_replay(code, vals.get("p_x", 0), vals.get("p_y", 0),
                             f"{desc}: valid counterexample x={hex(vals.get('p_x', 0))}, y={hex(vals.get('p_y', 0))}")
            K.close_function_ctx(gf)
        # the passing side must exist concretely too (sanity of the program itself): x = 1
        queue_replay(code, 1, 2, "SANITY:" + desc)

    # calls whose return data is shorter than the output window: the rest of the window keeps what memory held before the call.
    # caller: memory[0:32] := W (constant or input y); call(helper | identity precompile) with output window (0, 32); fail when x == mload(0).
    from halmos.sevm import con_addr
    from vlib import sevmdrv
    from halmos.bitvec import HalmosBitVec as HBV
    from halmos.bytevec import ByteVec as HByteVec

    HELPER = 0x2000
    pat = int.from_bytes(bytes(range(0xA1, 0xA1 + 32)), "big")
    Wc = int.from_bytes(bytes([0x11] * 32), "big")
    call_cases = [("helper", 1, "const"), ("helper", 4, "const"), ("helper", 31, "const"), ("helper", 32, "const"), ("helper", 1, "input"), ("helper", 0, "const"),
                  ("identity", 1, "const"), ("identity", 31, "input"), ("helper-static", 4, "const")]
    for ci, (kind, nret, pre) in enumerate(call_cases):
        callee = K.asm([("push", pat), ("push", 0), "MSTORE", ("push", nret), ("push", 0), "RETURN"])
        items = (ly if pre == "input" else [("push", Wc)]) + [("push", 0), "MSTORE"]
        if kind == "identity":
            # input of the precompile: the first nret bytes of memory[64:]; memory[64:96] := pattern
            items += [("push", pat), ("push", 64), "MSTORE", ("push", 32), ("push", 0), ("push", nret), ("push", 64), ("push", 0), ("push", 4), "GAS", "CALL", "POP"]
        elif kind == "helper-static":
            items += [("push", 32), ("push", 0), ("push", 0), ("push", 0), ("push", HELPER), "GAS", "STATICCALL", "POP"]
        else:
            items += [("push", 32), ("push", 0), ("push", 0), ("push", 0), ("push", 0), ("push", HELPER), "GAS", "CALL", "POP"]
        items += [("push", 0), "MLOAD"] + lx + ["EQ", ("push", "FAIL"), "JUMPI", "STOP", ("label", "FAIL"), ("push", 0), ("push", 0), "REVERT"]
        code = K.asm(items)
        desc = f"memory[0:32] := {'y' if pre == 'input' else '0x1111..'}; {kind} call returning {nret} byte(s) into window (0,32); fail when x == mload(0)"
        sevm_, sargs = sevmdrv.mk_sevm()
        cd = HByteVec()
        for v in eng2.vars:
            cd.append(HBV(v))
        try:
            ex0 = sevmdrv.mk_ex(sevm_, sargs, code, calldata=cd, this=con_addr(evmdiff.MAIN), extra_code={con_addr(HELPER): callee})
            exs = list(sevm_.run(ex0))
        except Exception as e:
            ctx.count(f"engine-error:call:{type(e).__name__}")
            continue
        failing = [ex for ex in exs if ex.context.output.error is not None and type(ex.context.output.error).__name__ == "Revert"]
        ctx.case(f"shortret|{desc}", nontrivial=True)
        ctx.count(f"shortret:{kind}:{nret}:paths={len(exs)}:failing={len(failing)}")
        gargs = eng.args(solver_command=z3bin if ci % 2 else f"{yices} --smt2-model-format --bvconst-in-decimal", solver_timeout_assertion=6.0)
        for fx in failing:
            gf = K.mk_function_ctx(gargs, "test", "RD")
            gpc = K.path_ctx(gargs, ci, gf.solving_ctx, fx.path.to_smt2(gargs))
            gout = solve_end_to_end(gpc)
            gf.call_sequences[ci] = ""
            gh = CounterexampleHandler(ctx=gf, is_invariant=False, is_probe=False, flamegraph_enabled=False, potential_flamegraphs={}, submitted_futures=[])
            gfut = Future()
            gfut.set_result(gout)
            with contextlib.redirect_stdout(io.StringIO()), contextlib.redirect_stderr(io.StringIO()):
                gh._solve_end_to_end_callback(gfut, ex=None, path_ctx=gpc, description=None)
            gkind = gout.result if isinstance(gout.result, str) else str(gout.result)
            ctx.count(f"shortret:{kind}:{gkind}:{'valid' if gf.valid_counterexamples else 'invalid' if gf.invalid_counterexamples else 'none'}")
            for m in gf.valid_counterexamples:
                vals = {v.full_name[:3]: v.value for v in m.model.values()}
                if kind == "identity":
                    # the reference EVM has no precompiles: judge by hand (identity returns its nret input bytes; the rest of the window is kept)
                    wv = (vals.get("p_y", 0) if pre == "input" else Wc).to_bytes(32, "big")
                    want_word = int.from_bytes(pat.to_bytes(32, "big")[:nret] + wv[nret:], "big")
                    ctx.count(f"shortret:identity:model-word-{'ok' if vals.get('p_x', 0) == want_word else 'wrong'}")
                    if vals.get("p_x", 0) != want_word:
                        ctx.violation("valid-counterexample-does-not-reach-failure[identity-precompile-short-return]",
                                      f"{desc}: valid counterexample x={hex(vals.get('p_x', 0))}, y={hex(vals.get('p_y', 0))}, but after the call memory[0:32] is "
                                      f"{hex(want_word)} on the EVM", {"kind": "shortret", "case": [kind, nret, pre]})
                    continue
                scn = evmdiff.Scenario(contracts={evmdiff.MAIN: code, HELPER: callee}, nargs=2, selector=b"", name=desc)
                inp = evmdiff.Inputs(args=[vals.get("p_x", 0), vals.get("p_y", 0)], caller=0xCA11E4, origin=0x0419, value=0, balances={}, baldefault=0)
                replay_jobs.append((scn, inp, f"{desc}: valid counterexample x={hex(vals.get('p_x', 0))}, y={hex(vals.get('p_y', 0))}"))
            K.close_function_ctx(gf)

    # failed external calls: the callee forks on symbolic data into several paths that ALL revert; after the failure the caller reads a flag
    # (storage / transient storage), fails if it is set, else sets it.  Each resumed caller path must see the pre-call state of ITS OWN run.
    fc_cases = [("SLOAD", "SSTORE", 2), ("SLOAD", "SSTORE", 3), ("TLOAD", "TSTORE", 2), ("SLOAD", "SSTORE", 2)]
    for fi_, (ld, st_, nfork) in enumerate(fc_cases):
        thr = [rng.randrange(3, 50) for _ in range(nfork - 1)]
        callee_items = []
        for k, tv in enumerate(thr):
            callee_items += [("push", tv), ("push", 0), "CALLDATALOAD", "LT", ("push", f"R{k}"), "JUMPI"]
        callee_items += [("push", 0), ("push", 0), "REVERT"]
        for k in range(len(thr)):
            callee_items += [("label", f"R{k}"), ("push", 0), ("push", k + 1), "REVERT"]
        callee = K.asm(callee_items)
        slot = rng.choice([0, 1, 7])
        pre_write = [("push", 0), ("push", slot), st_] if fi_ == 3 else []          # variant: the flag is explicitly cleared before the call
        items = (pre_write + lx + [("push", 0), "MSTORE", ("push", 0), ("push", 0), ("push", 32), ("push", 0), ("push", 0), ("push", HELPER), "GAS", "CALL",
                                  ("push", "DONE"), "JUMPI", ("push", slot), ld, ("push", "FAIL"), "JUMPI", ("push", 1), ("push", slot), st_, "STOP",
                                  ("label", "DONE"), "STOP", ("label", "FAIL"), ("push", 0), ("push", 0), "REVERT"])
        code = K.asm(items)
        desc = f"call(helper forking into {nfork} reverting paths on x); catch {{ if ({ld.lower()}({slot}) != 0) fail(); {st_.lower()}({slot}, 1) }}"
        sevm_, sargs = sevmdrv.mk_sevm()
        cd = HByteVec()
        for v in eng2.vars:
            cd.append(HBV(v))
        try:
            ex0 = sevmdrv.mk_ex(sevm_, sargs, code, calldata=cd, this=con_addr(evmdiff.MAIN), extra_code={con_addr(HELPER): callee})
            exs = list(sevm_.run(ex0))
        except Exception as e:
            ctx.count(f"engine-error:failed-call:{type(e).__name__}")
            continue
        failing = [ex for ex in exs if ex.context.output.error is not None and type(ex.context.output.error).__name__ == "Revert"]
        ctx.case(f"failedcall|{desc}|{thr}", nontrivial=True)
        ctx.count(f"failedcall:{ld}:forks={nfork}:paths={len(exs)}:failing={len(failing)}")
        gargs = eng.args(solver_command=z3bin if fi_ % 2 else f"{yices} --smt2-model-format --bvconst-in-decimal", solver_timeout_assertion=6.0)
        for fx in failing:
            gf = K.mk_function_ctx(gargs, "test", "FC")
            gpc = K.path_ctx(gargs, fi_, gf.solving_ctx, fx.path.to_smt2(gargs))
            gout = solve_end_to_end(gpc)
            gf.call_sequences[fi_] = ""
            gh = CounterexampleHandler(ctx=gf, is_invariant=False, is_probe=False, flamegraph_enabled=False, potential_flamegraphs={}, submitted_futures=[])
            gfut = Future()
            gfut.set_result(gout)
            with contextlib.redirect_stdout(io.StringIO()), contextlib.redirect_stderr(io.StringIO()):
                gh._solve_end_to_end_callback(gfut, ex=None, path_ctx=gpc, description=None)
            gkind = gout.result if isinstance(gout.result, str) else str(gout.result)
            ctx.count(f"failedcall:{gkind}:{'valid' if gf.valid_counterexamples else 'invalid' if gf.invalid_counterexamples else 'none'}")
            for m in gf.valid_counterexamples:
                vals = {v.full_name[:3]: v.value for v in m.model.values()}
                scn = evmdiff.Scenario(contracts={evmdiff.MAIN: code, HELPER: callee}, nargs=2, selector=b"", name=desc)
                inp = evmdiff.Inputs(args=[vals.get("p_x", 0), vals.get("p_y", 0)], caller=0xCA11E4, origin=0x0419, value=0, balances={}, baldefault=0)
                replay_jobs.append((scn, inp, f"{desc}: valid counterexample x={hex(vals.get('p_x', 0))} (helper thresholds {thr})"))
            K.close_function_ctx(gf)
        # sanity of the program: a concrete run must end normally
        replay_jobs.append((evmdiff.Scenario(contracts={evmdiff.MAIN: code, HELPER: callee}, nargs=2, selector=b"", name=desc),
                            evmdiff.Inputs(args=[1, 2], caller=0xCA11E4, origin=0x0419, value=0, balances={}, baldefault=0), "SANITY:" + desc))

    if replay_jobs:
        for (scn, inp, desc), res in zip(replay_jobs, evmdiff.run_concrete_batch(ctx, [(a, b) for a, b, _ in replay_jobs])):
            ctx.count(f"concrete-replay:{res.halt}")
            if desc.startswith("SANITY:"):
                if res.halt != "success":
                    raise RuntimeError(f"harness program is wrong: {desc} ends in {res.halt} on the reference EVM")
                continue
            if res.halt != "revert":
                ctx.violation("valid-counterexample-does-not-reach-failure[concrete-run-of-program]",
                              f"{desc}: the concrete run of the program on the reference EVM ends in `{res.halt}`, not in the reported failure",
                              {"kind": "multipath", "code": scn.contracts[evmdiff.MAIN].hex(), "args": [str(a) for a in inp.args]})

    # non-default --dump-smt-directory: same-named functions of different contracts and reruns share DIR/<function>/ and path ids
    # restart at 0.  Real solve_end_to_end + callback per path; every model routed to the valid list must satisfy THIS path's
    # conditions under the exact EVM operations.
    scenarios = []
    if cdir.exists():
        for f in sorted(cdir.glob("*.json")):
            d = json.loads(f.read_text())
            if d.get("kind") == "dumpdir":
                scenarios.append((f"corpus:{f.stem}", d["scenario"], d.get("options", {})))
                ctx.count("corpus")
    for si in range(ctx.scale(3, 30)):
        scenarios.append((f"rand{si}", K.random_dumpdir_scenario(rng), {}))
    for si, (scn, scenario, fixed) in enumerate(scenarios):
        opts = {"cache_solver": si % 2 == 0, "dump_smt_queries": si % 3 == 1,
                "solver_command": z3bin if si % 2 == 0 else f"{yices} --smt2-model-format --bvconst-in-decimal"}
        opts.update(fixed)
        ddir = tmp / f"dumpdir{si}"
        used = set()
        with contextlib.redirect_stdout(io.StringIO()), contextlib.redirect_stderr(io.StringIO()):
            for it in K.dumpdir_flow(eng, scenario, ddir, **opts):
                fctx, pc, pid = it["fctx"], it["pc"], it["pid"]
                conds = list(it["path"].conditions)
                nv, ni = len(fctx.valid_counterexamples), len(fctx.invalid_counterexamples)
                out = solve_end_to_end(pc)
                fctx.call_sequences[pid] = ""
                handler = CounterexampleHandler(ctx=fctx, is_invariant=False, is_probe=False, flamegraph_enabled=False,
                                                potential_flamegraphs={}, submitted_futures=[])
                fut = Future()
                fut.set_result(out)
                handler._solve_end_to_end_callback(fut, ex=None, path_ctx=pc, description=None)
                new_valid = fctx.valid_counterexamples[nv:]
                kind = out.result if isinstance(out.result, str) else str(out.result)
                collide = out.query_file in used
                used.add(out.query_file)
                ctx.case(f"dumpdir|{scn}|{it['contract']}|{pid}|{it['specs']}", nontrivial=collide)
                ctx.count(f"dumpdir:{'collision' if collide else 'fresh'}:cache={opts['cache_solver']}:{kind}:{'valid' if new_valid else 'not-valid'}")
                for m in new_valid:
                    env = {v.full_name: v.value for v in m.model.values()}
                    try:
                        holds = all(zeval.Evaluator(env, default_uf=K.prf("c04")).ev(c) for c in conds)
                    except zeval.Unknown:
                        holds = None
                    ctx.count(f"dumpdir-replay:{holds}")
                    if holds is not True:
                        ctx.violation("valid-counterexample-does-not-satisfy-path[dump-smt-directory]",
                                      f"{it['contract']}.{it['function']} path {pid} (query file {FsPath(out.query_file).parent.name}/{FsPath(out.query_file).name}, "
                                      f"{'re-used name' if collide else 'first use'}): model {({k: hex(v) for k, v in env.items()})} is labelled valid but this path's "
                                      f"conditions {[str(c)[:60] for c in conds]} evaluate to {holds} under the exact EVM operations",
                                      {"kind": "dumpdir", "scenario": scenario, "options": fixed})

    # synthetic outputs
    def blank():
        return "".join(rng.choice([" ", " ", "\n", "\t", "  ", "\n    ", "\r\n"]) for _ in range(rng.randrange(1, 3)))

    def rand_def():
        w = rng.choice([1, 8, 160, 256, 512, rng.randrange(1, 513)])
        v = rng.getrandbits(w) if rng.random() < 0.7 else rng.choice([0, (1 << w) - 1])
        r = rng.random()
        name = (rng.choice(["p_", "halmos_", "p_", "q_", "P_", ""]) +
                rng.choice(["x_uint256_01", "y_bool", "z", "a_b_c_d_e", "x__t", "_", "x_uint256_0a|b", "v_address_1_02", "x_uint256_01"]))
        val = rng.choice([p_bin, p_dec, p_hex if w % 4 == 0 else p_bin])(w, v)
        if r < 0.1:
            val = val.upper() if val.startswith("#x") else val
        if r > 0.92:
            val = rng.choice(["#b", "#xzz", "(_ bv 8)", "true", "(- 5)", "#b01 #b11"])
        pipe = "|" if rng.random() < 0.25 else ""
        ty = rng.choice(["BitVec"] * 6 + ["FloatingPoint", "Bit)Vec", "X"])
        opener = rng.choice(["(", "(", "( ", "(\n"])
        fn = rng.choice(["define-fun"] * 8 + ["define-const", "declare-fun", "define-fun-rec"])
        sep_ty = blank()
        return f"{opener}{fn}{blank()}{pipe}{name}{pipe}{blank()}(){blank()}(_{sep_ty}{ty}{blank()}{w}){blank()}{val})"

    firsts = ["sat", "sat", "sat", "unsat", "unknown", "", "sat ", " sat", "Sat", "sat\r", "error", "(error \"x\")", "timeout", "satisfiable", "unsat\r"]
    for _ in range(ctx.scale(260, 5000)):
        body = "\n".join(rand_def() for _ in range(rng.randrange(0, 5)))
        if rng.random() < 0.25:
            body += "\n(define-fun f_evm_" + rng.choice(["exp_256", "bvmul_256", "x"]) + " ((x!0 (_ BitVec 256)) (x!1 (_ BitVec 256))) (_ BitVec 256) #x00)"
        if rng.random() < 0.1:
            body += "\n; f_evm_ in a comment"
        wrap = rng.choice(["(\n%s\n)", "(model\n%s\n)", "%s"])
        first = rng.choice(firsts)
        stdout = first + ("\n" if rng.random() < 0.95 else "") + (wrap % body)
        check_output(stdout, None, "synthetic")
    for s in ["", "sat", "sat\n", "unsat\n(error \"the context is unsatisfiable\")\n(<5> <6>)\n", "sat\n(model\n)", "f_evm_", "sat\nf_evm", "sat\nF_EVM_"]:
        check_output(s, None, "synthetic")

    # ---------------------------------------------------------------- Lean
    replies = ctx.lean("ModelParse").ask([r for r, _, _ in reqs])
    mismatches = []
    for (req, exp, label), got in zip(reqs, replies):
        if isinstance(exp, tuple):
            ok = lean_vars(got) == exp[1]
        else:
            ok = got == exp
        if not ok:
            mismatches.append(f"{label}: request {req[:160]}\n  impl : {exp}\n  model: {got[:600]}")
    ctx.note(f"lean requests: {len(reqs)}; widths: {len(widths)}")
    shutil.rmtree(tmp, ignore_errors=True)
    logging.disable(logging.NOTSET)
    if mismatches:
        raise RuntimeError(f"Lean model and implementation disagree on {len(mismatches)} case(s); first: " + mismatches[0])


def replay(ctx, data) -> bool:
    key = data.get("key")
    correspond(ctx)
    return any(v["key"] == key for v in ctx.violations)
