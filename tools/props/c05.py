"""C05 — verdict aggregation is fail-safe and independent of solver timing.

Implementation route: the real `halmos.__main__.run_contract` / `_main` on hand-assembled test contracts
(`vlib.artifacts`), with `--solver-command` pointing at the scripted stub solver (`vlib.stub_solver`) whose reply, delay
and completion order per query file are scripted; plus direct calls of `SolverOutput.from_result`,
`CounterexampleHandler._get_solver_output` and `solve_low_level`.

Compared against (a) the Lean Model (`Model.Verdict` through Driver/Verdict.lean: `test` runs the interleaving model
on the same scenario and the same schedule, `fr`/`gso`/`exit`) and (b) the Lean Spec (`Spec.Verdict`: `spec` on the
list of per-path outcomes, `specexit`), where the per-path outcomes are what the *generator* scripted, not what
halmos reported.
"""
from __future__ import annotations

import ast
import contextlib
import glob
import itertools
import json
import os
import re
import shutil
import tempfile
import time
from types import SimpleNamespace

from vlib import asm
from vlib.impl import use_repo
from vlib.runner import REPO, VERIF

ID = "C05"
EXTRACTORS = ["verdict"]
LEAN_MODULES = ["HalmosVerif.Props.C05"]
LEAN_EXTRA_TARGETS = ["HalmosVerif.Model.VerdictWitness", "HalmosVerif.Spec.Verdict"]
RULE = ("a case = (kinds of the paths in exploration order over {success, revert, panic, panic-with-unlisted-code, fail-flag, "
        "stuck}, scripted solver reply per query and per refined query over {sat+model, sat+f_evm_ model, unsat[+core], unknown, "
        "hang>timeout, garbage texts, empty, exit 1, undecodable bytes, answers with exit code 1}, --early-exit, --cache-solver, "
        "schedule = parallel with a scripted completion permutation | one solver thread | counterexample arriving during a "
        "stuck confirmation); run through the real run_contract with the stub solver; distinct = distinct case; non-trivial = at "
        "least one solver query was made. Plus unit cases for from_result (generated first lines x bodies x return codes), "
        "_get_solver_output (shutdown x exception x result) and whole-process runs of _main over 1-3 contracts x 1-3 tests")
TRUSTED = [
    "vlib/asm.py + vlib/artifacts.py fabricate the forge artifacts (paths are created by real bytecode executed by the real SEVM)",
    "vlib/stub_solver.py stands for the solver; completion order is enforced with completion markers and checked from the stub's own log",
    "Model.Verdict is hand-written from __main__.py / solve.py (tie: this differential run; chains, dispatch table, enum values and "
    "exit codes are regenerated from the source by tools/extract/verdict.py, which also pins the shape of the callbacks)",
    "the number of thread-pool workers is not modelled (every schedule possible with N workers is a schedule of the model)",
]
ASSUMPTIONS = [
    "unsat cores returned by the solver are sound (CoresConsistent); with a lying solver the cache makes the verdict order-dependent "
    "(Props.C05.cache_inconsistent_cex) — that is the solver's fault, the harness still checks model = implementation there",
    "a solver answer with a non-zero exit code counts as the answer (z3 exits 1 after `(get-unsat-core)` on sat)",
    "--width / invariant tests / probes are outside this property",
]

KEY_RACE = "early-exit:counterexample-during-stuck-confirmation-gives-ERROR"
KEY_RAISE = "precedence:stuck-confirmation-exception-over-counterexample"
KEY_TIMEOUT = "precedence:TIMEOUT-reported-over-stuck-or-revert-all-ERROR"
KEY_EMPTY_CORE = "cache-solver:unsat-reply-with-empty-core-answers-later-queries-unsat"
KEY_WRAPPED_CORE = "cache-solver:multi-line-unsat-core-truncated-answers-later-queries-unsat"

FN = "check_t"
KINDS = ["success", "revert", "panic", "panicOther", "fail", "stuck"]
OBS = {"success": "0000", "revert": "0001", "panic": "1001", "panicOther": "0001", "fail": "0101", "stuck": "0011"}
CLASS = {"success": "normal", "revert": "ignored", "panic": "potential", "panicOther": "ignored", "fail": "potential", "stuck": "stuck"}
GARBAGE_TEXTS = ["Segmentation fault\n", " sat\n", "sat \n", "SAT\n", "\nsat\n", "unsat(\n", "satisfiable\n", "un\nsat\n",
                 "(error \"x\")\nunsat\n", "timeout\n", "unknown \n", "\tunsat\n", "error", "0\n"]
ANSWER = {"sat": "c", "sat_abstract": "c", "sat_rc": "c", "unsat": "u", "unsat_rc": "u", "unknown": "t", "unknown_rc": "t",
          "timeout": "t", "garbage": "f", "empty": "f", "exit": "f", "binary": "f"}
REPLY_BY_CLASS = {"c": ["sat", "sat", "sat_abstract", "sat_rc"], "u": ["unsat", "unsat", "unsat_rc"],
                  "t": ["unknown", "unknown", "timeout", "unknown_rc"], "f": ["garbage", "garbage", "empty", "exit", "binary"]}
EXIT_NAME = {0: "PASS", 1: "COUNTEREXAMPLE", 2: "TIMEOUT", 3: "STUCK", 4: "REVERT_ALL", 5: "EXCEPTION"}
SPEC_CLASS = {0: "pass", 1: "fail", 2: "timeout", 3: "error", 4: "error", 5: "error"}

class _Lean:
    """one `lake env lean --run Driver/Verdict.lean` process for the whole check (the driver answers line by line and flushes);
    falls back to the runner's batch driver if the process cannot be used"""

    proc = None

    @classmethod
    def ask(cls, ctx, lines):
        if not lines:
            return []
        import subprocess
        from vlib.runner import LEAN
        try:
            if cls.proc is None or cls.proc.poll() is not None:
                cls.proc = subprocess.Popen(["lake", "env", "lean", "--run", "Driver/Verdict.lean"], cwd=LEAN, text=True,
                                            stdin=subprocess.PIPE, stdout=subprocess.PIPE, stderr=subprocess.DEVNULL)
            out = []
            for line in lines:
                cls.proc.stdin.write(line + "\n")
                cls.proc.stdin.flush()
                while True:
                    r = cls.proc.stdout.readline()
                    if not r:
                        raise OSError("driver closed its output")
                    if not r.startswith("WARNING"):
                        break
                out.append(r.rstrip("\n"))
            return out
        except (OSError, ValueError):
            with contextlib.suppress(Exception):
                cls.proc.kill()
            cls.proc = None
            return _Lean.ask(ctx, lines)

    @classmethod
    def close(cls):
        if cls.proc is not None:
            with contextlib.suppress(Exception):
                cls.proc.stdin.close()
                cls.proc.wait(timeout=10)
            cls.proc = None


_H = {}


def H():
    if not _H:
        use_repo()
        import halmos.__main__ as hm
        import halmos.solve as hs
        from halmos.processes import PopenExecutor, ShutdownError
        from halmos.sevm import SMTQuery
        from vlib import artifacts, stub_solver
        _H.update(hm=hm, hs=hs, PopenExecutor=PopenExecutor, ShutdownError=ShutdownError, SMTQuery=SMTQuery,
                  art=artifacts, stub=stub_solver)
    return _H


# ------------------------------------------------------------------------------------------------------------------
# contracts


def action(kind):
    return {
        "success": asm.return_empty(), "revert": asm.revert_empty(), "panic": asm.panic(1), "panicOther": asm.panic(0x11),
        "fail": asm.set_fail_flag() + asm.return_empty(), "stuck": asm.stuck(),
    }[kind]


def body(K, refinable, pad=0):
    """K = kinds in exploration order: K[0] is the fall-through, K[j] (j >= 1) the branch `x == n - j + 1`, n = len(K) - 1
    (halmos explores the fall-through first, then the last branch, …)."""
    x, y = asm.calldata_arg(0), asm.calldata_arg(1)
    n = len(K) - 1
    pre = asm.vm_assume(x + y + ["MUL", ("push", 12345), "EQ", "ISZERO"]) if refinable else []
    for i in range(pad):   # `pad` extra path conditions shared by every path: y != 1000 + i
        pre += asm.vm_assume(y + [("push", 1000 + i), "EQ", "ISZERO"])
    b = []
    for i in range(n):
        b += asm.if_then(asm.eq_const(x, i + 1), action(K[n - i]))
    return pre + b + action(K[0])


def asserts_of(K, j, refinable, pad=0):
    """structural ids of the path conditions of path j: c0 = 1 (setup), a0 = 2 (the assume), pad conditions 100 + i,
    n_k = 10 + k, e_k = 50 + k"""
    n = len(K) - 1
    pre = [1] + ([2] if refinable else []) + [100 + i for i in range(pad)]
    if j == 0:
        return pre + [10 + k for k in range(1, n + 1)]
    i = n - j
    return pre + [10 + k for k in range(1, i + 1)] + [50 + i + 1]


# ------------------------------------------------------------------------------------------------------------------
# replies


def stub_fields(rep, cache):
    k = rep["kind"]
    if k == "sat":
        return dict(reply="sat", model={"p_x_uint256": 7}, format=rep.get("format", "hex"))
    if k == "sat_abstract":
        return dict(reply="sat_abstract")
    if k == "sat_rc":
        return dict(reply="sat", returncode=rep.get("rc", 1), stderr="(error \"unsat core is not available\")\n")
    if k == "unsat":
        return dict(reply="unsat", core=rep.get("core", "all"), error_line=bool(rep.get("error_line")),
                    core_wrap=rep.get("wrap"), core_style=rep.get("style", "yices"))
    if k == "unsat_rc":
        return dict(reply="unsat", core=rep.get("core", "all"), returncode=rep.get("rc", 1),
                    core_wrap=rep.get("wrap"), core_style=rep.get("style", "yices"))
    if k == "unknown":
        return dict(reply="unknown")
    if k == "unknown_rc":
        return dict(reply="unknown", returncode=rep.get("rc", 1))
    if k == "timeout":
        return dict(reply="timeout", sleep_s=30)
    if k == "garbage":
        return dict(reply="garbage", stdout=rep.get("text", GARBAGE_TEXTS[0]), returncode=rep.get("rc", 0))
    if k == "empty":
        return dict(reply="empty", returncode=rep.get("rc", 0))
    if k == "exit":
        return dict(reply="exit", returncode=rep.get("rc", 1))
    if k == "binary":
        return dict(reply="binary")
    raise ValueError(k)


def kind_of(result):
    """str(SolverOutput.result)"""
    if isinstance(result, str):
        return result
    return str(result)


def enc_text(s):
    return ".".join(format(ord(c), "x") for c in s) if s else "-"


def enc_core(c):
    return ",".join(str(x) for x in c) if c else "-"


def proc_of(rep, asserts, cache, text):
    """Lean `Proc` of a scripted reply; `text` = the stdout the stub produced (read back from halmos' .out file when there is one)"""
    k = rep["kind"]
    if k == "timeout":
        return "T"
    if k == "binary":
        return "R"
    f = stub_fields(rep, cache)
    rc = f.get("returncode", 1 if k == "exit" else 0)
    core = []
    if k in ("unsat", "unsat_rc") and cache:
        c = rep.get("core", "all")
        core = list(asserts) if c == "all" else ([] if c in ("none", "empty") else list(asserts[:c]))
    return f"E/{rc}/{enc_core(core)}/{enc_text(text)}"


def canned_text(rep):
    k = rep["kind"]
    if k in ("sat", "sat_rc"):
        return "sat\n(\n)\n"
    if k == "sat_abstract":
        return "sat\n(\n  (define-fun f_evm_bvmul_256 ((x!0 (_ BitVec 256)) (x!1 (_ BitVec 256))) (_ BitVec 256)\n    #x00)\n)\n"
    if k in ("unsat", "unsat_rc"):
        return "unsat\n"
    if k in ("unknown", "unknown_rc"):
        return "unknown\n"
    if k == "garbage":
        return rep.get("text", GARBAGE_TEXTS[0])
    return ""


def final_kind(rep, refinable):
    f = rep["first"]["kind"]
    if f == "sat_abstract" and refinable:
        return rep["second"]["kind"]
    return f


def is_late(rep, refinable):
    """the query completes only when halmos' timeout fires"""
    return rep["first"]["kind"] == "timeout" or (rep["first"]["kind"] == "sat_abstract" and refinable and rep["second"]["kind"] == "timeout")


def spec_outcomes(case):
    out = []
    for j, k in enumerate(case["K"]):
        c = CLASS[k]
        if c == "normal":
            out.append("s")
        elif c == "ignored":
            out.append("r")
        elif c == "potential":
            out.append("v" + ANSWER[final_kind(case["replies"][str(j)], case["refinable"])])
        else:
            out.append("k" + ANSWER[case["replies"][str(j)]["first"]["kind"]])
    return ",".join(out) if out else "-"


def cores_lie(case):
    """does some scripted unsat core cover a potential query whose own final answer is not unsat?"""
    if not case["cache"]:
        return False
    K, ref = case["K"], case["refinable"]
    pots = [j for j, k in enumerate(K) if CLASS[k] == "potential"]
    for j in pots:
        rep = case["replies"][str(j)]
        which = "second" if (rep["first"]["kind"] == "sat_abstract" and ref) else "first"
        r = rep[which]
        if r["kind"] not in ("unsat", "unsat_rc"):
            continue
        a = asserts_of(K, j, ref, case.get("pad", 0))
        c = r.get("core", "all")
        core = a if c == "all" else ([] if c in ("none", "empty") else a[:c])
        if not core:
            continue
        for j2 in pots:
            if j2 != j and set(core) <= set(asserts_of(K, j2, ref, case.get("pad", 0))) and ANSWER[final_kind(case["replies"][str(j2)], ref)] != "u":
                return True
    return False


# ------------------------------------------------------------------------------------------------------------------
# one end-to-end case


def sched_tokens(case, variant=None):
    s = case["sched"]
    if s["type"] == "race" and variant == "before-submit":
        return f"Ms{s['s']},S*,F{s['p']},M*,S*,F*"
    if s["type"] == "par":
        return "M*,S*" + "".join(f",F{p}" for p in s["perm"])
    if s["type"] == "seq":
        return "M*,SF*"
    if s["type"] == "race":
        return f"Mw{s['s']},S*,F{s['p']},M*,S*,F*"
    raise ValueError(s)


def lean_paths(case, texts, kill_raises=True):
    K, ref, cache = case["K"], case["refinable"], case["cache"]
    out = []
    for j, k in enumerate(K):
        a = asserts_of(K, j, ref, case.get("pad", 0))
        rep = case["replies"].get(str(j))
        if rep is None:
            out.append(f"{OBS[k]}:-:0:0:R:R")
            continue
        p1 = proc_of(rep["first"], a, cache, texts.get((j, False), canned_text(rep["first"])))
        p2 = proc_of(rep["second"], a, cache, texts.get((j, True), canned_text(rep["second"]))) if rep.get("second") else "R"
        out.append(f"{OBS[k]}:{enc_core(a)}:{1 if ref else 0}:{1 if kill_raises else 0}:{p1}:{p2}")
    return ";".join(out) if out else "-"


def lean_test_line(case, texts, kill_raises=True, variant=None):
    cfg = f"{1 if case['early'] else 0}{1 if case['cache'] else 0}"
    return f"test {cfg} {lean_paths(case, texts, kill_raises)} {sched_tokens(case, variant)}"


def script_rules(s, case, fn=FN):
    K, ref, cache = case["K"], case["refinable"], case["cache"]
    sched = case["sched"]
    deps, delay = {}, {}
    if sched["type"] == "par":
        n_stuck_to = sum(1 for j, k in enumerate(K) if CLASS[k] == "stuck" and case["replies"][str(j)]["first"]["kind"] == "timeout")
        n_stuck = sum(1 for k in K if CLASS[k] == "stuck")
        base = 150 + 110 * n_stuck + 1050 * n_stuck_to
        prev = None
        for p in sched["perm"]:
            rep = case["replies"][str(p)]
            if is_late(rep, ref):
                continue
            if prev is None:
                deps[p], delay[p] = [], base
            else:
                deps[p], delay[p] = [prev], 25
            refined = rep["first"]["kind"] == "sat_abstract" and ref
            prev = f"{fn}/{p}" + (".refined" if refined else "")
    elif sched["type"] == "race":
        delay[sched["p"]] = 260
        delay[sched["s"]] = 1500
    for j, k in enumerate(K):
        rep = case["replies"].get(str(j))
        if rep is None:
            continue
        if rep.get("second"):
            s.rule({"fn": fn, "path": j, "refined": True}, **stub_fields(rep["second"], cache))
        f = stub_fields(rep["first"], cache)
        if j in delay:
            f["delay_ms"] = delay[j]
        if sched["type"] == "race" and j == sched["s"] and sched.get("ignore_sigterm"):
            f["ignore_sigterm"] = True
        if deps.get(j):
            f["after"] = deps[j]
            f["after_timeout_s"] = 6
        s.rule({"fn": fn, "path": j, "refined": False}, **f)


def timeout_of(case):
    any_to = any(r[w]["kind"] == "timeout" for r in case["replies"].values() for w in ("first", "second") if r.get(w))
    return "900ms" if any_to else "8s"


def threads_of(case):
    return 1 if case["sched"]["type"] == "seq" else 8


def run_real(case):
    """-> dict(code, stdout, texts, log, order, workdir-independent facts)"""
    h = H()
    art, stub = h["art"], h["stub"]
    c = art.TestContract("T", [art.Fn(f"{FN}(uint256 x, uint256 y)", body(case["K"], case["refinable"], case.get("pad", 0)))])
    tmp = tempfile.mkdtemp(prefix="verif_c05_")
    texts, names = {}, {}

    def inspect(wd, run):
        for f in glob.glob(os.path.join(wd, "smt", FN, "*.smt2")):
            m = re.match(r"^(\d+)(\.refined)?\.smt2$", os.path.basename(f))
            if not m:
                continue
            key = (int(m.group(1)), bool(m.group(2)))
            q = open(f).read()
            names[key] = re.findall(r":named (<\d+>)", q)
            if os.path.exists(f + ".out"):
                texts[key] = open(f + ".out").read()

    try:
        with stub.Script(tmp) as s:
            script_rules(s, case)
            s.default(reply="garbage", stdout="stub: unexpected query\n")
            s.write()
            t0 = time.time()
            run = art.run_contract_offline(
                c, solver_command=s.command, early_exit=case["early"], cache_solver=case["cache"],
                solver_threads=threads_of(case), solver_timeout_assertion=timeout_of(case), inspect=inspect)
            wall = time.time() - t0
            log = s.log()
    finally:
        shutil.rmtree(tmp, ignore_errors=True)
    res = run.results
    code = res[0].exitcode if len(res) == 1 else None
    return dict(code=code, nres=len(res), stdout=run.stdout, errors=run.errors, texts=texts, names=names, log=log, wall=wall,
                num_paths=(res[0].num_paths if res else None))


def realized(case, obs):
    """did the scripted schedule actually happen (judged from the stub's own log)?"""
    log = obs["log"]
    done = {r["q"]: r["t"] for r in log if r["ev"] == "done"}
    start = {r["q"]: r["t"] for r in log if r["ev"] == "start"}
    K, ref = case["K"], case["refinable"]
    s = case["sched"]

    def cex(rep):
        f = rep["first"]["kind"]
        return f in ("sat", "sat_rc") or (f == "sat_abstract" and ref and rep.get("second", {}).get("kind") in ("sat", "sat_rc"))

    shuts = case["early"] and any(cex(rep) for j, rep in case["replies"].items() if CLASS[K[int(j)]] == "potential")
    if not shuts:
        # nothing kills a solver here except halmos' own timeout: a scripted answer that never came out means the machine
        # was too loaded for the (short) timeout of this case
        for q in start:
            m = re.match(r"^.*/(\d+)(\.refined)?$", q)
            rep = case["replies"].get(m.group(1)) if m else None
            if rep is None:
                continue
            kind = (rep.get("second") or {}).get("kind") if m.group(2) else rep["first"]["kind"]
            if kind != "timeout" and q not in done:
                return False
    if s["type"] == "par":
        finals = []
        for p in s["perm"]:
            rep = case["replies"][str(p)]
            if is_late(rep, ref):
                continue
            refined = rep["first"]["kind"] == "sat_abstract" and ref
            finals.append(f"{FN}/{p}" + (".refined" if refined else ""))
        ts = [done[q] for q in finals if q in done]
        if ts != sorted(ts):
            return False
        def valid_cex(p):
            rep = case["replies"][str(p)]
            f = rep["first"]["kind"]
            return f in ("sat", "sat_rc") or (f == "sat_abstract" and ref and rep["second"]["kind"] in ("sat", "sat_rc"))

        will_shut_down = case["early"] and any(valid_cex(p) for p in s["perm"])
        if not will_shut_down and len(ts) != len(finals):
            return False   # some query that should have answered did not (e.g. it hit halmos' timeout)
        # the exploration (with its synchronous stuck confirmations) was over before the first potential query answered
        stuck_done = []
        for j, k in enumerate(K):
            if CLASS[k] != "stuck":
                continue
            q = f"{FN}/{j}"
            if case["replies"][str(j)]["first"]["kind"] == "timeout":
                if q not in start:
                    return False
                stuck_done.append(start[q] + 0.9)
            elif q not in done:
                return False   # never submitted (ShutdownError) or killed: an early exit raced with the exploration
            else:
                stuck_done.append(done[q])
        if ts and stuck_done and min(ts) < max(stuck_done) + 0.01:
            return False
        return True
    if s["type"] == "race":
        # the counterexample arrived before the stuck confirmation finished (it was killed, or never submitted)
        qp, qs = f"{FN}/{s['p']}", f"{FN}/{s['s']}"
        return qp in done and qs not in done
    return True


# ------------------------------------------------------------------------------------------------------------------
# generators


def harvest_literals():
    lits = set()
    for rel, funcs in (("src/halmos/__main__.py", {"run_test", "_main", "run_tests", "_get_solver_output", "_solve_end_to_end_callback"}),
                       ("src/halmos/solve.py", {"from_result", "from_error", "solve_low_level", "solve_end_to_end", "check_unsat_cores"})):
        tree = ast.parse((REPO / rel).read_text())
        for n in ast.walk(tree):
            if isinstance(n, (ast.FunctionDef,)) and n.name in funcs:
                for c in ast.walk(n):
                    if isinstance(c, ast.Constant) and isinstance(c.value, int) and not isinstance(c.value, bool):
                        lits.add(c.value)
            if isinstance(n, ast.Assign) and isinstance(n.value, ast.Constant) and isinstance(n.value.value, int) and not isinstance(n.value.value, bool):
                lits.add(n.value.value)
    out = set()
    for v in lits:
        if abs(v) < 10 ** 6:
            out |= {v - 1, v, v + 1}
    return sorted(out)


def rand_reply(rng, cls, lits, cache, nasserts):
    kind = rng.choice(REPLY_BY_CLASS[cls])
    rep = {"kind": kind}
    if kind == "garbage":
        rep["text"] = rng.choice(GARBAGE_TEXTS)
        rep["rc"] = rng.choice([0, 0, 1] + [v for v in lits if -2 <= v <= 255])
    if kind in ("sat_rc", "unsat_rc", "unknown_rc", "exit"):
        rep["rc"] = rng.choice([1, 1, 2, 255] + [v for v in lits if 1 <= v <= 255])
    if kind == "sat":
        rep["format"] = rng.choice(["hex", "bin", "dec"])
    if kind in ("unsat", "unsat_rc"):
        rep["core"] = rng.choice(["all", "all", "none", "empty", "empty"] + list(range(1, nasserts + 1))) if cache else rng.choice(["all", "empty"])
        if kind == "unsat" and rng.random() < 0.3:
            rep["error_line"] = True
    return rep


def gen_case(rng, K, lits, force_race=False):
    ref = rng.random() < 0.35
    early = rng.random() < 0.5 or force_race
    cache = rng.random() < 0.5
    replies = {}
    for j, k in enumerate(K):
        c = CLASS[k]
        if c not in ("potential", "stuck"):
            continue
        na = len(asserts_of(K, j, ref))
        cls = rng.choice("cuutf" if c == "potential" else "cuutf")
        rep = {"first": rand_reply(rng, cls, lits, cache, na)}
        if c == "potential" and rep["first"]["kind"] == "sat_abstract":
            rep["second"] = rand_reply(rng, rng.choice("cuutf"), lits, cache, na)
        replies[str(j)] = rep
    pots = [j for j, k in enumerate(K) if CLASS[k] == "potential"]
    stucks = [j for j, k in enumerate(K) if CLASS[k] == "stuck"]
    if force_race:
        cands = [j for j in pots if any(sj > j for sj in stucks)]
        replies[str(rng.choice(cands))] = {"first": {"kind": rng.choice(["sat", "sat", "sat_rc"])}}
    # at most one hang per case (each costs the timeout), never on both sides
    hangs = [(j, w) for j in replies for w in ("first", "second") if replies[j].get(w) and replies[j][w]["kind"] == "timeout"]
    for j, w in hangs[1:]:
        replies[j][w] = {"kind": "unknown"}

    def sat_valid(j):
        rep = replies[str(j)]
        if rep["first"]["kind"] in ("sat", "sat_rc"):
            return True
        return rep["first"]["kind"] == "sat_abstract" and ref and rep["second"]["kind"] in ("sat", "sat_rc")

    first_sat = min([j for j in pots if sat_valid(j)], default=None)
    stuck_after = [j for j in stucks if first_sat is not None and j > first_sat]
    typ = rng.choice(["par", "par", "seq"])
    if early and first_sat is not None and stuck_after and (force_race or rng.random() < 0.6):
        typ = "race"
    if typ == "race":
        sj = rng.choice(stuck_after)
        replies[str(sj)]["first"] = {"kind": rng.choice(["unsat", "sat", "unknown", "garbage"])}
        if replies[str(sj)]["first"]["kind"] == "garbage":
            replies[str(sj)]["first"]["text"] = GARBAGE_TEXTS[0]
        # exactly one valid counterexample in front of the stuck path, nothing slow elsewhere
        for j in replies:
            for w in ("first", "second"):
                if replies[j].get(w) and replies[j][w]["kind"] == "timeout":
                    replies[j][w] = {"kind": "unknown"}
        # a solver that ignores SIGTERM is SIGKILLed after halmos' grace period and its pipes are closed at once: the
        # blocked `future.result()` then raises (deterministically); an obedient one usually dies cleanly (empty output)
        sched = {"type": "race", "p": first_sat, "s": sj, "ignore_sigterm": rng.random() < 0.7}
    elif typ == "seq":
        if early and first_sat is not None and stuck_after:
            early = False   # would race (covered by the race schedule)
        sched = {"type": "seq"}
    else:
        if early and first_sat is not None:
            for j in stucks:
                if replies[str(j)]["first"]["kind"] == "timeout":
                    replies[str(j)]["first"] = {"kind": "unknown"}
        # a hanging stuck confirmation lasts as long as halmos' timeout, which also bounds every potential query started
        # before it: "potential queries complete after the exploration" cannot be scripted then (covered by `seq`)
        if pots:
            for j in stucks:
                if replies[str(j)]["first"]["kind"] == "timeout":
                    replies[str(j)]["first"] = {"kind": "unknown"}
        early_ones = [j for j in pots if not is_late(replies[str(j)], ref)]
        late = [j for j in pots if is_late(replies[str(j)], ref)]
        rng.shuffle(early_ones)
        sched = {"type": "par", "perm": early_ones + late}
    return {"K": list(K), "refinable": ref, "early": early, "cache": cache, "replies": replies, "sched": sched}


def case_key(case):
    return json.dumps(case, sort_keys=True)


# ------------------------------------------------------------------------------------------------------------------
# checking one case against model and spec


def classify_violation(case, impl, spec):
    if case["sched"]["type"] == "race" and impl == 5 and spec == "fail":
        return KEY_RACE
    stuck_binary = any(CLASS[k] == "stuck" and case["replies"][str(j)]["first"]["kind"] == "binary" for j, k in enumerate(case["K"]))
    if impl == 5 and spec == "fail" and stuck_binary and case["sched"]["type"] != "race":
        return KEY_RAISE
    oc = spec_outcomes(case).split(",")
    deviates = ("vt" in oc and "vc" not in oc and "vf" not in oc
                and (any(o in ("kc", "kt", "kf") for o in oc) or "s" not in oc))   # = Lean `Deviates`
    if impl == 2 and spec == "error" and deviates:
        return KEY_TIMEOUT
    empty_core = case["cache"] and any(r[w]["kind"] in ("unsat", "unsat_rc") and r[w].get("core") in ("empty", "none")
                                       for r in case["replies"].values() for w in ("first", "second") if r.get(w))
    wrapped = case["cache"] and any(r[w]["kind"] in ("unsat", "unsat_rc") and (r[w].get("wrap") or r[w].get("style") == "cvc5")
                                    for r in case["replies"].values() for w in ("first", "second") if r.get(w))
    if wrapped and not empty_core and spec == "fail" and impl != 1 and "vc" in oc:
        return KEY_WRAPPED_CORE + f":{EXIT_NAME.get(impl, impl)}-instead-of-FAIL"
    if empty_core and spec == "fail" and impl != 1 and "vc" in oc:
        return KEY_EMPTY_CORE + f":{EXIT_NAME.get(impl, impl)}-instead-of-FAIL"
    return (f"verdict:{EXIT_NAME.get(impl, impl)}-where-property-says-{spec.upper()}"
            f"{':early-exit' if case['early'] else ''}{':race' if case['sched']['type'] == 'race' else ''}")


class Pending:
    """end-to-end observations waiting for the (batched) Lean answers"""

    def __init__(self):
        self.items = []
        self.lines = []

    def add(self, case, obs, origin):
        ix = len(self.lines)
        self.lines.append(lean_test_line(case, obs["texts"], True))
        self.lines.append(lean_test_line(case, obs["texts"], False))
        self.lines.append(lean_test_line(case, obs["texts"], True, "before-submit"))
        self.lines.append("spec " + spec_outcomes(case))
        self.items.append((case, obs, origin, ix))


def judge(ctx, pend: Pending):
    if not pend.lines:
        return
    rep = _Lean.ask(ctx, pend.lines)
    mismatches = []
    for case, obs, origin, ix in pend.items:
        m1, m0, mb, spec = rep[ix], rep[ix + 1], rep[ix + 2], rep[ix + 3]
        impl = obs["code"]
        if obs["nres"] != 1 or impl is None:
            raise RuntimeError(f"harness: expected one TestResult, got {obs['nres']} for {case_key(case)}\n{obs['stdout'][-800:]}")
        codes = set()
        for m in ((m1, m0, mb) if case["sched"]["type"] == "race" else (m1, m0)):
            mm = re.match(r"^ok (\d+) (\w+) ", m)
            if not mm:
                raise RuntimeError(f"model could not run the schedule: {m} for {case_key(case)}")
            codes.add(int(mm.group(1)))
        model_ok = impl in codes if case["sched"]["type"] == "race" else impl == int(re.match(r"^ok (\d+)", m1).group(1))
        lie = cores_lie(case)
        spec_ok = lie or SPEC_CLASS.get(impl) == spec
        ctx.count(f"verdict:{EXIT_NAME.get(impl, impl)}")
        ctx.count(f"sched:{case['sched']['type']}:{'early' if case['early'] else 'noearly'}:{'cache' if case['cache'] else 'nocache'}")
        if lie:
            ctx.count("cores:inconsistent(spec skipped)")
        if not spec_ok:
            key = classify_violation(case, impl, spec)
            ctx.violation(key, f"halmos reports {EXIT_NAME.get(impl, impl)} ({impl}) where the property's verdict on the per-path outcomes "
                               f"[{spec_outcomes(case)}] is {spec.upper()} (schedule {case['sched']}, early_exit={case['early']}, "
                               f"cache_solver={case['cache']}); model says {sorted(codes)}",
                          {"kind": "e2e", "case": case})
        if not model_ok:
            # keep judging the remaining cases (a concrete violation of the property may be among them); raise at the end
            if spec_ok and not lie:
                mismatches.append(f"model/implementation mismatch with the Spec agreeing with the implementation (stale model, or a "
                                  f"change of the implementation the 4-valued Spec cannot see): "
                                  f"impl={impl} model={m1} | {m0} case={case_key(case)}\n{obs['stdout'][-1500:]}")
            elif lie:
                mismatches.append(f"model/implementation mismatch on an inconsistent-core case: impl={impl} model={m1} case={case_key(case)}")
            # otherwise the implementation differs from both: already reported as a violation above
    if mismatches:
        raise RuntimeError(f"{len(mismatches)} mismatch(es); first: {mismatches[0]}")


def run_and_queue(ctx, pend, case, origin, retries=1):
    for attempt in range(retries + 1):
        obs = run_real(case)
        if realized(case, obs):
            break
        ctx.count("schedule-not-realized(retry)")
    else:
        ctx.count("schedule-not-realized(skipped)")
        return False
    nq = sum(1 for r in obs["log"] if r["ev"] == "start")
    ctx.case(case_key(case), nontrivial=nq > 0)
    ctx.count(f"paths:{len(case['K'])}")
    for k in case["K"]:
        ctx.count(f"kind:{k}")
    for r in case["replies"].values():
        for w in ("first", "second"):
            if r.get(w):
                ctx.count(f"reply:{r[w]['kind']}")
    # structural ids: the dumped queries name exactly as many assertions as the model is told
    if case["cache"]:
        for (j, _refd), nm in obs["names"].items():
            if len(nm) != len(asserts_of(case["K"], j, case["refinable"], case.get("pad", 0))):
                raise RuntimeError(f"harness: path {j} has {len(nm)} named assertions, expected {len(asserts_of(case['K'], j, case['refinable'], case.get('pad', 0)))}")
    pend.add(case, obs, origin)
    ctx.sample({"case": case, "halmos_exitcode": obs["code"], "stub_completion_order": [r["q"] for r in obs["log"] if r["ev"] == "done"]})
    return True


# ------------------------------------------------------------------------------------------------------------------
# witnesses of the `_cex` theorems (Model.VerdictWitness) as harness cases

WITNESS = {
    "race": {"K": ["success", "panic", "stuck"], "refinable": False, "early": True, "cache": False,
             "replies": {"1": {"first": {"kind": "sat"}}, "2": {"first": {"kind": "unsat"}}},
             "sched": {"type": "race", "p": 1, "s": 2, "ignore_sigterm": True}},
    "timeoutOverStuck": {"K": ["success", "panic", "stuck"], "refinable": False, "early": False, "cache": False,
                         "replies": {"1": {"first": {"kind": "unknown"}}, "2": {"first": {"kind": "sat"}}},
                         "sched": {"type": "par", "perm": [1]}},
    "raiseOverFail": {"K": ["success", "panic", "stuck"], "refinable": False, "early": False, "cache": False,
                      "replies": {"1": {"first": {"kind": "sat"}}, "2": {"first": {"kind": "binary"}}},
                      "sched": {"type": "par", "perm": [1]}},
}
WITNESS_TEXT = {"sat": "sat\n(\n  (define-fun p_x_uint256_00 () (_ BitVec 256) #x02)\n)\n", "unsat": "unsat\n", "unknown": "unknown\n"}


def witness_same_lines():
    """the driver's `same` request: the harness case describes the very scenario of the Lean theorem"""
    lines = []
    for name, case in WITNESS.items():
        K = case["K"]
        paths = []
        for j, k in enumerate(K):
            rep = case["replies"].get(str(j))
            if rep is None:
                paths.append(f"{OBS[k]}:-:0:0:R:R")
                continue
            kind = rep["first"]["kind"]
            p1 = "R" if kind == "binary" else f"E/0/-/{enc_text(WITNESS_TEXT[kind])}"
            kr = 1 if (name == "race" and CLASS[k] == "stuck") else 0
            paths.append(f"{OBS[k]}:{j}:0:{kr}:{p1}:R")
        cfg = f"{1 if case['early'] else 0}{1 if case['cache'] else 0}"
        lines.append(f"same {name} {cfg} {';'.join(paths)}")
    return lines


# ------------------------------------------------------------------------------------------------------------------
# unit level: from_result / _get_solver_output / solve_low_level


def unit_from_result(ctx, lits):
    h = H()
    hs = h["hs"]
    from pathlib import Path

    from z3 import sat, unknown, unsat

    rng = ctx.rng
    art = h["art"]
    tmp = tempfile.mkdtemp(prefix="verif_c05u_")
    try:
        firsts = ["sat", "unsat", "unknown", "", "err", "error", " sat", "sat ", "SAT", "Sat", "unsat ", "unsa", "unsatt", "unknown.",
                  "sat\r", "(sat)", "satunsat", "timeout", "\t", "s", "un", "UNKNOWN", "sat\x00", "ünsat", "unsat ", "1", "0"]
        bodies = ["", "(\n  (define-fun p_x_uint256_1234567_00 () (_ BitVec 256) #x2a)\n)", "(model f_evm_bvmul_256)", "f_evm_",
                  "(error \"x\")\n(<1> <2>)", "(<11> <12> <51>)", "()", "( <3> )", "unsat\n(<9>)", "sat\nf_evm", "F_EVM_ f_evm",
                  "(define-fun f_evm_bvudiv_256 ((x!0 (_ BitVec 256))) (_ BitVec 256) #x00)", "sat", "unknown"]
        seps = ["\n", "", "\n\n", " ", "\r\n"]
        rcs = sorted(set([0, 1, -1, 2, 124, 137, -15, 255] + [v for v in lits if -300 < v < 300]))
        cases = []
        for f in firsts:
            for b in bodies:
                for sp in ("\n", ""):
                    cases.append((f + sp + b, rng.choice(rcs), rng.random() < 0.5))
        for _ in range(ctx.scale(1500, 12000)):
            f = rng.choice(firsts)
            if rng.random() < 0.25:
                f = "".join(rng.choice("satunknow \t()SATU\r_") for _ in range(rng.randint(0, 8)))
            cases.append((f + rng.choice(seps) + rng.choice(bodies) + rng.choice(["", "\n"]), rng.choice(rcs), rng.random() < 0.5))
        lines, real = [], []
        cfgs = {}
        for cache in (False, True):
            args, _ = art.make_config(tmp, (), solver_command="z3", cache_solver=cache, no_status=True)
            cfgs[cache] = args
        sctx = hs.SolvingContext(dump_dir=Path(tmp))
        for text, rc, cache in cases:
            pc = hs.PathContext(args=cfgs[cache], path_id=3, solving_ctx=sctx, query=h["SMTQuery"]("", []))
            with art.capture_halmos():
                so = hs.SolverOutput.from_result(text, "some stderr", rc, pc)
            kind = kind_of(so.result)
            if kind == "sat":
                got = f"sat:{1 if so.model.is_valid else 0}"
            elif kind == "unsat":
                got = f"unsat:{enc_core([int(x) for x in (so.unsat_core or [])])}"
            else:
                got = kind
            if so.returncode != rc or so.path_id != 3:
                ctx.violation("from_result:returncode-or-path-id-not-passed-through", f"{text!r} rc={rc}: {so}", {"kind": "fr", "text": text, "rc": rc, "cache": cache})
            # what parse_unsat_core yields is given to the model as data (its regex is C11/C16's subject);
            # here it only matters whether the core is kept (cache_solver) or dropped
            with art.capture_halmos():
                parsed = hs.parse_unsat_core(text) or []
            core = [int(x) for x in parsed]
            lines.append(f"fr {1 if cache else 0} {rc} {enc_core(core)} {enc_text(text)}")
            real.append((got, text, rc, cache))
            fl = text.split("\n", 1)[0]
            ctx.count("from_result:first-line:" + (fl if fl in ("sat", "unsat", "unknown", "") else "other"))
        rep = _Lean.ask(ctx, lines)
        for (got, text, rc, cache), want in zip(real, rep):
            ctx.case(("fr", text, rc, cache), nontrivial=True)
            fl = text.split("\n", 1)[0]
            # Spec: only an answer line makes an answer; everything else is a failed call; never unsat/sat from garbage
            spec_kind = fl if fl in ("sat", "unsat", "unknown") else "err"
            if got.split(":")[0] != spec_kind:
                ctx.violation(f"from_result:{spec_kind if spec_kind != 'err' else 'garbage'}-classified-as-{got.split(':')[0]}",
                              f"from_result({text!r}, rc={rc}) = {got}; an output whose first line is {fl!r} must be {spec_kind}",
                              {"kind": "fr", "text": text, "rc": rc, "cache": cache})
            elif got != want:
                if got.split(":")[0] == "sat" and want.split(":")[0] == "sat":
                    ctx.violation("from_result:model-validity", f"from_result({text!r}) = {got}, model {want} (validity = no f_evm_ in the output)",
                                  {"kind": "fr", "text": text, "rc": rc, "cache": cache})
                else:
                    raise RuntimeError(f"from_result model mismatch: {text!r} rc={rc} cache={cache}: impl {got} model {want}")
    finally:
        shutil.rmtree(tmp, ignore_errors=True)


def unit_get_solver_output(ctx):
    h = H()
    hm, hs = h["hm"], h["hs"]
    from concurrent.futures import Future

    from z3 import sat, unknown, unsat

    art = h["art"]
    lines, real = [], []
    outs = {
        "sat1": (hs.SolverOutput(sat, 0, 1, "q", model=hs.PotentialModel({}, True)), "E/0/-/" + enc_text("sat\n")),
        "sat0": (hs.SolverOutput(sat, 0, 1, "q", model=hs.PotentialModel({}, False)), "E/0/-/" + enc_text("sat\nf_evm_")),
        "unsat": (hs.SolverOutput(unsat, 0, 1, "q"), "E/0/-/" + enc_text("unsat\n")),
        "unknown": (hs.SolverOutput(unknown, 0, 1, "q"), "E/0/-/" + enc_text("unknown\n")),
        "unknown_to": (hs.SolverOutput(unknown, 124, 1, "q"), "T"),
        "err": (hs.SolverOutput("err", 1, 1, "q", error="x"), "E/1/-/" + enc_text("boom")),
    }
    excs = {"shutdown": h["ShutdownError"](), "badfd": OSError(9, "Bad file descriptor"), "value": ValueError("x"),
            "unicode": UnicodeDecodeError("utf-8", b"\xff", 0, 1, "invalid start byte")}
    for shut in (False, True):
        for name, (so, proc) in list(outs.items()) + [(k, (e, "R")) for k, e in excs.items()]:
            ex = h["PopenExecutor"]()
            if shut:
                ex.shutdown(wait=False)
            fctx = SimpleNamespace(solving_ctx=SimpleNamespace(executor=ex))
            handler = hm.CounterexampleHandler(ctx=fctx, is_invariant=False, is_probe=False, flamegraph_enabled=False,
                                               potential_flamegraphs={}, submitted_futures=[])
            fut = Future()
            if isinstance(so, Exception):
                fut.set_exception(so)
            else:
                fut.set_result(so)
            pc = SimpleNamespace(path_id=1, dump_file="q")
            with art.capture_halmos():
                got = handler._get_solver_output(fut, pc)
            kind = kind_of(got.result)
            lines.append(f"gso 0 {1 if shut else 0} 0 -:0:0:{proc}:R")
            real.append((name, shut, kind))
            ctx.case(("gso", name, shut), nontrivial=True)
            ctx.count("get_solver_output:" + ("shutdown" if shut else "live"))
    rep = _Lean.ask(ctx, lines)
    for (name, shut, kind), want in zip(real, rep):
        if kind != want.split(":")[0]:
            spec_kind = "err" if (shut or name in excs or name == "err") else name.rstrip("01").replace("_to", "")
            if kind != spec_kind:
                ctx.violation(f"get_solver_output:{name}:{'shutdown' if shut else 'live'}-gives-{kind}",
                              f"_get_solver_output(future={name}, shutdown={shut}) = {kind}, expected {spec_kind}", {"kind": "gso", "name": name, "shut": shut})
            else:
                raise RuntimeError(f"_get_solver_output model mismatch {name} shut={shut}: impl {kind} model {want}")


# ------------------------------------------------------------------------------------------------------------------
# whole process: `_main` over several contracts


def gen_main_case(rng, lits):
    ncon = rng.choice([1, 1, 2, 2, 3])
    contracts = []
    t = 0
    for ci in range(ncon):
        nt = rng.choice([1, 2, 2, 3])
        tests = []
        for _ in range(nt):
            m = rng.choice([1, 2, 2, 3])
            r = rng.random()
            if r < 0.45:   # a passing shape
                K = [rng.choice(["success", "success", "revert", "panic", "fail"]) for _ in range(m)]
                if "success" not in K:
                    K[rng.randrange(m)] = "success"
                case = gen_case(rng, K, lits)
                for rep in case["replies"].values():
                    rep["first"] = {"kind": "unsat"}
                    rep.pop("second", None)
            else:
                K = [rng.choice(KINDS) for _ in range(m)]
                case = gen_case(rng, K, lits)
            case["early"] = False
            case["sched"] = {"type": "seq"}
            for rep in case["replies"].values():
                for w in ("first", "second"):
                    if rep.get(w) and rep[w]["kind"] == "timeout":
                        rep[w] = {"kind": "unknown"}
            tests.append({"fn": f"check_c{ci}t{t}", "case": case})
            t += 1
        setup = rng.choice(["none", "none", "ok", "revert"])
        contracts.append({"name": f"C{ci}", "setup": setup, "tests": tests})
    sel = rng.choice(["all", "all", "all", "one", "none"])
    return {"contracts": contracts, "select": sel}


def run_main_case(mc):
    h = H()
    art, stub = h["art"], h["stub"]
    descs = []
    for c in mc["contracts"]:
        fns = [art.Fn(f"{t['fn']}(uint256 x, uint256 y)", body(t["case"]["K"], t["case"]["refinable"], t["case"].get("pad", 0))) for t in c["tests"]]
        if c["setup"] == "ok":
            fns.append(art.Fn("setUp()", [77, 0, "SSTORE"]))
        elif c["setup"] == "revert":
            fns.append(art.Fn("setUp()", asm.revert_empty()))
        descs.append(art.TestContract(c["name"], fns))
    cli = []
    if mc["select"] == "one":
        cli = ["--match-test", mc["contracts"][0]["tests"][0]["fn"].split("_", 1)[1] + "\\("]
    elif mc["select"] == "none":
        cli = ["--match-test", "no_such_test"]
    any_cache = any(t["case"]["cache"] for c in mc["contracts"] for t in c["tests"])
    tmp = tempfile.mkdtemp(prefix="verif_c05m_")
    texts = {}

    def inspect(wd, run):
        for f in glob.glob(os.path.join(wd, "smt", "*", "*.smt2.out")):
            m = re.match(r"^(\d+)(\.refined)?\.smt2\.out$", os.path.basename(f))
            if m:
                texts[(os.path.basename(os.path.dirname(f)), int(m.group(1)), bool(m.group(2)))] = open(f).read()

    try:
        with stub.Script(tmp) as s:
            for c in mc["contracts"]:
                for t in c["tests"]:
                    case = dict(t["case"])
                    case["cache"] = any_cache
                    script_rules(s, case, fn=t["fn"])
            s.default(reply="garbage", stdout="stub: unexpected query\n")
            s.write()
            run = art.run_main_offline(descs, solver_command=s.command, cli_args=cli, cache_solver=any_cache, solver_threads=1,
                                       solver_timeout_assertion="8s", inspect=inspect)
    finally:
        shutil.rmtree(tmp, ignore_errors=True)
    return run, texts, any_cache


def main_level(ctx, lits):
    rng = ctx.rng
    n = ctx.scale(18, 400)
    lines, items = [], []
    for _ in range(n):
        mc = gen_main_case(rng, lits)
        run, texts, any_cache = run_main_case(mc)
        selected = []
        for c in mc["contracts"]:
            for ti, t in enumerate(c["tests"]):
                if mc["select"] == "all" or (mc["select"] == "one" and c is mc["contracts"][0] and ti == 0):
                    selected.append((c, t))
        by = {}
        for path, rs in (run.test_results or {}).items():
            for r in rs:
                by[r.name.split("(")[0]] = r.exitcode
        ix = len(lines)
        # per test: model verdict under the sequential schedule; spec verdict from the scripted outcomes
        per = []
        for c, t in selected:
            case = dict(t["case"])
            case["cache"] = any_cache
            tx = {(j, refd): v for (fn, j, refd), v in texts.items() if fn == t["fn"]}
            lines.append(lean_test_line(case, tx, True))
            lines.append("spec " + spec_outcomes(case))
            per.append((c, t, case))
        contracts_arg = []
        for c in mc["contracts"]:
            sel = [t for (cc, t) in selected if cc is c]
            if not sel:
                continue
            codes = [by[t["fn"]] for t in sel if t["fn"] in by]
            contracts_arg.append(f"{len(sel)}:{','.join(str(x) for x in codes) if codes else '-'}")
        lines.append("exit " + (";".join(contracts_arg) if contracts_arg else "-"))
        items.append((mc, run.exitcode, by, per, ix, run.stdout))
        ctx.case(("main", json.dumps(mc, sort_keys=True)), nontrivial=bool(selected))
        ctx.count(f"main:contracts={len(mc['contracts'])}:select={mc['select']}")
        ctx.count(f"main:exit={run.exitcode}")
    rep = _Lean.ask(ctx, lines)
    spec_lines, spec_items = [], []
    for mc, exitcode, by, per, ix, stdout in items:
        statuses = ""
        k = ix
        for c, t, case in per:
            m, spec = rep[k], rep[k + 1]
            k += 2
            impl = by.get(t["fn"])
            if c["setup"] == "revert":
                if impl is not None:
                    raise RuntimeError(f"harness: test of a contract with failing setUp has a result: {t['fn']}")
                statuses += "n"
                ctx.count("main:test-not-run(setUp failed)")
                continue
            if impl is None:
                raise RuntimeError(f"harness: no result for {t['fn']}\n{stdout[-1500:]}")
            mm = re.match(r"^ok (\d+) ", m)
            if not mm:
                raise RuntimeError(f"model could not run: {m}")
            lie = cores_lie(case)
            if not lie and SPEC_CLASS[impl] != spec:
                ctx.violation(classify_violation(case, impl, spec),
                              f"(_main run) halmos reports {EXIT_NAME[impl]} where the property's verdict on [{spec_outcomes(case)}] is {spec.upper()}",
                              {"kind": "e2e", "case": case})
            elif int(mm.group(1)) != impl:
                raise RuntimeError(f"model/implementation mismatch in a _main run: impl={impl} model={m} case={case_key(case)}")
            statuses += {"pass": "p", "fail": "f", "error": "e", "timeout": "t"}[SPEC_CLASS[impl]]
        want_exit = rep[k]
        if want_exit != f"ok {exitcode}":
            spec_lines.append("specexit " + (statuses or "-"))
            spec_items.append((mc, exitcode, statuses, want_exit, True))
        else:
            spec_lines.append("specexit " + (statuses or "-"))
            spec_items.append((mc, exitcode, statuses, want_exit, False))
    rep2 = _Lean.ask(ctx, spec_lines)
    for (mc, exitcode, statuses, want_exit, model_bad), spec_exit in zip(spec_items, rep2):
        if str(exitcode) != spec_exit:
            ctx.violation(f"exit-code:{exitcode}-where-spec-says-{spec_exit}:{''.join(sorted(set(statuses))) or 'none-selected'}",
                          f"_main exits {exitcode} for selected tests with verdict classes {statuses or '(none)'}; the property says {spec_exit}",
                          {"kind": "main", "mc": mc})
        elif model_bad:
            raise RuntimeError(f"exit code model mismatch: impl {exitcode}, model {want_exit}, statuses {statuses}")


# ------------------------------------------------------------------------------------------------------------------


def corpus_cases():
    d = VERIF / "corpus" / ID
    out = []
    if d.exists():
        for p in sorted(d.glob("*.json")):
            try:
                j = json.loads(p.read_text())
                if "case" in j:
                    out.append(j["case"])
            except Exception:
                continue
    return out


def all_K(maxlen):
    for m in range(1, maxlen + 1):
        yield from itertools.product(KINDS, repeat=m)


def gen_empty_core_case(rng, lits):
    """--cache-solver, one solver thread: an unsat reply whose core is empty / absent, and a valid counterexample on another
    path, in both submission orders (the unsat-core cache must not answer the second query)"""
    while True:
        m = rng.choice([3, 3, 4])
        K = [rng.choice(KINDS) for _ in range(m)]
        pots = [j for j, k in enumerate(K) if CLASS[k] == "potential"]
        if len(pots) >= 2:
            break
    case = gen_case(rng, K, lits)
    a, b = rng.sample(pots, 2)
    case["cache"], case["sched"], case["refinable"] = True, {"type": "seq"}, case["refinable"]
    case["replies"][str(a)] = {"first": {"kind": rng.choice(["unsat", "unsat_rc"]), "core": rng.choice(["empty", "empty", "none"]),
                                         "error_line": rng.random() < 0.3}}
    case["replies"][str(b)] = {"first": {"kind": rng.choice(["sat", "sat_rc"])}}
    stucks = [j for j, k in enumerate(K) if CLASS[k] == "stuck"]
    if any(j > b for j in stucks):
        case["early"] = False   # would race with a later stuck confirmation (covered by the race schedule)
    for rep in case["replies"].values():
        for w in ("first", "second"):
            if rep.get(w) and rep[w]["kind"] == "timeout":
                rep[w] = {"kind": "unknown"}
    return case


def gen_wrapped_core_case(rng, lits):
    """paths with 21-40 conditions; one potential query is answered unsat with its full core printed over several lines
    (yices wraps after 20 names; widths 1, 3, 20; cvc5 prints one name per line; with / without the `(error …)` line); a
    sibling potential query, which shares every name of the first printed line, is answered sat. FAIL in every order."""
    while True:
        m = rng.choice([3, 3, 4])
        K = [rng.choice(KINDS) for _ in range(m)]
        pots = [j for j, k in enumerate(K) if CLASS[k] == "potential"]
        if len(pots) >= 2:
            break
    case = gen_case(rng, K, lits)
    case["pad"] = rng.randint(20, 36)
    a, b = rng.sample(pots, 2)
    case["cache"] = rng.random() < 0.8
    case["replies"][str(a)] = {"first": {"kind": rng.choice(["unsat", "unsat", "unsat_rc"]), "core": "all",
                                         "wrap": rng.choice([1, 3, 20, 20]), "style": rng.choice(["yices", "yices", "cvc5"]),
                                         "error_line": rng.random() < 0.5}}
    case["replies"][str(b)] = {"first": {"kind": rng.choice(["sat", "sat_rc"])}}
    for rep in case["replies"].values():
        for w in ("first", "second"):
            if rep.get(w) and rep[w]["kind"] == "timeout":
                rep[w] = {"kind": "unknown"}
            if rep.get(w) and rep[w]["kind"] in ("unsat", "unsat_rc") and isinstance(rep[w].get("core"), int):
                rep[w]["core"] = "all"   # prefixes of 20+ shared conditions would be unsound cores: not the subject here
    stucks = [j for j, k in enumerate(K) if CLASS[k] == "stuck"]
    if any(j > b for j in stucks):
        case["early"] = False
    if rng.random() < 0.7:
        case["sched"] = {"type": "seq"}
    else:
        p = list(pots)
        rng.shuffle(p)
        case["sched"] = {"type": "par", "perm": p}
        for j in stucks:
            if case["replies"][str(j)]["first"]["kind"] == "timeout":
                case["replies"][str(j)]["first"] = {"kind": "unknown"}
    return case


def unit_parse_unsat_core(ctx):
    """`parse_unsat_core` on the output formats of z3 / yices (wrapped) / cvc5: every printed name, in order"""
    h = H()
    hs, art, stub = h["hs"], h["art"], h["stub"]
    rng = ctx.rng
    for _ in range(ctx.scale(150, 1500)):
        n = rng.choice([0, 1, 2, 19, 20, 21, 24, 40, 41, rng.randint(1, 70)])
        ids = [str(rng.randint(1, 99999)) for _ in range(n)]
        style = rng.choice(["yices", "yices", "cvc5", "z3"])
        wrap = rng.choice([1, 3, 20, 20]) if style == "yices" else None
        text = "unsat\n" + ("(error \"the context is unsatisfiable\")\n" if rng.random() < 0.5 else "") + \
            stub.format_core([f"<{i}>" for i in ids], wrap, "yices" if style == "z3" else style)
        with art.capture_halmos():
            got = hs.parse_unsat_core(text)
        ctx.case(("core", text), nontrivial=n > 0)
        ctx.count(f"parse_unsat_core:{style}:{'multi-line' if (style == 'cvc5' or (wrap and n > wrap)) else 'one-line'}")
        if got != ids:
            ctx.violation(f"parse_unsat_core:{style}-format-{'multi-line' if (style == 'cvc5' or (wrap and n > wrap)) else 'one-line'}-core-misparsed",
                          f"parse_unsat_core returned {len(got) if got is not None else None} of the {n} names printed in {text[:120]!r}…",
                          {"kind": "core", "text": text, "ids": ids})


def real_yices_cases(ctx):
    """(b) the real yices through the real pipeline: 24 conditions x_i < x_(i+1 mod 24); with all of them the Panic path is
    infeasible and its unsat core has 24 names (yices prints it on two lines); the sibling Panic path negates link k and is
    feasible. A counterexample exists, so FAIL — with and without --cache-solver, whichever path is solved first."""
    h = H()
    art = h["art"]
    if not os.path.exists("/venv/bin/yices-smt2"):
        ctx.count("real-yices:unavailable")
        return
    ks = [23, 3, 0] if ctx.tier == "quick" else list(range(YN))
    for k in ks:
        for swap in (False, True):
            for cache in (True, False) if (k == 23 or ctx.tier != "quick") else (True,):
                code = real_yices_one(k, swap, cache)
                ctx.case(("yices", k, swap, cache), nontrivial=True)
                ctx.count(f"real-yices:{'cache' if cache else 'nocache'}:{EXIT_NAME.get(code, code)}")
                if code != 1:
                    ctx.violation(KEY_WRAPPED_CORE + f":real-yices:{EXIT_NAME.get(code, code)}-instead-of-FAIL",
                                  f"real yices, cache_solver={cache}: chain of {YN} conditions, Panic path with link {k} negated is feasible "
                                  f"(outcomes [vu,vc]: the property says FAIL) but halmos reports {EXIT_NAME.get(code, code)}",
                                  {"kind": "yices", "k": k, "swap": swap, "cache": cache})


YN = 24


def real_yices_one(k, swap, cache):
    art = H()["art"]
    sig = "check_y(" + ", ".join(f"uint256 x{i}" for i in range(YN)) + ")"

    def link(i):
        return asm.calldata_arg((i + 1) % YN) + asm.calldata_arg(i) + ["LT"]   # x_i < x_(i+1)

    b = []
    for i in range(YN):
        if i == k:
            cond = link(i) + (["ISZERO"] if swap else [])
            b += asm.if_then(cond, asm.panic(1), asm.panic(1))   # both branches violate; exactly one of them is feasible
        else:
            b += asm.vm_assume(link(i))
    c = art.TestContract("Y", [art.Fn(sig, b)])
    run = art.run_contract_offline(c, solver_command=art.YICES_COMMAND, cache_solver=cache, solver_threads=1)
    return run.results[0].exitcode if len(run.results) == 1 else None


KEY_PARALLEL = "cache-solver:unsat-core-ids-collide-across-shape-parallel-queries"
PAR_LENS = [96, 64, 32]          # path 1, 3, 5 (DFS order of the candidate split); paths 0, 2, 4 are their successful siblings
PAR_FN = "check_p"


def parallel_contract():
    """check_p(bytes b, uint256 x): assume(x > 10); len = b.length (halmos splits over the candidate lengths:
    conditions `p_b_length == c`, the same shape for every candidate); if (x < len + 100) Panic(1).
    Three violation paths with shape-parallel conditions [setup, x > 10, len == c, x < c + 100] and different constants."""
    art = H()["art"]
    x = asm.calldata_arg(1)
    ln = [("push", 0x44), "CALLDATALOAD"]
    b = (asm.vm_assume([("push", 10)] + x + ["GT"]) + ln + [("push", 100), "ADD"] + x + ["LT"]
         + [("ref", "viol"), "JUMPI", "STOP", ("label", "viol")] + asm.panic(1))
    return art.TestContract("P", [art.Fn(f"{PAR_FN}(bytes b, uint256 x)", b)])


def run_parallel(pc):
    """pc = {"replies": {"1": kind, "3": kind, "5": kind}, "cache": bool, "order": [path ids] | None (one thread, DFS order)}"""
    h = H()
    art, stub = h["art"], h["stub"]
    tmp = tempfile.mkdtemp(prefix="verif_c05p_")
    info = {}

    def inspect(wd, run):
        for f in glob.glob(os.path.join(wd, "smt", PAR_FN, "*.smt2")):
            j = int(os.path.basename(f).split(".")[0])
            q = open(f).read()
            out = open(f + ".out").read() if os.path.exists(f + ".out") else None
            info[j] = (re.findall(r":named (<\d+>)", q), re.findall(r"p_b_length\S* \(_ bv(\d+) 256\)", q), out)

    try:
        with stub.Script(tmp) as s:
            prev = None
            order = pc.get("order")
            for j in (order or [1, 3, 5]):
                f = stub_fields({"kind": pc["replies"][str(j)], "core": "all"}, pc["cache"])
                if order:
                    f["after"], f["delay_ms"], f["after_timeout_s"] = ([prev] if prev else []), (25 if prev else 200), 6
                    prev = f"{PAR_FN}/{j}"
                s.rule({"fn": PAR_FN, "path": j}, **f)
            s.default(reply="garbage", stdout="stub: unexpected query\n")
            s.write()
            run = art.run_contract_offline(parallel_contract(), solver_command=s.command, cache_solver=pc["cache"],
                                           solver_threads=8 if order else 1, default_bytes_lengths=",".join(str(x) for x in PAR_LENS[::-1]),
                                           inspect=inspect)
            done = [r["q"] for r in sorted((r for r in s.log() if r["ev"] == "done"), key=lambda r: r["t"])]
    finally:
        shutil.rmtree(tmp, ignore_errors=True)
    code = run.results[0].exitcode if len(run.results) == 1 else None
    return code, info, done, run


def parallel_paths_stage(ctx):
    """>= 2 shape-parallel violation paths in one test (same structure, different constants): one answered unsat with a core
    naming its own assertions (the stub echoes the `:named` ids of the query file it is given), another answered sat; both
    completion orders; cache on / off. A counterexample exists: FAIL in all."""
    rng = ctx.rng
    combos = []
    for a, b in [(1, 3), (3, 1), (1, 5), (5, 3), (3, 5), (5, 1)]:
        third = ({1, 3, 5} - {a, b}).pop()
        for cache in (True, False):
            for order in (None, "perm"):
                combos.append((a, b, third, cache, order))
    rng.shuffle(combos)
    combos.sort(key=lambda c: (not c[3], c[4] is not None))   # cache on + one thread first
    for a, b, third, cache, order in combos[: ctx.scale(6, len(combos))]:
        replies = {str(a): rng.choice(["unsat", "unsat_rc"]), str(b): rng.choice(["sat", "sat_rc"]),
                   str(third): rng.choice(["unsat", "unknown", "unsat"])}
        for first in ((a, b), (b, a)) if order else ((None, None),):
            pc = {"replies": replies, "cache": cache}
            if order:
                rest = [third]
                pc["order"] = list(first) + rest if rng.random() < 0.5 else rest + list(first)
            code, info, done, run = run_parallel(pc)
            # the harness' assumptions about the contract: three parallel violation paths 1, 3, 5 over the candidate lengths
            for j, want in zip((1, 3, 5), PAR_LENS):
                if j in info and info[j][1] != [str(want)]:
                    raise RuntimeError(f"harness: path {j} is not the len == {want} path: {info[j][1]}")
                if j in info and cache and info[j][2] is not None and replies[str(j)].startswith("unsat"):
                    if re.findall(r"<\d+>", info[j][2]) != info[j][0]:
                        raise RuntimeError("harness: the stub did not echo the ids of the query it was given")
            if pc.get("order") and [q for q in done if q in (f"{PAR_FN}/{a}", f"{PAR_FN}/{b}")] != \
                    [f"{PAR_FN}/{j}" for j in pc["order"] if j in (a, b) and f"{PAR_FN}/{j}" in done]:
                ctx.count("schedule-not-realized(skipped)")
                continue
            ctx.case(("parallel", json.dumps(pc, sort_keys=True)), nontrivial=True)
            ctx.count(f"parallel-paths:{'cache' if cache else 'nocache'}:{'permuted' if order else 'one-thread'}:{EXIT_NAME.get(code, code)}")
            if code != 1:
                key = KEY_PARALLEL if cache else "verdict:parallel-paths-without-cache"
                ctx.violation(f"{key}:{EXIT_NAME.get(code, code)}-instead-of-FAIL",
                              f"three shape-parallel Panic paths (b.length == 96/64/32), scripted answers {replies}, cache_solver={cache}, "
                              f"completion order {done}: path {b} has a counterexample (the property says FAIL) but halmos reports "
                              f"{EXIT_NAME.get(code, code)}; queries actually sent to the solver: {sorted(info)}",
                              {"kind": "parallel", "pc": pc})


KEY_STALE = "dump-smt-directory:solver-ran-on-a-stale-query-file-of-another-test"
MARK_UNSAT, MARK_SAT = 0xA11CE, 0xB0B5   # the stub answers from the CONTENT of the file it is given: which constant is compared


def marker_contract(name, mark, fn="check_foo"):
    art = H()["art"]
    x = asm.calldata_arg(0)
    return art.TestContract(name, [art.Fn(f"{fn}(uint256 x, uint256 y)", asm.if_then(asm.eq_const(x, mark), asm.panic(1)))])


def marker_script(s):
    s.rule({"regex": rf"\(_ bv{MARK_UNSAT} 256\)"}, reply="unsat")
    s.rule({"regex": rf"\(_ bv{MARK_SAT} 256\)"}, reply="sat", model={"p_x_uint256": MARK_SAT})
    s.default(reply="garbage", stdout="stub: unexpected query\n")
    s.write()


def stale_dump_stage(ctx):
    """--dump-smt-directory: <dir>/<function name>/<path id>.smt2 is shared by same-named tests of different contracts and by
    consecutive runs. Each test must be judged on ITS OWN queries: the stub answers unsat / sat according to the constant
    compared in the file it receives, so a solver run on a stale file yields the other test's answer."""
    h = H()
    art, stub = h["art"], h["stub"]
    want_code = {MARK_UNSAT: 0, MARK_SAT: 1}      # own outcomes [s, vu] -> PASS ; [s, vc] -> FAIL

    def report(where, test, mark, code, extra):
        spec = "pass" if mark == MARK_UNSAT else "fail"
        ctx.count(f"stale-dump:{where}:{EXIT_NAME.get(code, code)}")
        if code != want_code[mark]:
            ctx.violation(f"{KEY_STALE}:{EXIT_NAME.get(code, code)}-where-property-says-{spec.upper()}",
                          f"{where}: {test} compares x with {mark:#x}; the solver's answer for that query is "
                          f"{'unsat' if mark == MARK_UNSAT else 'sat'}, so its own outcomes give {spec.upper()}, but halmos reports "
                          f"{EXIT_NAME.get(code, code)} ({extra})", {"kind": "stale", "where": where, "marks": extra})

    # (a) one run of _main, two contracts that both define check_foo (same dump sub-directory, same path ids)
    for marks in ((MARK_UNSAT, MARK_SAT), (MARK_SAT, MARK_UNSAT)):
        tmp = tempfile.mkdtemp(prefix="verif_c05s_")
        try:
            with stub.Script(tmp) as s:
                marker_script(s)
                run = art.run_main_offline([marker_contract("A", marks[0]), marker_contract("B", marks[1])],
                                           solver_command=s.command, solver_threads=1)
        finally:
            shutil.rmtree(tmp, ignore_errors=True)
        got = {path.split(":")[-1]: rs[0].exitcode for path, rs in (run.test_results or {}).items() if rs}
        if set(got) != {"A", "B"}:
            raise RuntimeError(f"harness: expected results for contracts A and B, got {got}\n{run.stdout[-800:]}")
        ctx.case(("stale-main", marks), nontrivial=True)
        for cname, mark in zip("AB", marks):
            report("two contracts, same test name, one run", f"{cname}.check_foo", mark, got[cname], f"marks={[hex(m) for m in marks]}")
        want_exit = 1 if MARK_SAT in marks else 0
        if run.exitcode != want_exit:
            ctx.violation(f"{KEY_STALE}:exit-code-{run.exitcode}-where-property-says-{want_exit}",
                          f"_main exit code {run.exitcode} for tests {got}; a selected test has a counterexample",
                          {"kind": "stale", "where": "main", "marks": [hex(m) for m in marks]})

    # (b) a second run into the same directory after the code changed
    for marks in ((MARK_UNSAT, MARK_SAT), (MARK_SAT, MARK_UNSAT)):
        tmp = tempfile.mkdtemp(prefix="verif_c05s_")
        try:
            with stub.Script(tmp) as s:
                marker_script(s)
                codes = []
                for mark in marks:
                    run = art.run_contract_offline(marker_contract("A", mark), solver_command=s.command, solver_threads=1, workdir=tmp)
                    codes.append(run.results[0].exitcode if len(run.results) == 1 else None)
        finally:
            shutil.rmtree(tmp, ignore_errors=True)
        ctx.case(("stale-rerun", marks), nontrivial=True)
        for i, (mark, code) in enumerate(zip(marks, codes)):
            report(f"run #{i + 1} into the same --dump-smt-directory", "A.check_foo", mark, code, f"marks={[hex(m) for m in marks]}")


KEY_RAISE_TEST = "run_tests:raising-test"


def raising_tests_stage(ctx):
    """test functions that RAISE before / inside run_test (a parameter of an unsupported ABI type: `function`, `fixed128x18`)
    at every position among passing and failing neighbours, through the real `_main`: one TestResult per selected test, in
    order, the raising one is EXCEPTION (never a copy of its neighbour, never PASS), the others are what their own paths
    give, and the exit code is 1 (Lean: `raising_test_fails_run`, `exit_nonzero_iff`)."""
    h = H()
    art, stub = h["art"], h["stub"]
    rng = ctx.rng
    x = asm.calldata_arg(0)
    mk = {
        "P": lambda n: art.Fn(f"{n}(uint256 x)", asm.return_empty()),
        "F": lambda n: art.Fn(f"{n}(uint256 x)", asm.if_then(asm.eq_const(x, 7), asm.panic(1))),
        "R": lambda n: art.Fn(f"{n}(function f)", asm.return_empty()),
        "R2": lambda n: art.Fn(f"{n}(uint256 x, fixed128x18 v)", asm.return_empty()),
    }
    want = {"P": 0, "F": 1, "R": 5, "R2": 5}
    layouts = [["P", "R"], ["P", "R", "P"], ["R", "P"], ["P", "P", "R2"], ["F", "R", "P"], ["P", "R", "F"], ["R"], ["P", "R", "R2", "P"]]
    if ctx.tier != "quick":
        layouts += [list(t) for n in (2, 3) for t in itertools.product(["P", "F", "R"], repeat=n) if "R" in t]
    # two contracts: the raising test is the first of the second contract
    plans = [[lay] for lay in layouts] + [[["P"], ["R", "P"]], [["P", "F"], ["P", "R"]]]
    lines, items = [], []
    for plan in plans:
        descs, expect = [], []
        for ci, lay in enumerate(plan):
            names = [f"check_c{ci}_{chr(97 + i)}" for i in range(len(lay))]     # selection order = definition order
            descs.append(art.TestContract(f"R{ci}", [mk[k](n) for k, n in zip(lay, names)]))
            expect.append([(n, want[k]) for k, n in zip(lay, names)])
        tmp = tempfile.mkdtemp(prefix="verif_c05r_")
        try:
            with stub.Script(tmp) as s:
                s.default(reply="sat", model={"p_x_uint256": 7})
                s.write()
                try:
                    run = art.run_main_offline(descs, solver_command=s.command, solver_threads=1)
                except Exception as e:   # noqa: BLE001 — an exception escaping _main is itself the observation
                    ctx.violation(f"{KEY_RAISE_TEST}:exception-escapes-_main:{type(e).__name__}",
                                  f"_main raised {type(e).__name__}: {e} for contracts with test layouts {plan} (R = raising test)",
                                  {"kind": "raising", "plan": plan})
                    continue
        finally:
            shutil.rmtree(tmp, ignore_errors=True)
        ctx.case(("raising", json.dumps(plan)), nontrivial=True)
        ctx.count("raising-tests:" + "|".join("".join(k[0] for k in lay) for lay in plan))
        got = {path.split(":")[-1]: [(r.name.split("(")[0], r.exitcode) for r in rs] for path, rs in (run.test_results or {}).items()}
        for ci, exp in enumerate(expect):
            g = got.get(f"R{ci}")
            lay = plan[ci]
            if g is None or len(g) != len(exp) or [n for n, _ in g] != [n for n, _ in exp]:
                ctx.violation(f"{KEY_RAISE_TEST}:one-result-per-selected-test-in-order",
                              f"contract R{ci} with tests {lay}: results {g}, expected one per test in order {[n for n, _ in exp]}",
                              {"kind": "raising", "plan": plan})
                continue
            for (n, code), (_, wcode), k in zip(g, exp, lay):
                if code != wcode:
                    what = "raising-test-recorded-as" if k.startswith("R") else "neighbour-of-raising-test-recorded-as"
                    ctx.violation(f"{KEY_RAISE_TEST}:{what}-{EXIT_NAME.get(code, code)}",
                                  f"contract R{ci} tests {lay} (P pass, F fail, R raises NotImplementedError in mk_calldata): {n} is "
                                  f"recorded with exit code {code} ({EXIT_NAME.get(code, code)}), expected {EXIT_NAME[wcode]}; all results {g}",
                                  {"kind": "raising", "plan": plan})
        arg = ";".join(f"{len(exp)}:{','.join(str(c) for _, c in got.get(f'R{ci}', [])) or '-'}" for ci, exp in enumerate(expect))
        statuses = "".join({0: "p", 1: "f", 5: "e"}[w] for exp in expect for _, w in exp)
        lines += ["exit " + arg, "specexit " + statuses]
        items.append((plan, run.exitcode, got))
    rep = _Lean.ask(ctx, lines)
    for i, (plan, exitcode, got) in enumerate(items):
        model_exit, spec_exit = rep[2 * i], rep[2 * i + 1]
        if str(exitcode) != spec_exit:
            ctx.violation(f"{KEY_RAISE_TEST}:exit-code-{exitcode}-where-property-says-{spec_exit}",
                          f"_main exits {exitcode} for test layouts {plan} with results {got}: a test that raised did not pass",
                          {"kind": "raising", "plan": plan})
        elif model_exit != f"ok {exitcode}":
            raise RuntimeError(f"exit code model mismatch on raising tests: impl {exitcode}, model {model_exit}, results {got}")


KEY_SETUP = "setup-filter"
SETUP_REPLIES = ["sat", "unsat", "unknown", "timeout", "garbage", "empty", "exit", "binary", "sat_rc", "unsat_rc"]


def setup_contract(npaths):
    """setUp() forks on fresh symbolic GAS values into `npaths` (2 or 3) non-reverting paths; one passing test, one failing"""
    art = H()["art"]
    x = asm.calldata_arg(0)
    fork = ["GAS", ("push", 1), "AND"]
    su = []
    for _ in range(npaths - 1):
        su += asm.if_then(fork, ["STOP"])
    return art.TestContract("S", [art.Fn("check_pass(uint256 x)", asm.return_empty()),
                                  art.Fn("check_fail(uint256 x)", asm.if_then(asm.eq_const(x, 7), asm.panic(1))),
                                  art.Fn("setUp()", su)])


def setup_filter_stage(ctx):
    """the solver filter over the non-reverting setUp() paths: scripted replies per setUp path; a path is discarded only on
    `unsat`; more than one path left (or none, or a raising solver call) => setUp fails, no test of the contract has a result,
    exit code 1. Fail-safe: an unknown / timed-out / crashed / garbage / empty reply never helps a test to PASS."""
    h = H()
    art, stub = h["art"], h["stub"]
    rng = ctx.rng
    directed = [["sat", "unknown"], ["garbage", "sat"], ["sat", "empty"], ["sat", "timeout"],
                ["sat", "unsat"], ["unsat", "unsat"], ["sat", "unsat", "unknown"], ["unsat", "sat", "unsat_rc"]]
    more = [["exit", "sat"], ["binary", "sat"], ["unsat", "unknown"], ["unknown", "sat"], ["sat", "garbage"], ["empty", "sat"], ["sat", "exit"], ["unsat", "sat_rc"], ["sat", "sat"],
            ["unknown", "unsat", "sat"], ["sat", "sat", "binary"]]
    combos = list(directed) + ([] if ctx.tier == "quick" else more)
    if ctx.tier != "quick":
        combos += [list(t) for t in itertools.product(SETUP_REPLIES, repeat=2)]
        combos += [[rng.choice(SETUP_REPLIES) for _ in range(3)] for _ in range(60)]
    else:
        combos += [rng.choice(more)]   # one more, drawn from the rest
    lines, items = [], []
    for reps in combos:
        if reps.count("timeout") > 1:
            reps = [r if (r != "timeout" or i == reps.index("timeout")) else "unknown" for i, r in enumerate(reps)]
        tmp = tempfile.mkdtemp(prefix="verif_c05su_")
        texts = {}

        def inspect(wd, run, texts=texts):
            for f in glob.glob(os.path.join(wd, "smt", "setUp", "*.smt2.out")):
                texts[int(os.path.basename(f).split(".")[0])] = open(f).read()

        try:
            with stub.Script(tmp) as s:
                for j, kind in enumerate(reps):
                    rep = {"kind": kind, "text": "Segmentation fault\n"}
                    s.rule({"fn": "setUp", "path": j}, **stub_fields(rep, False))
                s.default(reply="sat", model={"p_x_uint256": 7})
                s.write()
                run = art.run_main_offline([setup_contract(len(reps))], solver_command=s.command, solver_threads=1,
                                           solver_timeout_assertion="900ms" if "timeout" in reps else "8s", inspect=inspect)
                started = sorted(int(r["q"].split("/")[1]) for r in s.log() if r["ev"] == "start" and r["q"].startswith("setUp/"))
        finally:
            shutil.rmtree(tmp, ignore_errors=True)
        got = {r.name.split("(")[0]: r.exitcode for rs in (run.test_results or {}).values() for r in rs}
        procs = ";".join(proc_of({"kind": k, "text": "Segmentation fault\n"}, [], False,
                                 texts.get(j, canned_text({"kind": k, "text": "Segmentation fault\n"}))) for j, k in enumerate(reps))
        lines.append(f"setup 0 {procs}")
        items.append((reps, got, run.exitcode, started, run.stdout))
        ctx.case(("setup", tuple(reps)), nontrivial=True)
        ctx.count(f"setup-filter:paths={len(reps)}")
    rep = _Lean.ask(ctx, lines)
    mism = []
    for (reps, got, exitcode, started, stdout), model in zip(items, rep):
        # the property's view, independent of the model: every setUp path whose query was not answered unsat is a possible
        # initial state; unless exactly one is left (and no solver call failed on the way) no test may be reported
        not_unsat = [k for k in reps if ANSWER[k] != "u"]
        unknown_or_failed = [k for k in reps if ANSWER[k] in ("t", "f")]
        ran = bool(got)
        ctx.count(f"setup-filter:{'tests-ran' if ran else 'setUp-rejected'}")
        if ran and (len(not_unsat) != 1):
            ctx.violation(f"{KEY_SETUP}:tests-run-although-{len(not_unsat)}-setUp-paths-were-not-refuted"
                          + (":unknown-or-failed-reply-dropped" if unknown_or_failed else ""),
                          f"setUp() has {len(reps)} non-reverting paths with solver replies {reps}; {len(not_unsat)} of them were not answered "
                          f"unsat, so setUp must fail, but the tests ran: {got}, exit code {exitcode}", {"kind": "setup", "reps": reps})
        elif ran and (got.get("check_pass") != 0 or got.get("check_fail") != 1 or exitcode != 1):
            ctx.violation(f"{KEY_SETUP}:wrong-results-after-accepted-setUp", f"replies {reps}: results {got}, exit {exitcode}", {"kind": "setup", "reps": reps})
        elif not ran and exitcode != 1:
            ctx.violation(f"{KEY_SETUP}:exit-code-{exitcode}-after-rejected-setUp", f"replies {reps}: no test ran, exit code {exitcode}",
                          {"kind": "setup", "reps": reps})
        elif (model == "ok") != ran:
            mism.append(f"setUp filter model mismatch: replies {reps}: model {model}, tests ran: {ran} ({got}); queries started {started}\n{stdout[-600:]}")
    if mism:
        raise RuntimeError(f"{len(mism)} mismatch(es); first: {mism[0]}")


def correspond(ctx):
    rng = ctx.rng
    lits = harvest_literals()
    ctx.note(f"harvested literals (±1): {lits}")
    failures = []   # model/implementation mismatches: every stage still runs (a concrete violation may be in a later one)

    timing = {}

    def stage(name, fn):
        t = time.time()
        try:
            fn()
        except RuntimeError as e:
            failures.append(f"[{name}] {e}")
        finally:
            timing[name] = round(time.time() - t, 1)
            ctx.extra["stage_seconds"] = timing

    # the harness' witnesses are the scenarios of the Lean `_cex` theorems
    same = _Lean.ask(ctx, witness_same_lines())
    if any(s != "ok true" for s in same):
        raise RuntimeError(f"witness scenarios differ from Model.VerdictWitness: {same}")

    stage("from_result", lambda: unit_from_result(ctx, lits))
    stage("get_solver_output", lambda: unit_get_solver_output(ctx))
    stage("parse_unsat_core", lambda: unit_parse_unsat_core(ctx))
    stage("real-yices", lambda: real_yices_cases(ctx))
    stage("parallel-paths", lambda: parallel_paths_stage(ctx))
    stage("stale-dump", lambda: stale_dump_stage(ctx))
    stage("raising-tests", lambda: raising_tests_stage(ctx))
    stage("setup-filter", lambda: setup_filter_stage(ctx))

    t_e2e = time.time()
    pend = Pending()
    # 0. corpus + witnesses of the `_cex` theorems
    for case in corpus_cases():
        run_and_queue(ctx, pend, case, "corpus", retries=2)
        ctx.count("corpus")
    for name, case in WITNESS.items():
        # the outcome of killing the running stuck confirmation is itself a race (OSError vs clean empty output):
        # give the `race` witness a few runs so that the known finding is observed in (almost) every check run
        for attempt in range(3 if name == "race" else 1):
            before = len(pend.items)
            run_and_queue(ctx, pend, case, f"witness:{name}", retries=3)
            ctx.count("witness")
            if name != "race" or (len(pend.items) > before and pend.items[-1][1]["code"] == 5):
                break
    # 0b. empty / absent unsat core followed (and preceded) by a valid counterexample, cache on, one solver thread
    for _ in range(ctx.scale(6, 80)):
        run_and_queue(ctx, pend, gen_empty_core_case(rng, lits), "empty-core")
        ctx.count("empty-core-then-sat")

    # 0c. multi-line (wrapped) unsat cores on paths with 21-40 conditions, then / before a sat sibling
    for _ in range(ctx.scale(6, 80)):
        run_and_queue(ctx, pend, gen_wrapped_core_case(rng, lits), "wrapped-core")
        ctx.count("wrapped-core-then-sat")

    # 1. systematic: every assignment of kinds to <= 2 paths (quick) / <= 3 (thorough), one random reply/schedule each
    t_budget = ctx.scale(40, 900)
    t0 = time.time()
    small = list(all_K(ctx.scale(2, 3)))
    rng.shuffle(small)
    done = 0
    for K in small:
        if time.time() - t0 > t_budget * 0.45:
            break
        run_and_queue(ctx, pend, gen_case(rng, K, lits), "systematic")
        done += 1
    ctx.extra["exhaustive_kind_assignments"] = done == len(small)
    ctx.note(f"systematic kind assignments run: {done}/{len(small)}")

    # 2. random cases, up to 3 (quick) / 4 (thorough) paths
    maxlen = ctx.scale(3, 4)
    n = 0
    while time.time() - t0 < t_budget and n < ctx.scale(180, 3000):
        m = rng.choice([maxlen, maxlen, maxlen - 1, 2])
        K = [rng.choice(KINDS) for _ in range(max(1, m))]
        run_and_queue(ctx, pend, gen_case(rng, K, lits), "random")
        n += 1

    # 3. a valid counterexample arriving during a later stuck confirmation under --early-exit
    for _ in range(ctx.scale(6, 60)):
        m = rng.choice([2, 3, maxlen])
        while True:
            K = [rng.choice(KINDS) for _ in range(m)]
            if any(CLASS[k] == "potential" and any(CLASS[k2] == "stuck" for k2 in K[j + 1:]) for j, k in enumerate(K)):
                break
        run_and_queue(ctx, pend, gen_case(rng, K, lits, force_race=True), "race", retries=2)
    timing["end-to-end runs"] = round(time.time() - t_e2e, 1)
    stage("end-to-end judge (Lean)", lambda: judge(ctx, pend))

    # 4. whole process
    stage("main", lambda: main_level(ctx, lits))
    _Lean.close()
    if failures:
        raise RuntimeError(f"{len(failures)} stage(s) with model/implementation mismatches: " + " || ".join(f[:1500] for f in failures))


def replay(ctx, data) -> bool:
    r = data.get("replay", data)
    if r.get("kind") == "e2e":
        case = r["case"]
        spec = _Lean.ask(ctx, ["spec " + spec_outcomes(case)])[0]
        for _ in range(6):   # the outcome of killing a running solver is itself a race: try a few times
            obs = run_real(case)
            if not realized(case, obs):
                print("(schedule not realized, retrying)")
                continue
            print(f"halmos: {EXIT_NAME.get(obs['code'], obs['code'])}; property verdict on [{spec_outcomes(case)}]: {spec}")
            print(obs["stdout"][-600:])
            if SPEC_CLASS.get(obs["code"]) != spec:
                return True
        return False
    if r.get("kind") == "fr":
        h = H()
        hs, art = h["hs"], h["art"]
        from pathlib import Path

        from z3 import sat, unknown, unsat
        tmp = tempfile.mkdtemp(prefix="verif_c05u_")
        try:
            args, _ = art.make_config(tmp, (), solver_command="z3", cache_solver=r["cache"], no_status=True)
            pc = hs.PathContext(args=args, path_id=3, solving_ctx=hs.SolvingContext(dump_dir=Path(tmp)), query=h["SMTQuery"]("", []))
            so = hs.SolverOutput.from_result(r["text"], "", r["rc"], pc)
        finally:
            shutil.rmtree(tmp, ignore_errors=True)
        kind = kind_of(so.result)
        fl = r["text"].split("\n", 1)[0]
        want = fl if fl in ("sat", "unsat", "unknown") else "err"
        print(f"from_result({r['text']!r}, rc={r['rc']}) -> {kind}; expected {want}")
        return kind != want or (kind == "sat" and so.model.is_valid != ("f_evm_" not in r["text"]))
    if r.get("kind") == "setup":
        sub = SimpleNamespace(violations=[], count=lambda *a, **k: None, case=lambda *a, **k: None, tier="quick", rng=ctx.rng,
                              lean=ctx.lean)
        sub.violation = lambda key, what, rep: sub.violations.append((key, what))
        setup_filter_stage(sub)
        for key, what in sub.violations:
            print(key, "—", what)
        return bool(sub.violations)
    if r.get("kind") == "raising":
        sub = SimpleNamespace(violations=[], count=lambda *a, **k: None, case=lambda *a, **k: None, tier="quick", rng=ctx.rng)
        sub.violation = lambda key, what, rep: sub.violations.append((key, what))
        raising_tests_stage(sub)
        for key, what in sub.violations:
            print(key, "—", what)
        return bool(sub.violations)
    if r.get("kind") == "stale":
        sub = SimpleNamespace(violations=[], count=lambda *a, **k: None, case=lambda *a, **k: None)
        sub.violation = lambda key, what, rep: sub.violations.append((key, what))
        stale_dump_stage(sub)
        for key, what in sub.violations:
            print(key, "—", what)
        return bool(sub.violations)
    if r.get("kind") == "parallel":
        code, info, done, run = run_parallel(r["pc"])
        print(f"halmos reports {EXIT_NAME.get(code, code)}; completion order {done}; queries sent to the solver: {sorted(info)}; the property says FAIL")
        print(run.stdout[-500:])
        return code != 1
    if r.get("kind") == "core":
        h = H()
        got = h["hs"].parse_unsat_core(r["text"])
        print(f"parse_unsat_core -> {got}; printed names: {r['ids']}")
        return got != r["ids"]
    if r.get("kind") == "yices":
        code = real_yices_one(r["k"], r["swap"], r["cache"])
        print(f"real yices, link {r['k']} negated, cache_solver={r['cache']}: halmos reports {EXIT_NAME.get(code, code)}; the property says FAIL")
        return code != 1
    if r.get("kind") == "main":
        mc = r["mc"]
        run, _, _ = run_main_case(mc)
        by = {x.name.split("(")[0]: x.exitcode for rs in (run.test_results or {}).values() for x in rs}
        statuses = ""
        for ci, c in enumerate(mc["contracts"]):
            for ti, t in enumerate(c["tests"]):
                if mc["select"] == "all" or (mc["select"] == "one" and ci == 0 and ti == 0):
                    statuses += {"pass": "p", "fail": "f", "error": "e", "timeout": "t"}[SPEC_CLASS[by[t["fn"]]]] if t["fn"] in by else "n"
        spec_exit = _Lean.ask(ctx, ["specexit " + (statuses or "-")])[0]
        print(f"_main exit code {run.exitcode}; selected tests {statuses or '(none)'}; the property says {spec_exit}")
        print(run.stdout[-800:])
        return str(run.exitcode) != spec_exit
    return False
