"""C06 — word-level instruction semantics are exact and total.

Implementation route: one-instruction runs of the real `SEVM.run` (`<opcode> STOP` with a prepared stack), so the
dispatch in sevm.py (popi/pop, operand order, arith(), bitwise(), sym_byte_of) and bitvec.py are both exercised.
Compared against (a) the Lean Spec (`Spec.Word`) on the denoted operand values and (b) the Lean Model
(`Model.BitVecOps.execWord`) through Driver/Word.lean.
"""
from __future__ import annotations

import ast
import itertools
import json
import signal
import subprocess
import sys
import time

from vlib.runner import PY, REPO, VERIF

ID = "C06"
EXTRACTORS = []
LEAN_MODULES = ["HalmosVerif.Props.C06", "HalmosVerif.Props.C06Algebra"]
RULE = ("one-instruction SEVM.run per case; a case = (opcode, per-operand representation in {int-backed, term variable, "
        "Concat(0,x8) term, If(b,1,0) term, literal Bool, symbolic Bool variable, ULT(x,y) Bool, Not(b) Bool}, operand values "
        "from boundary pool + integer literals harvested from bitvec.py/sevm.py (±1) + random); results evaluated under the "
        "valuation by an independent z3-AST interpreter with the exact (by-zero = 0) meaning of f_evm_*; distinct = distinct "
        "(opcode, representations, values); non-trivial = every case (each evaluates a real instruction)")
TRUSTED = [
    "z3 `simplify` preserves meaning (hypothesis `SimpSound` of the theorems; the harness evaluates the terms halmos actually returns)",
    "Model.BitVecOps is hand-written from bitvec.py / sevm.py (tie: this differential run, all 25 instructions x 8 operand representations)",
]
ASSUMPTIONS = [
    "the arithmetic abstractions f_evm_* are read under their exact definitions (solve.py refine), by-zero = 0",
    "a symbolic SIGNEXTEND size raises NotConcreteError by design (path reported stuck -> ERROR); outside the property",
]

OPS = {
    "ADD": (0x01, 2), "MUL": (0x02, 2), "SUB": (0x03, 2), "DIV": (0x04, 2), "SDIV": (0x05, 2), "MOD": (0x06, 2),
    "SMOD": (0x07, 2), "ADDMOD": (0x08, 3), "MULMOD": (0x09, 3), "EXP": (0x0A, 2), "SIGNEXTEND": (0x0B, 2),
    "LT": (0x10, 2), "GT": (0x11, 2), "SLT": (0x12, 2), "SGT": (0x13, 2), "EQ": (0x14, 2), "ISZERO": (0x15, 1),
    "AND": (0x16, 2), "OR": (0x17, 2), "XOR": (0x18, 2), "NOT": (0x19, 1), "BYTE": (0x1A, 2), "SHL": (0x1B, 2),
    "SHR": (0x1C, 2), "SAR": (0x1D, 2),
}
W = 1 << 256
REPS = ["i", "t", "tz", "ti", "bT", "bF", "b", "bl", "bn"]


def harvest_literals():
    vals = set()
    for f in ("bitvec.py", "sevm.py"):
        try:
            tree = ast.parse((REPO / "src/halmos" / f).read_text())
        except SyntaxError:
            continue
        for n in ast.walk(tree):
            if isinstance(n, ast.Constant) and isinstance(n.value, int) and not isinstance(n.value, bool):
                v = n.value
                for d in (-1, 0, 1):
                    vals.add((v + d) % W)
    return sorted(vals)


def boundary_pool():
    p = {0, 1, 2, 3, 7, 8, 15, 16, 30, 31, 32, 33, 255, 256, 257, W - 1, W - 2, 1 << 255, (1 << 255) - 1, (1 << 255) + 1,
         1 << 128, (1 << 128) - 1, 1 << 160, (1 << 64) - 1, 1 << 64, 0x80, 0x7F, 0xFF00, 0x8000}
    for k in (1, 4, 8, 16, 63, 64, 127, 128, 200, 248, 254, 255):
        p |= {1 << k, (1 << k) - 1, (1 << k) + 1, W - (1 << k)}
    return sorted(v % W for v in p)


def vclass(v):
    if v == 0:
        return "0"
    if v == 1:
        return "1"
    if v == W - 1:
        return "max"
    if v == 1 << 255:
        return "minsigned"
    if v & (v - 1) == 0:
        return "pow2"
    if v < 256:
        return "small"
    if v >= 1 << 255:
        return "neg"
    return "big"


class Operand:
    """one stack operand: representation + the concrete value it denotes under the primary valuation"""

    def __init__(self, rep, val, idx, rng):
        self.rep, self.idx = rep, idx
        self.env = {}
        n = f"v{idx}"
        if rep == "i":
            self.val = val
            self.tok = f"i:{val:x}"
        elif rep == "t":
            self.val = val
            self.env[n] = val
            self.tok = f"t:{n}"
        elif rep == "tz":
            self.val = val % 256
            self.env[n] = self.val
            self.tok = f"tz:{n}"
        elif rep in ("ti", "b"):
            self.val = val & 1
            self.env[n] = self.val
            self.tok = f"{rep}:{n}"
        elif rep == "bn":
            self.val = 1 - (val & 1)
            self.env[n] = val & 1
            self.tok = f"bn:{n}"
        elif rep == "bl":
            other = rng.choice([val, (val + 1) % W, (val - 1) % W, rng.randrange(W)])
            self.env[n + "a"] = val
            self.env[n + "b"] = other
            self.val = 1 if val < other else 0
            self.tok = f"bl:{n}a:{n}b"
        elif rep == "bT":
            self.val, self.tok = 1, "b:T"
        elif rep == "bF":
            self.val, self.tok = 0, "b:F"
        else:
            raise ValueError(rep)

    def build(self):
        from z3 import ULT, BitVec, BitVecVal, Bool, Concat, If, Not

        from halmos.bitvec import FALSE, TRUE
        from halmos.bitvec import HalmosBitVec as BV
        from halmos.bitvec import HalmosBool

        n = f"v{self.idx}"
        r = self.rep
        if r == "i":
            return BV(self.val, size=256)
        if r == "t":
            return BV(BitVec(n, 256), size=256)
        if r == "tz":
            return BV(Concat(BitVecVal(0, 248), BitVec(n, 8)), size=256)
        if r == "ti":
            return BV(If(Bool(n), BitVecVal(1, 256), BitVecVal(0, 256)), size=256)
        if r == "b":
            return HalmosBool(Bool(n))
        if r == "bn":
            return HalmosBool(Not(Bool(n)))
        if r == "bl":
            return HalmosBool(ULT(BitVec(n + "a", 256), BitVec(n + "b", 256)))
        if r == "bT":
            return TRUE
        return FALSE

    def key(self):
        return f"{self.rep}:{vclass(self.val) if self.rep == 'i' else '*'}"


class Alarm(Exception):
    pass


def _alarm(signum, frame):
    raise Alarm()


def run_impl(sevm, args, opcode, operands, envs):
    """returns ('ok', cls, [values], [aux_ok]) or ('err', name)"""
    from vlib import sevmdrv
    from vlib.zeval import Evaluator

    from halmos.bitvec import HalmosBitVec as BV
    from halmos.bitvec import HalmosBool

    stack = [o.build() for o in operands]
    signal.signal(signal.SIGALRM, _alarm)
    signal.setitimer(signal.ITIMER_REAL, 3.0)
    try:
        exs = sevmdrv.run_one_insn(sevm, args, opcode, stack)
    except Alarm:
        return ("err", "Timeout>3s")
    except BaseException as e:  # noqa: BLE001 - anything escaping run() is an internal exception
        return ("err", type(e).__name__)
    finally:
        signal.setitimer(signal.ITIMER_REAL, 0)
    if len(exs) != 1:
        return ("err", f"paths={len(exs)}")
    ex = exs[0]
    err = ex.context.output.error
    if err is not None:
        return ("err", type(err).__name__)
    if len(ex.st.stack) != 1:
        return ("err", f"stack={len(ex.st.stack)}")
    r = ex.st.stack[-1]
    if isinstance(r, HalmosBool):
        cls = "bcon" if r.is_concrete else "bsym"
        term = r.value
    elif isinstance(r, BV):
        if r.size != 256:
            return ("err", f"size={r.size}")
        cls = "con" if r.is_concrete else "sym"
        term = r.value
    else:
        return ("err", f"type={type(r).__name__}")
    conds = list(ex.path.conditions)
    vals, auxs = [], []
    for env in envs:
        ev = Evaluator(env)
        v = ev(term) if not isinstance(term, bool | int) else term
        vals.append(int(v))
        auxs.append(all(bool(ev(c)) for c in conds))
    return ("ok", cls, vals, auxs)


def prompt_probe(ctx):
    """stress cases that may not return (concrete EXP with a huge exponent): each in a subprocess with a limit"""
    code = (
        "import sys; sys.path.insert(0, %r); sys.path.insert(0, %r)\n"
        "import resource; resource.setrlimit(resource.RLIMIT_AS, (4<<30, 4<<30))\n"
        "from halmos.bitvec import HalmosBitVec as BV\n"
        "b, e = int(sys.argv[1], 16), int(sys.argv[2], 16)\n"
        "r = BV(b).exp(BV(e))\n"
        "print(hex(r.value))\n"
    ) % (str(REPO / "src"), str(VERIF / "tools"))
    bad = []
    for b, e in [(2, 1 << 40), (3, 1 << 64), (W - 1, W - 1), (2, (1 << 255) + 1), (7, 1 << 24)]:
        ctx.case(("probe-exp", b, e))
        ctx.count("probe:exp-concrete-huge")
        t = time.time()
        try:
            p = subprocess.run([PY, "-c", code, hex(b), hex(e)], capture_output=True, text=True, timeout=10)
            out = [l for l in p.stdout.splitlines() if l.startswith("0x")]
            ok = p.returncode == 0 and out and int(out[-1], 16) == pow(b, e, W)
            why = "ok" if ok else f"rc={p.returncode} {p.stderr.strip().splitlines()[-1] if p.stderr.strip() else ''}"
        except subprocess.TimeoutExpired:
            ok, why = False, "no result within 10 s"
        if not ok:
            bad.append((b, e, why))
    if bad:
        b, e, why = bad[0]
        ctx.violation(
            "EXP|i,i|not-prompt:huge-exponent",
            f"concrete EXP with a huge exponent is not produced promptly / correctly: {hex(b)}**{hex(e)}: {why}",
            {"kind": "probe-exp", "base": hex(b), "exponent": hex(e), "observed": why, "expected": hex(pow(b, e, W)),
             "all": [(hex(x), hex(y), z) for x, y, z in bad]},
        )
    return not bad


def singleton_probe(ctx, when):
    """TRUE/FALSE are process-wide singletons; constructing a HalmosBool from a term must never change them"""
    from z3 import ULT, BitVec, BitVecVal, Not

    from halmos.bitvec import FALSE, TRUE, HalmosBool

    def intact():
        try:
            return (TRUE.con_val is True and TRUE.sym_val is None and FALSE.con_val is False and FALSE.sym_val is None
                    and bool(TRUE) is True and bool(FALSE) is False and TRUE.is_concrete and FALSE.is_concrete)
        except Exception:  # noqa: BLE001
            return False

    def restore():
        TRUE.con_val, TRUE.sym_val, FALSE.con_val, FALSE.sym_val = True, None, False, None

    ok_before = intact()
    x = BitVec("probe_x", 256)
    if when == "start":
        HalmosBool(ULT(x, BitVecVal(0, 256)))        # simplifies to false
        HalmosBool(Not(ULT(x, BitVecVal(0, 256))))   # simplifies to true
    ctx.case(("singleton-probe", when))
    ctx.count("probe:singletons")
    if not (ok_before and intact()):
        obs = {"TRUE": [repr(TRUE.con_val), repr(TRUE.sym_val)], "FALSE": [repr(FALSE.con_val), repr(FALSE.sym_val)]}
        restore()
        ctx.violation(
            "HalmosBool|constructor-mutates-TRUE/FALSE-singletons",
            "HalmosBool(<BoolRef that simplifies to a literal>) re-initialises the shared TRUE/FALSE singleton: afterwards "
            "FALSE.is_concrete is False and bool(FALSE) raises NotConcreteError for the rest of the process",
            {"kind": "singleton-probe", "construct": "HalmosBool(ULT(x, 0)); HalmosBool(Not(ULT(x, 0)))", "observed": obs,
             "expected": {"TRUE": ["True", "None"], "FALSE": ["False", "None"]}},
        )
        return False
    return True


def immutability_probe(ctx):
    """HalmosBitVec is documented as an immutable wrapper and its objects are shared (module-level constants, stack
    items copied by reference): wrapping an existing object again must never change that object"""
    from z3 import BitVec

    from halmos.bitvec import HalmosBitVec as BV

    bad = []
    for label, mk in (("concrete-160", lambda: BV(5, size=160)), ("concrete-8", lambda: BV(0x7F, size=8)),
                      ("symbolic-160", lambda: BV(BitVec("probe_a", 160), size=160)), ("concrete-256", lambda: BV(5, size=256))):
        x = mk()
        before = (x.size, x.is_concrete, str(x.unwrap()))
        for again in (lambda: BV(x), lambda: BV(x, size=x.size), lambda: BV(x, size=256)):
            try:
                again()
            except Exception as e:  # noqa: BLE001
                bad.append((label, f"raised {type(e).__name__}"))
        after = (x.size, x.is_concrete, str(x.unwrap()))
        ctx.case(("immutability-probe", label))
        ctx.count("probe:bitvec-immutability")
        if after != before:
            bad.append((label, f"{before} -> {after}"))
    if bad:
        ctx.violation("HalmosBitVec|constructor-mutates-its-argument",
                      f"HalmosBitVec(<existing HalmosBitVec>) re-initialises the existing (shared) object: {bad[:3]}",
                      {"kind": "immutability-probe", "observed": bad})
        return False
    return True


def gen_cases(ctx, pool, exp_safe):
    rng = ctx.rng
    per_op = ctx.scale(420, 6000)
    for name, (opcode, arity) in OPS.items():
        seen = set()
        # (1) every representation combination at least once, with boundary values
        combos = list(itertools.product(REPS, repeat=arity))
        rng.shuffle(combos)
        n = 0
        plan = []
        for reps in combos[: per_op // 2 if arity < 3 else per_op // 3]:
            plan.append(reps)
        # (2) value-directed: all-concrete and concrete/symbolic mixes over the boundary pool
        while len(plan) < per_op:
            k = rng.random()
            if k < 0.45:
                reps = tuple("i" for _ in range(arity))
            elif k < 0.85:
                reps = tuple(rng.choice(["i", "t"]) for _ in range(arity))
            else:
                reps = tuple(rng.choice(REPS) for _ in range(arity))
            plan.append(reps)
        # (3) directed: one symbolic operand against each special constant (powers of two, 0, 1, all-ones, sign bit) in
        #     every position -- where implementations keep fast paths; the adversarial valuations added in `correspond`
        #     then evaluate the returned term at negative / non-multiple / boundary values of the symbolic operand
        special = [0, 1, 2, 3, 4, 8, 32, 255, 256, 1 << 31, 1 << 128, 1 << 254, 1 << 255, (1 << 255) - 1, (1 << 255) + 1, W - 1, W - 2, W - 256]
        directed = []
        if arity >= 2:
            for pos in range(arity):
                for c in special:
                    directed.append((pos, c))
            if ctx.tier == "quick":
                rng.shuffle(directed)
                directed = directed[: 24 if arity == 2 else 18]
        for pos, c in directed:
            reps = tuple("i" if j == pos else "t" for j in range(arity))
            vals = [c if j == pos else rng.choice([W - 1, W - 7, 7, (1 << 255) + 5, rng.randrange(W)]) for j in range(arity)]
            if name == "EXP" and pos == 0 and c > 4:
                continue
            ops = [Operand(r, v % W, j, rng) for j, (r, v) in enumerate(zip(reps, vals))]
            sig = (name, tuple((o.rep, o.val) for o in ops))
            if sig not in seen:
                seen.add(sig)
                yield name, opcode, ops
        for reps in plan:
            vals = []
            for j in range(arity):
                k = rng.random()
                if k < 0.6:
                    v = rng.choice(pool)
                elif k < 0.7:
                    v = rng.randrange(W)
                elif k < 0.8:
                    v = rng.randrange(1 << rng.choice([8, 16, 64, 128, 255]))
                elif k < 0.9 and vals:
                    v = (vals[-1] + rng.choice([-1, 0, 1])) % W  # related operands (x==y, x±1)
                else:
                    v = (1 << rng.randrange(256)) + rng.choice([-1, 0, 0, 1])
                vals.append(v % W)
            if name in ("SHL", "SHR", "SAR", "BYTE", "SIGNEXTEND") and rng.random() < 0.6:
                vals[0] = rng.choice([0, 1, 7, 8, 30, 31, 32, 33, 255, 256, 257, rng.randrange(300)])
            if name == "EXP" and rng.random() < 0.7:
                vals[1] = rng.choice([0, 1, 2, 3, 4, 5, 255, 256, 257, rng.randrange(1000)])
            ops = [Operand(r, v, j, rng) for j, (r, v) in enumerate(zip(reps, vals))]
            if name == "EXP" and not exp_safe and ops[0].rep == "i" and ops[1].rep == "i" and ops[1].val > 4096:
                continue  # already reported by the probe; would hang this process
            sig = (name, tuple((o.rep, o.val) for o in ops))
            if sig in seen:
                continue
            seen.add(sig)
            n += 1
            yield name, opcode, ops


def in_context(ctx, pool):
    """the same instructions inside a multi-path run: the instruction executes on a path that was left pending while a
    sibling path branched on `x == c` for one of its operands x (what a path learnt must not change what an instruction
    computes on another path).  Whole programs through SEVM.run, compared per input with the reference EVM."""
    from vlib import asm, sevmcheck
    from vlib.evmdiff import MAIN, Scenario

    names = sorted(OPS)

    # directed first: every instruction x every operand position in the pinned-on-sibling-paths shape
    forced = [(n, j) for n in names for j in range(OPS[n][1])]

    def gen(rng):
        pinned = bool(forced)
        name, xpos = forced.pop() if forced else (rng.choice(names), None)
        _, arity = OPS[name]
        c = rng.choice([0, 1, 2, 5, 31, 32, 255, 256]) if rng.random() < 0.7 else rng.choice(pool) % W
        if xpos is None:
            xpos = rng.randrange(arity)
        x = [("push", 4), "CALLDATALOAD"]
        if rng.random() < 0.3:
            x = x + [("push", 0xFF), "AND"]
        ops = []
        for j in range(arity):
            if j == xpos:
                ops.append(x)
            elif rng.random() < 0.3:
                ops.append([("push", 0x44), "CALLDATALOAD"])
            else:
                ops.append([("push", rng.choice([0, 1, 2, 3, 7, 31, 32, 0x80, 0x8080, 255, 256, W - 1, 1 << 255, rng.choice(pool) % W]))])
        body = []
        for o in reversed(ops):       # first operand ends on top of the stack
            body += o
        body += [name, ("push", 0), "MSTORE", ("push", 0x20), ("push", 0), "RETURN"]
        learn = x + [("push", c), "EQ", ("ref", "A"), "JUMPI", "STOP", ("label", "A"), "STOP"]
        if pinned or rng.random() < 0.34:
            # the operand is pinned to a DIFFERENT constant on each of two sibling paths (x == c on one, x == c2 on the other:
            # two term->constant substitutions of the same size), and the instruction executes on both with x as operand
            c2 = rng.choice([v for v in (0, 1, 2, 3, 5, 30, 31, 32, 33, 255, 256) if v != c])
            items = (x + [("push", c), "EQ", ("ref", "A"), "JUMPI"] + x + [("push", c2), "EQ", ("ref", "B"), "JUMPI", "STOP"]
                     + [("label", "A")] + body + [("label", "B")] + body)
            if rng.random() < 0.5:   # a third arm so that the instruction runs three times on the same term
                c3 = rng.choice([v for v in (0, 1, 2, 4, 31, 32) if v not in (c, c2)])
                items = (x + [("push", c), "EQ", ("ref", "A"), "JUMPI"] + x + [("push", c2), "EQ", ("ref", "B"), "JUMPI"]
                         + x + [("push", c3), "EQ", ("ref", "C"), "JUMPI", "STOP"]
                         + [("label", "A")] + body + [("label", "B")] + body + [("label", "C")] + body)
            return Scenario({MAIN: asm.assemble(items)}, nargs=3), {f"ctx:{name}": 1, "ctx:pinned-on-sibling-paths": 1, f"ctx:xpos{xpos}": 1}
        if rng.random() < 0.5:
            # the pending sibling is the taken side of the first JUMPI
            items = [("push", 0x24), "CALLDATALOAD", ("ref", "B"), "JUMPI"] + learn + [("label", "B")] + body
            shape = "pending-taken"
        else:
            items = [("push", 0x24), "CALLDATALOAD", "ISZERO", ("ref", "L"), "JUMPI"] + body + [("label", "L")] + learn
            shape = "pending-fallthrough"
        return Scenario({MAIN: asm.assemble(items)}, nargs=3), {f"ctx:{name}": 1, f"ctx:{shape}": 1, f"ctx:xpos{xpos}": 1}

    before = len(ctx.violations)
    sevmcheck.run(ctx, "C01", {}, n_scenarios=len(forced) + ctx.scale(40, 1500), n_random_inputs=ctx.scale(6, 12),
                  cfgs=[{}], gen=gen, corpus=False)
    for v in ctx.violations[before:]:
        v["key"] = "in-context|" + v["key"]
        v["what"] = "instruction inside a multi-path run: " + v["what"]


def correspond(ctx):
    from vlib import sevmdrv

    pool = sorted(set(boundary_pool()) | set(harvest_literals()))
    ctx.extra["value_pool_size"] = len(pool)
    exp_safe = prompt_probe(ctx)
    singleton_probe(ctx, "start")
    immutability_probe(ctx)

    sevm, args = sevmdrv.mk_sevm()
    cases = []
    # corpus first
    corpus = VERIF / "corpus" / "C06"
    if corpus.exists():
        for f in sorted(corpus.glob("*.json")):
            d = json.loads(f.read_text())
            ops = [Operand(r, int(v, 16), j, ctx.rng) for j, (r, v) in enumerate(d["operands"])]
            cases.append((d["op"], OPS[d["op"]][0], ops))
            ctx.count("corpus")
    cases += list(gen_cases(ctx, pool, exp_safe))
    # EXP by a small constant under non-default --smt-exp-by-const (the unrolled multiplication chain): every exponent
    # 0..k+1 with a symbolic base in each word representation, k in {3, 6}
    sevm_k = {k: sevmdrv.mk_sevm(smt_exp_by_const=k) for k in (3, 6)}
    for k in (3, 6):
        for e in range(0, k + 2):
            for rep in ("t", "tz", "ti"):
                ops = [Operand(rep, ctx.rng.choice([2, 3, 7, W - 1, ctx.rng.randrange(W)]), 0, ctx.rng), Operand("i", e, 1, ctx.rng)]
                cases.append((f"EXP@{k}", OPS["EXP"][0], ops))

    lines, metas = [], []
    for name, opcode, ops in cases:
        env = {}
        for o in ops:
            env.update(o.env)
        # second valuation: perturb every variable (checks that the term, not just one value, is right)
        env2 = {}
        for o in ops:
            n = f"v{o.idx}"
            if o.rep == "t":
                env2[n] = (o.env[n] * 3 + 1) % W
            elif o.rep == "tz":
                env2[n] = (o.env[n] * 3 + 1) % 256
            elif o.rep in ("ti", "b", "bn"):
                env2[n] = 1 - o.env[n]
            elif o.rep == "bl":
                env2[n + "a"], env2[n + "b"] = o.env[n + "b"], o.env[n + "a"]
        envs = [env, env2] if env else [env]
        # adversarial valuations of the word-typed variables (negative, non-multiples of powers of two, sign boundary)
        if any(o.rep in ("t", "tz") for o in ops):
            for adv in (W - 1, W - 7, W - 128, 1 << 255, (1 << 255) + 1, 7):
                e3 = dict(env)
                for o in ops:
                    if o.rep == "t":
                        e3[f"v{o.idx}"] = adv
                    elif o.rep == "tz":
                        e3[f"v{o.idx}"] = adv % 256
                if e3 not in envs:
                    envs.append(e3)
        dens = []
        for e in envs:
            d = []
            for o in ops:
                n = f"v{o.idx}"
                if o.rep in ("i", "bT", "bF"):
                    d.append(o.val)
                elif o.rep in ("t", "tz", "ti", "b"):
                    d.append(e[n])
                elif o.rep == "bn":
                    d.append(1 - e[n])
                elif o.rep == "bl":
                    d.append(1 if e[n + "a"] < e[n + "b"] else 0)
            dens.append(d)
        if "@" in name:
            sv, av = sevm_k[int(name.split("@")[1])]
            impl = run_impl(sv, av, opcode, ops, envs)
        else:
            impl = run_impl(sevm, args, opcode, ops, envs)
        envtxt = " | ".join(",".join(f"{k}={v:x}" for k, v in e.items()) for e in envs)
        lines.append(f"op {name} {' '.join(o.tok for o in ops)} | {envtxt}")
        for d in dens:
            lines.append(f"spec {name.split('@')[0]} {' '.join(f'{x:x}' for x in d)}")
        metas.append((name, ops, envs, dens, impl))

    replies = ctx.lean("Word").ask(lines)
    it = iter(replies)
    stale = []
    for name, ops, envs, dens, impl in metas:
        model = next(it)
        specs = [int(next(it), 16) for _ in dens]
        reps = ",".join(o.key() for o in ops)
        ctx.case((name, tuple((o.rep, o.val, tuple(sorted(o.env.items()))) for o in ops)))
        ctx.count(f"op:{name}")
        ctx.count("reps:" + ("all-int" if all(o.rep == "i" for o in ops) else "has-bool" if any(o.rep[0] == "b" for o in ops) else "int/term"))
        replay = {"op": name, "operands": [[o.rep, hex(o.val)] for o in ops], "envs": [{k: hex(v) for k, v in e.items()} for e in envs],
                  "expected_spec": [hex(s) for s in specs], "observed": impl, "model": model}
        ctx.sample({"op": name, "operands": [o.tok for o in ops], "spec": hex(specs[0]), "impl": impl[:2]})
        symbolic_signext = name == "SIGNEXTEND" and ops[0].rep not in ("i", "bT", "bF")
        if impl[0] == "err":
            ctx.count("impl-err:" + impl[1])
            if symbolic_signext and impl[1] == "NotConcreteError":
                if not model.startswith("err NotConcreteError"):
                    stale.append((name, reps, impl, model))
                continue
            kind = "not-prompt" if impl[1].startswith("Timeout") else f"exception:{impl[1]}"
            ctx.violation(f"{name}|{reps}|{kind}", f"{name} on ({reps}) raised {impl[1]}; EVM result is {hex(specs[0])}", replay)
            continue
        _, cls, vals, auxs = impl
        if vals != specs:
            ctx.violation(f"{name}|{reps}|wrong-value", f"{name} on ({reps}) denotes {hex(vals[0])}, EVM says {hex(specs[0])}", replay)
            continue
        if not all(auxs):
            ctx.violation(f"{name}|{reps}|aux-constraint-excludes-input",
                          f"{name}: an auxiliary path constraint is false for a real input", replay)
            continue
        # implementation agrees with the Spec: now the model must agree with the implementation
        if not model.startswith("ok "):
            stale.append((name, reps, impl, model))
            continue
        head, _, auxpart = model.partition(" ; aux ")
        toks = head.split()
        mcls, mvals = toks[1], [int(x, 16) for x in toks[2:]]
        if mvals != vals or "0" in auxpart.split():
            stale.append((name, reps, impl, model))
        elif mcls in ("con", "bcon") and cls != mcls:
            stale.append((name, reps, impl, model))
        elif (mcls[0] == "b") != (cls[0] == "b"):
            stale.append((name, reps, impl, model))
    singleton_probe(ctx, "end")
    in_context(ctx, pool)
    if stale:
        raise RuntimeError(f"Model.BitVecOps disagrees with the implementation on {len(stale)} cases where the implementation "
                           f"matches the Spec (model is stale): first = {stale[0]}")


def replay(ctx, data):
    from vlib import sevmdrv

    r = data["replay"]
    if r.get("kind") == "probe-exp":
        return not prompt_probe(ctx)
    if r.get("kind") == "singleton-probe":
        return not singleton_probe(ctx, "start")
    if r.get("kind") == "immutability-probe":
        return not immutability_probe(ctx)
    sevm, args = sevmdrv.mk_sevm(**({"smt_exp_by_const": int(r["op"].split("@")[1])} if "@" in r["op"] else {}))
    ops = [Operand(rep, int(v, 16), j, ctx.rng) for j, (rep, v) in enumerate(r["operands"])]
    envs = [{k: int(v, 16) for k, v in e.items()} for e in r["envs"]]
    impl = run_impl(sevm, args, OPS[r["op"].split("@")[0]][0], ops, envs)
    print("observed:", impl, "expected:", r["expected_spec"])
    return impl[0] == "err" or [hex(v) for v in impl[2]] != r["expected_spec"] or not all(impl[3])
