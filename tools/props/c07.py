"""C07 — Byte sequences behave as a flat zero-extended byte array.

Differential run of the real `halmos.bytevec.ByteVec` (and the `State` / `Message` / `copy_returndata_to_memory`
wrappers of sevm.py) against the Lean Model (`Model.ByteVec`, variant chosen by a run-time probe of the real
code) and the Lean Spec (`Spec.Bytes`, flat arrays), through `Driver/Bytes.lean`, on histories of operations
over a pool of three named objects.  A small Python flat-array reference (`PyFlat`) guides generation (it knows
the current lengths), must agree with the Lean Spec on every step, and is the oracle used by `replay`.
"""
from __future__ import annotations

import ast
import copy as pycopy
import itertools
import json
import signal
from pathlib import Path
from types import SimpleNamespace

from vlib.runner import REPO, VERIF
from vlib.impl import use_repo

use_repo()

import sys  # noqa: E402

# halmos/__main__.py lifts CPython's int<->str digit limit (z3 numerals of large concrete chunks go through
# str(int)); the harness runs the library in the same configuration as the tool
if hasattr(sys, "set_int_max_str_digits"):
    sys.set_int_max_str_digits(0)

import z3  # noqa: E402
from z3 import BitVec, BitVecVal, Bool, is_bv, is_bv_value  # noqa: E402

from halmos.bitvec import HalmosBitVec as BV  # noqa: E402
from halmos.bytevec import ByteVec, ConcreteChunk, SymbolicChunk  # noqa: E402
from halmos import sevm as _sevm  # noqa: E402
from halmos.sevm import Message, State, copy_returndata_to_memory  # noqa: E402
from halmos.contract import Contract  # noqa: E402

from vlib import zeval  # noqa: E402

ID = "C07"
LEAN_MODULES = ["HalmosVerif.Props.C07", "HalmosVerif.Props.C07Laws"]
LEAN_EXTRA_TARGETS = ["HalmosVerif.Model.ByteVec"]
RULE = (
    "a case = one operation of a history applied to a pool of 3 ByteVec objects, after which length, flattened "
    "content (canonical byte tokens, symbolic bytes as (name, index)) and chunk layout of all 3 objects are compared "
    "between real ByteVec, Lean Model and Lean Spec; distinct = distinct (operation kind, data kind, position class "
    "relative to the chunk layout, route, resulting layout shape); histories: corpus, exhaustive length<=2 (+ sampled "
    "or full length 3) over an op alphabet on an 8-point offset grid around chunk boundaries, random histories of "
    "length<=40 with concrete/symbolic/mixed/pool-object data, self and overlapping copies, copies and deep copies; "
    "plus directed boundary cases (MAX_MEMORY_SIZE, negative offsets, set_word value kinds)"
)
TRUSTED = [
    "sortedcontainers.SortedDict (modelled as a key-sorted association list)",
    "structural canonicaliser of z3 Concat/Extract/BitVecVal/variable terms to byte tokens (fallback: vlib.zeval under shared valuations)",
    "Driver/Bytes.lean parser/printer",
]
ASSUMPTIONS = [
    "a ByteVec is never passed to its own append/set_slice as the whole-object value (x.set_slice(s, e, x)); slices of itself are covered",
    "no reference cycles between pool objects are generated (conservative ref-graph tracking in the generator)",
    "offsets are non-negative in Model/Spec; negative offsets are checked directly to be rejected without mutation",
    "symbolic data are named bit-vector variables (sub-ranges by byte offset); terms with other structure are compared by evaluation",
]

KNOWN_ALIAS_KEY = "set_slice:aligned-chunk-stored-by-reference"
NAMES = ["a", "b", "c"]

# ----------------------------------------------------------------------------------------------------------
# source literals


def _const_eval(node):
    if isinstance(node, ast.Constant) and isinstance(node.value, int) and not isinstance(node.value, bool):
        return node.value
    if isinstance(node, ast.BinOp):
        l, r = _const_eval(node.left), _const_eval(node.right)
        if l is None or r is None:
            return None
        if isinstance(node.op, ast.Pow) and 0 <= r <= 64:
            return l**r
        if isinstance(node.op, ast.Mult):
            return l * r
        if isinstance(node.op, ast.Add):
            return l + r
        if isinstance(node.op, ast.Sub):
            return l - r
        if isinstance(node.op, ast.LShift) and 0 <= r <= 64:
            return l << r
    if isinstance(node, ast.UnaryOp) and isinstance(node.op, ast.USub):
        v = _const_eval(node.operand)
        return None if v is None else -v
    return None


def harvest_literals():
    lits = set()
    src = REPO / "src" / "halmos"
    tree = ast.parse((src / "bytevec.py").read_text())
    for n in ast.walk(tree):
        v = _const_eval(n)
        if v is not None:
            lits.add(v)
    wanted = {"mslice", "set_mslice", "ret", "__deepcopy__", "calldata_slice", "copy_returndata_to_memory", "mloc"}
    tree = ast.parse((src / "sevm.py").read_text())
    for n in ast.walk(tree):
        if isinstance(n, ast.FunctionDef) and n.name in wanted:
            for m in ast.walk(n):
                v = _const_eval(m)
                if v is not None:
                    lits.add(v)
    max_mem = None
    tree = ast.parse((src / "constants.py").read_text())
    for n in tree.body:
        if isinstance(n, ast.Assign) and any(isinstance(t, ast.Name) and t.id == "MAX_MEMORY_SIZE" for t in n.targets):
            max_mem = _const_eval(n.value)
    return lits, max_mem


# ----------------------------------------------------------------------------------------------------------
# tokens: int = concrete byte, (name, idx) = symbolic byte


def tok_str(toks):
    if not toks:
        return "-"
    return "".join(f"{t:02x}" if isinstance(t, int) else f"<{t[0]}.{t[1]}>" for t in toks)


class Uncanonical(Exception):
    pass


def term_tokens(t):
    """byte tokens of a z3 bit-vector term built from variables, numerals, Concat and Extract (byte aligned)"""
    if isinstance(t, bytes):
        return list(t)
    if not is_bv(t):
        raise Uncanonical(str(type(t)))
    n = t.size()
    if n % 8:
        raise Uncanonical(f"size {n}")
    nb = n // 8
    if is_bv_value(t):
        return list(t.as_long().to_bytes(nb, "big"))
    k = t.decl().kind()
    if k == z3.Z3_OP_UNINTERPRETED and t.num_args() == 0:
        name = t.decl().name()
        return [(name, i) for i in range(nb)]
    if k == z3.Z3_OP_CONCAT:
        out = []
        for c in t.children():
            out += term_tokens(c)
        return out
    if k == z3.Z3_OP_EXTRACT:
        hi, lo = t.params()
        inner = term_tokens(t.arg(0))
        if (hi + 1) % 8 or lo % 8:
            raise Uncanonical("unaligned extract")
        tot = len(inner)
        return inner[tot - (hi + 1) // 8 : tot - lo // 8]
    raise Uncanonical(t.decl().name())


def eval_tokens(toks, env):
    """concrete bytes of a token list under env: name -> int (big endian value of the variable, size from name)"""
    out = []
    for t in toks:
        if isinstance(t, int):
            out.append(t)
        else:
            name, i = t
            size = sym_size(name)
            out.append((env[name] >> (8 * (size - 1 - i))) & 0xFF if i < size else 0)
    return out


def sym_size(name):
    # variable names carry their byte size: x4, y32, …
    return int("".join(ch for ch in name if ch.isdigit()))


def value_tokens(v, envs=None):
    """tokens of a value returned by the public read API: int (needs width), bytes, BitVecRef, ByteVec"""
    if isinstance(v, ByteVec):
        v = v.unwrap()
    if isinstance(v, BV):
        v = v.unwrap() if hasattr(v, "unwrap") else v.value
    return term_tokens(v)


# ----------------------------------------------------------------------------------------------------------
# PyFlat: the reference flat array


class PyFlat:
    def __init__(self):
        self.pool = {n: [] for n in NAMES}

    @staticmethod
    def piece_tokens(p):
        if p[0] == "c":
            _, data, st, ln = p
            return [data[st + i] if st + i < len(data) else 0 for i in range(ln)]
        _, name, _size, st, ln = p
        return [(name, st + i) for i in range(ln)]

    @staticmethod
    def read(f, s, e):
        return [f[i] if i < len(f) else 0 for i in range(s, e)] if e > s else []

    @staticmethod
    def write(f, start, data):
        if not data:
            return f
        g = f + [0] * (start - len(f))
        return g[:start] + data + g[start + len(data) :]

    def data_tokens(self, d):
        if d[0] == "raw":
            return self.piece_tokens(d[1])
        if d[0] == "vec":
            out = []
            for p in d[1]:
                out += self.piece_tokens(p)
            return out
        if d[0] == "obj":
            return list(self.pool[d[1]])
        if d[0] == "objslice":
            return self.read(self.pool[d[1]], d[2], d[3])
        raise ValueError(d)

    def step(self, op):
        """returns reply string as the Lean driver prints it"""
        P = self.pool
        k = op[0]
        if k == "new":
            P[op[1]] = []
            return "ok"
        if k == "append":
            P[op[1]] = P[op[1]] + self.data_tokens(op[2])
            return "ok"
        if k == "setbyte":
            _, a, off, p = op
            if p[-1] != 1:
                return "err AssertionError"
            P[a] = self.write(P[a], off, self.piece_tokens(p))
            return "ok"
        if k == "setslice":
            _, a, s, e, d = op
            if s == e:
                return "ok"
            if s > e:
                return "err ValueError"
            toks = self.data_tokens(d)
            if e - s != len(toks):
                return "err ValueError"
            P[a] = self.write(P[a], s, toks)
            return "ok"
        if k == "setword":
            _, a, off, p = op
            if p[-1] != 32:
                return "err ValueError"
            P[a] = self.write(P[a], off, self.piece_tokens(p))
            return "ok"
        if k == "copy":
            P[op[2]] = list(P[op[1]])
            return "ok"
        if k == "slice":
            _, a, s, e, b = op
            r = self.read(P[a], s, e)
            P[b] = r
            return "bytes " + tok_str(r)
        if k == "concretize":
            _, a, b, sub = op
            P[b] = [
                t if isinstance(t, int) or t[0] not in sub else (sub[t[0]][t[1]] if t[1] < len(sub[t[0]]) else 0)
                for t in P[a]
            ]
            return "ok"
        if k == "getbyte":
            return "bytes " + tok_str(self.read(P[op[1]], op[2], op[2] + 1))
        if k == "getword":
            return "bytes " + tok_str(self.read(P[op[1]], op[2], op[2] + 32))
        if k == "unwrap":
            return "bytes " + tok_str(P[op[1]])
        if k == "len":
            return f"num {len(P[op[1]])}"
        raise ValueError(op)

    def digest(self):
        return " ".join(f"{n}={len(self.pool[n])}:{tok_str(self.pool[n])}" for n in NAMES)


# ----------------------------------------------------------------------------------------------------------
# line encoding


def piece_line(p):
    if p[0] == "c":
        _, data, st, ln = p
        base = f"c:{data.hex()}"
        return base if (st == 0 and ln == len(data)) else f"{base}:{st}:{ln}"
    _, name, size, st, ln = p
    base = f"s:{name}:{size}"
    return base if (st == 0 and ln == size) else f"{base}:{st}:{ln}"


def data_line(d):
    if d[0] == "raw":
        return piece_line(d[1])
    if d[0] == "vec":
        return "v:" + "+".join(piece_line(p) for p in d[1])
    if d[0] == "obj":
        return "@" + d[1]
    if d[0] == "objslice":
        return f"@{d[1]}:{d[2]}:{d[3]}"
    raise ValueError(d)


def op_line(op):
    k = op[0]
    if k == "new":
        return f"new {op[1]}"
    if k == "append":
        return f"append {op[1]} {data_line(op[2])}"
    if k == "setbyte":
        return f"setbyte {op[1]} {op[2]} {piece_line(op[3])}"
    if k == "setslice":
        return f"setslice {op[1]} {op[2]} {op[3]} {data_line(op[4])}"
    if k == "setword":
        return f"setword {op[1]} {op[2]} {piece_line(op[3])}"
    if k == "copy":
        return f"copy {op[1]} {op[2]}"
    if k == "slice":
        return f"slice {op[1]} {op[2]} {op[3]} {op[4]}"
    if k == "concretize":
        sub = op[3]
        s = ",".join(f"{n}={bytes(v).hex()}" for n, v in sorted(sub.items())) or "-"
        return f"concretize {op[1]} {op[2]} {s}"
    if k in ("getbyte", "getword"):
        return f"{k} {op[1]} {op[2]}"
    if k in ("unwrap", "len"):
        return f"{k} {op[1]}"
    raise ValueError(op)


def op_to_json(op):
    def enc(x):
        if isinstance(x, bytes):
            return {"hex": x.hex()}
        if isinstance(x, (list, tuple)):
            return [enc(y) for y in x]
        if isinstance(x, dict):
            return {"dict": {k: list(v) for k, v in x.items()}}
        return x

    return enc(op)


def op_from_json(j):
    def dec(x):
        if isinstance(x, dict) and "hex" in x:
            return bytes.fromhex(x["hex"])
        if isinstance(x, dict) and "dict" in x:
            return {k: list(v) for k, v in x["dict"].items()}
        if isinstance(x, list):
            return tuple(dec(y) for y in x)
        return x

    op = dec(j)
    # pieces lists inside ("vec", [...]) are tuples now: fine (only iterated)
    return op


# ----------------------------------------------------------------------------------------------------------
# the real implementation


class OpTimeout(BaseException):
    pass


def _on_alarm(signum, frame):
    raise OpTimeout()


signal.signal(signal.SIGALRM, _on_alarm)
OP_TIMEOUT_S = 2.0  # a single ByteVec operation on objects of < 5 KiB takes microseconds


def err_name(e):
    n = type(e).__name__
    return {"OutOfGasError": "OutOfGas", "RecursionError": "Recursion"}.get(n, n)


_VARS = {}


def var(name, size):
    v = _VARS.get(name)
    if v is None:
        v = _VARS[name] = BitVec(name, 8 * size)
    return v


def _msg(data):
    return Message(target=None, caller=None, origin=None, value=None, data=data, call_scheme=0xF1)


class Impl:
    """the real ByteVec objects; `route` (an rng-driven selector) picks between equivalent public entry points"""

    def __init__(self, rng, ctx=None, force=()):
        self.pool = {n: ByteVec() for n in NAMES}
        self.rng = rng
        self.ctx = ctx
        self.last_route = ""
        self.force = set(force)  # routes to take whenever they are applicable (corpus cases)

    def pick(self, options):
        forced = [o for o in options if o in self.force]
        if forced:
            r = forced[0]
        else:
            r = options[self.rng.randrange(len(options))] if self.rng else options[0]
        self.last_route = r
        if self.ctx:
            self.ctx.count(f"route:{r}")
        return r

    # -- values ------------------------------------------------------------------------------------------
    def piece_value(self, p, allow_raw=True, allow_bv=True):
        """a python value for a piece: raw bytes / z3 term / HalmosBitVec / Chunk object"""
        if p[0] == "c":
            _, data, st, ln = p
            full = st == 0 and ln == len(data)
            if full and allow_raw:
                forms = ["bytes", "chunk"]
                if ln > 0:
                    forms += ["bvval"] + (["BVcon"] if allow_bv else [])
                f = self.pick(["val:" + x for x in forms])[4:]
                if f == "bytes":
                    return data
                if f == "bvval":
                    return BitVecVal(int.from_bytes(data, "big"), 8 * ln)
                if f == "BVcon":
                    return BV(int.from_bytes(data, "big"), size=8 * ln)
            return ConcreteChunk(data, st, ln)
        _, name, size, st, ln = p
        v = var(name, size)
        full = st == 0 and ln == size
        if full and allow_raw:
            f = self.pick(["val:bvref", "val:symchunk"] + (["val:BVsym"] if allow_bv else []))[4:]
            if f == "bvref":
                return v
            if f == "BVsym":
                return BV(v)
        return SymbolicChunk(v, st, ln)

    def data_value(self, d, allow_bv=True):
        """allow_bv: HalmosBitVec values are accepted by append / ByteVec(...) (Chunk.wrap) but are not among the
        value types of set_slice (bytes, BitVecRef, Chunk, ByteVec)"""
        if d[0] == "raw":
            return self.piece_value(d[1], allow_bv=allow_bv)
        if d[0] == "vec":
            return ByteVec([self.piece_value(p) for p in d[1]])
        if d[0] == "obj":
            return self.pool[d[1]]
        if d[0] == "objslice":
            return self.pool[d[1]].slice(d[2], d[3])
        raise ValueError(d)

    # -- one op -------------------------------------------------------------------------------------------
    def shares_storage(self, a, b):
        """two pool names must never denote objects sharing their chunk container (copy() must copy it)"""
        x, y = self.pool[a], self.pool[b]
        return a != b and (x is y or x.chunks is y.chunks)

    def step(self, op):
        # guard: a whole-object value that *is* the target (possible only if copy/slice returned shared storage)
        # would make append/set_slice iterate over the container they mutate
        if op[0] in ("append", "setslice") and op[-1][0] == "obj" and self.shares_storage(op[1], op[-1][1]):
            return "err SharedStorage"
        signal.setitimer(signal.ITIMER_REAL, OP_TIMEOUT_S)
        try:
            return self._step(op)
        except OpTimeout:
            return "err Timeout"
        except (ValueError, IndexError, AssertionError, TypeError, RecursionError, NotImplementedError) as e:
            return "err " + err_name(e)
        except Exception as e:  # noqa: BLE001
            return "err " + err_name(e)
        finally:
            signal.setitimer(signal.ITIMER_REAL, 0)

    def _step(self, op):
        P = self.pool
        k = op[0]
        self.last_route = ""
        if k == "new":
            P[op[1]] = ByteVec()
            return "ok"
        if k == "append":
            P[op[1]].append(self.data_value(op[2]))
            return "ok"
        if k == "setbyte":
            _, a, off, p = op
            if p[0] == "c" and p[2] == 0 and p[3] == 1 and len(p[1]) == 1:
                f = self.pick(["byte:int", "byte:bytes", "byte:bvval", "byte:BV", "byte:setitem"])
                b = p[1][0]
                v = {"byte:int": b, "byte:bytes": bytes([b]), "byte:bvval": BitVecVal(b, 8),
                     "byte:BV": BV(b, size=8), "byte:setitem": b}[f]
                if f == "byte:setitem":
                    P[a][off] = v
                else:
                    P[a].set_byte(off, v)
            elif p[0] == "s" and p[2] == 1 and p[3] == 0 and p[4] == 1:
                f = self.pick(["byte:bvref", "byte:BVsym", "byte:setitem-sym"])
                v = var(p[1], 1)
                if f == "byte:BVsym":
                    P[a].set_byte(off, BV(v))
                elif f == "byte:setitem-sym":
                    P[a][off] = v
                else:
                    P[a].set_byte(off, v)
            else:
                # sub-range / wrong-length pieces: pass what Chunk.wrap accepts (bytes or a z3 term of that size)
                toks = PyFlat.piece_tokens(p)
                if p[0] == "c":
                    P[a].set_byte(off, bytes(toks))
                else:
                    _, name, size, st, ln = p
                    t = var(name, size)
                    if not (st == 0 and ln == size):
                        t = z3.Extract(8 * (size - st) - 1, 8 * (size - st - ln), t) if ln > 0 else b""
                    P[a].set_byte(off, t)
            return "ok"
        if k == "setslice":
            _, a, s, e, d = op
            v = self.data_value(d, allow_bv=False)
            routes = ["ss:set_slice"]
            if e > 0:
                routes.append("ss:setitem")
            if isinstance(v, ByteVec) and e - s == len(v) and e > s:
                routes.append("ss:set_mslice")
                routes.append("ss:returndata")
            r = self.pick(routes)
            if r == "ss:set_slice":
                P[a].set_slice(s, e, v)
            elif r == "ss:setitem":
                P[a][s:e] = v
            elif r == "ss:set_mslice":
                State(memory=P[a]).set_mslice(s, v)
            else:
                ex = SimpleNamespace(st=State(memory=P[a]))
                extra = self.rng.choice([0, 0, 1, 32, 1 << 30]) if self.rng else 0
                copy_returndata_to_memory(v, s, len(v) + extra, ex)
            return "ok"
        if k == "setword":
            _, a, off, p = op
            if p[0] == "c" and p[2] == 0 and p[3] == 32 and len(p[1]) == 32:
                f = self.pick(["word:int", "word:bytes", "word:bvval", "word:BV"])
                n = int.from_bytes(p[1], "big")
                v = {"word:int": n, "word:bytes": p[1], "word:bvval": BitVecVal(n, 256), "word:BV": BV(n, size=256)}[f]
            elif p[0] == "s" and p[2] == 32 and p[3] == 0 and p[4] == 32:
                f = self.pick(["word:bvref", "word:BVsym"])
                v = var(p[1], 32)
                if f == "word:BVsym":
                    v = BV(v)
            else:
                toks = PyFlat.piece_tokens(p)
                if p[0] == "c":
                    v = bytes(toks)
                else:
                    _, name, size, st, ln = p
                    v = var(name, size)
                    if not (st == 0 and ln == size):
                        v = z3.Extract(8 * (size - st) - 1, 8 * (size - st - ln), v) if ln > 0 else b""
            P[a].set_word(off, v)
            return "ok"
        if k == "copy":
            r = self.pick(["cp:copy", "cp:deepcopy-state"])
            if r == "cp:copy":
                P[op[2]] = P[op[1]].copy()
            else:
                P[op[2]] = pycopy.deepcopy(State(stack=[], memory=P[op[1]])).memory
            if self.shares_storage(op[1], op[2]):
                return "ok !shared-storage"
            return "ok"
        if k == "slice":
            _, a, s, e, b = op
            routes = ["sl:slice", "sl:getitem"]
            if e > s:
                routes += ["sl:mslice", "sl:calldata_slice", "sl:ret", "sl:contract"]
            r = self.pick(routes)
            extra = ""
            if r == "sl:contract":
                # the code wrapper (CODECOPY / EXTCODECOPY): Contract.slice(start, size) and unwrapped_slice(start, stop)
                code = Contract(P[a])
                v = code.slice(s, e - s)
                u = code.unwrapped_slice(s, e)
                ut = list(int.to_bytes(u.value, u.size // 8, "big")) if u.is_concrete else term_tokens(u.value)
                if isinstance(v, ByteVec) and ut != value_tokens(v):
                    extra += " !unwrapped_slice=" + tok_str(ut)
                if len(code) != len(P[a]):
                    extra += f" !codelen={len(code)}"
            elif r == "sl:slice":
                v = P[a].slice(s, e)
            elif r == "sl:getitem":
                v = P[a][s:e]
            elif r == "sl:mslice":
                v = State(memory=P[a]).mslice(s, e - s)
            elif r == "sl:ret":
                st = State(stack=[BV(e - s, size=256), BV(s, size=256)], memory=P[a])
                v = st.ret()
            else:
                v = _msg(P[a]).calldata_slice(s, e - s)
            if not isinstance(v, ByteVec):
                raise TypeError("slice result is not a ByteVec")
            P[b] = v
            return "bytes " + tok_str(value_tokens(v)) + self._check_len(v, max(e - s, 0)) + extra
        if k == "concretize":
            _, a, b, sub = op
            m = {var(n, len(bs)): BitVecVal(int.from_bytes(bytes(bs), "big"), 8 * len(bs)) for n, bs in sub.items()}
            P[b] = P[a].concretize(m)
            return "ok"
        if k == "getbyte":
            r = self.pick(["gb:get_byte", "gb:getitem", "gb:contract"])
            if r == "gb:contract":
                v = Contract(P[op[1]])[op[2]]
            else:
                v = P[op[1]].get_byte(op[2]) if r == "gb:get_byte" else P[op[1]][op[2]]
            if isinstance(v, int):
                if not 0 <= v < 256:
                    raise TypeError("byte out of range")
                return "bytes " + tok_str([v])
            toks = term_tokens(v)
            return "bytes " + tok_str(toks) + ("" if len(toks) == 1 else " !width")
        if k == "getword":
            v = P[op[1]].get_word(op[2])
            if isinstance(v, int):
                if not 0 <= v < (1 << 256):
                    raise TypeError("word out of range")
                return "bytes " + tok_str(list(v.to_bytes(32, "big")))
            toks = term_tokens(v)
            return "bytes " + tok_str(toks)
        if k == "unwrap":
            v = P[op[1]].unwrap()
            return "bytes " + tok_str(term_tokens(v))
        if k == "len":
            r = self.pick(["len:len", "len:contract"])
            return f"num {len(Contract(P[op[1]])) if r == 'len:contract' else len(P[op[1]])}"
        raise ValueError(op)

    @staticmethod
    def _check_len(v, n):
        return "" if len(v) == n else f" !len={len(v)}"

    # -- digest (internal walk; the public read API is exercised by the read operations) -----------------------
    @staticmethod
    def chunk_tokens(ch, depth=0):
        if depth > 12:
            raise RecursionError("nested ByteVec chunks too deep")
        if isinstance(ch, ByteVec):
            out = []
            for c in ch.chunks.values():
                out += Impl.chunk_tokens(c, depth + 1)
            return out
        if isinstance(ch, ConcreteChunk):
            return list(ch.data[ch.start : ch.start + ch.length])
        if isinstance(ch, SymbolicChunk):
            return term_tokens(ch.data)[ch.start : ch.start + ch.length]
        raise TypeError(type(ch))

    @staticmethod
    def layout(bv):
        if not bv.chunks:
            return "-"
        out = []
        for off, ch in bv.chunks.items():
            kind = "bv" if isinstance(ch, ByteVec) else "c" if isinstance(ch, ConcreteChunk) else "s" if isinstance(ch, SymbolicChunk) else "?"
            out.append(f"{off}/{kind}/{len(ch)}")
        return ",".join(out)

    def digest(self, with_layout=True):
        parts = []
        for n in NAMES:
            bv = self.pool[n]
            if len(bv.chunks) > 20000:
                parts.append(f"{n}={len(bv)}:!huge")
                continue
            try:
                toks = tok_str(self.chunk_tokens(bv))
            except RecursionError:
                toks = "!recursion"
            if with_layout:
                parts.append(f"{n}={len(bv)}:{toks}:{self.layout(bv)}")
            else:
                parts.append(f"{n}={len(bv)}:{toks}")
        return " ".join(parts)


def strip_layout(digest):
    return " ".join(":".join(p.split(":")[:2]) for p in digest.split(" "))


# ----------------------------------------------------------------------------------------------------------
# probe: which variant of the aligned fast path is live?


def probe_alias():
    """the 3-operation witness of `C07.history_refines_alias_cex`"""
    a = ByteVec(b"\x01\x02\x03\x04\x05")
    b = ByteVec(b"\xaa\xbb\xcc\xdd\xee")
    a.set_slice(0, 5, b)
    b.set_slice(1, 3, b"$$")
    got = a.unwrap()
    return got != b"\xaa\xbb\xcc\xdd\xee", got


WITNESS = [
    ("append", "a", ("raw", ("c", bytes.fromhex("0102030405"), 0, 5))),
    ("append", "b", ("raw", ("c", bytes.fromhex("aabbccddee"), 0, 5))),
    ("setslice", "a", 0, 5, ("obj", "b")),
    ("setslice", "b", 1, 3, ("raw", ("c", b"$$", 0, 2))),
    ("unwrap", "a"),
]

# ----------------------------------------------------------------------------------------------------------
# generators


class Gen:
    def __init__(self, rng, lits, max_off):
        self.rng = rng
        self.max_off = max_off
        self.lits = sorted({v + d for v in lits for d in (-1, 0, 1) if 0 <= v + d <= max_off})
        self.reset()

    def reset(self):
        self.flat = PyFlat()
        self.bounds = {n: {0} for n in NAMES}
        self.refs = {n: set() for n in NAMES}
        self.syms = set()

    # reference graph (conservative): refs[x] = names whose objects may be reachable from x's chunks
    def can_ref(self, a, b):
        return a != b and a not in self.refs[b]

    def note_ref(self, a, b):
        new = {b} | self.refs[b]
        self.refs[a] |= new
        for c in NAMES:
            if a in self.refs[c]:
                self.refs[c] |= new

    def rebind(self, b, refs):
        for c in NAMES:
            self.refs[c].discard(b)
        self.refs[b] = set(refs)
        self.refs[b].discard(b)

    def offset(self, a):
        r = self.rng
        L = len(self.flat.pool[a])
        c = r.random()
        if c < 0.45 and self.bounds[a]:
            o = r.choice(sorted(self.bounds[a])) + r.choice([-1, 0, 0, 0, 1])
        elif c < 0.65:
            o = L + r.choice([-2, -1, 0, 0, 1, 2, 5])
        elif c < 0.8 and self.lits:
            o = r.choice(self.lits)
        elif c < 0.97:
            o = r.randrange(0, max(1, min(self.max_off, L + 8)))
        else:
            o = r.randrange(0, self.max_off + 1)
        return max(0, min(self.max_off, o))

    def size(self):
        r = self.rng
        c = r.random()
        if c < 0.7:
            return r.randrange(1, 9)
        if c < 0.9:
            return r.choice([31, 32, 33, 16])
        return r.randrange(0, 40)

    def piece(self, n, kind=None):
        r = self.rng
        kind = kind or r.choice(["c", "c", "s", "csub", "ssub"])
        if n == 0:
            kind = "c"
        if kind == "c":
            return ("c", bytes(r.randrange(256) if r.random() < 0.8 else 0 for _ in range(n)), 0, n)
        if kind == "s":
            name = f"{r.choice('xyzw')}{n}"
            self.syms.add(name)
            return ("s", name, n, 0, n)
        if kind == "csub":
            pre, post = r.randrange(0, 4), r.randrange(0, 4)
            return ("c", bytes(r.randrange(256) for _ in range(pre + n + post)), pre, n)
        pre, post = r.randrange(0, 4), r.randrange(0, 4)
        size = pre + n + post
        name = f"{r.choice('xyzw')}{size}"
        self.syms.add(name)
        return ("s", name, size, pre, n)

    def pieces(self, n):
        """split n bytes into 2..4 pieces of mixed kinds"""
        r = self.rng
        k = min(n, r.randrange(2, 5)) if n >= 2 else 1
        cuts = sorted(r.sample(range(1, n), k - 1)) if k > 1 else []
        sizes = [b - a for a, b in zip([0] + cuts, cuts + [n])]
        return [self.piece(s) for s in sizes]

    def data(self, a, n=None, allow_obj=True):
        """a data argument of n bytes (n None: free choice); returns (data, n)"""
        r = self.rng
        c = r.random()
        P = self.flat.pool
        if allow_obj and c < 0.22:
            cands = [b for b in NAMES if self.can_ref(a, b) and (n is None or len(P[b]) == n) and len(P[b]) > 0]
            if cands:
                b = r.choice(cands)
                return ("obj", b), len(P[b])
        if allow_obj and c < 0.5:
            b = r.choice(NAMES)  # self slices included
            L = len(P[b])
            if n is None:
                n = self.size()
            s = self.offset(b) if r.random() < 0.8 else r.randrange(0, L + 3)
            return ("objslice", b, s, s + n), n
        if n is None:
            n = self.size()
        if c < 0.7 and n >= 2:
            return ("vec", self.pieces(n)), n
        if c < 0.75:
            return ("vec", [self.piece(n)]), n
        return ("raw", self.piece(n)), n

    def op(self):
        r = self.rng
        P = self.flat.pool
        a = r.choice(NAMES)
        c = r.random()
        if c < 0.02:
            return ("new", a)
        if c < 0.12:
            d, _ = self.data(a)
            return ("append", a, d)
        if c < 0.24:
            off = self.offset(a)
            if r.random() < 0.03:
                return ("setbyte", a, off, self.piece(r.choice([0, 2])))
            return ("setbyte", a, off, self.piece(1, r.choice(["c", "c", "s"])))
        if c < 0.56:
            s = self.offset(a)
            cc = r.random()
            if cc < 0.35 and len(self.bounds[a]) >= 2:
                # aligned on (what may be) chunk boundaries
                bs = sorted(self.bounds[a] | {len(P[a])})
                i = r.randrange(len(bs) - 1) if len(bs) > 1 else 0
                s = bs[i]
                e = bs[min(len(bs) - 1, i + r.choice([1, 1, 1, 2]))]
                if e > s:
                    d, n = self.data(a, e - s)
                    return ("setslice", a, s, s + n, d)
            if cc < 0.42:
                # error / no-op cases
                d, n = self.data(a)
                e = r.choice([s, s, max(0, s - 1), s + n + 1, s + max(0, n - 1)])
                return ("setslice", a, s, e, d)
            d, n = self.data(a)
            return ("setslice", a, s, s + n, d)
        if c < 0.62:
            off = self.offset(a)
            if r.random() < 0.05:
                return ("setword", a, off, self.piece(r.choice([31, 33])))
            return ("setword", a, off, self.piece(32, r.choice(["c", "s", "csub", "ssub"])))
        if c < 0.68:
            b = r.choice([n for n in NAMES if n != a])
            return ("copy", a, b)
        if c < 0.78:
            b = r.choice(NAMES)
            s = self.offset(a)
            e = s + self.size() if r.random() < 0.9 else max(0, s - r.randrange(0, 3))
            return ("slice", a, s, e, b)
        if c < 0.81:
            b = r.choice(NAMES)
            names = sorted({t[0] for t in P[a] if not isinstance(t, int)})
            sub = {}
            for nm in names:
                if r.random() < 0.6:
                    sub[nm] = [r.randrange(256) for _ in range(sym_size(nm))]
            if r.random() < 0.3:
                sub["q3"] = [1, 2, 3]
            return ("concretize", a, b, sub)
        if c < 0.87:
            return ("getbyte", a, self.offset(a))
        if c < 0.93:
            return ("getword", a, self.offset(a))
        if c < 0.98:
            return ("unwrap", a)
        return ("len", a)

    def commit(self, op):
        """advance the reference state and the generator's bookkeeping"""
        k = op[0]
        self.flat.step(op)
        if k == "new":
            self.bounds[op[1]] = {0}
            self.rebind(op[1], ())
        elif k == "append":
            self.bounds[op[1]].add(len(self.flat.pool[op[1]]))
        elif k == "setbyte":
            self.bounds[op[1]] |= {op[2], op[2] + 1}
        elif k == "setslice":
            _, a, s, e, d = op
            if e > s:
                self.bounds[a] |= {s, e}
                if d[0] == "obj":
                    self.bounds[a] |= {s + x for x in self.bounds[d[1]]}
                    self.note_ref(a, d[1])
        elif k == "setword":
            self.bounds[op[1]] |= {op[2], op[2] + 32}
        elif k == "copy":
            self.bounds[op[2]] = set(self.bounds[op[1]])
            self.rebind(op[2], self.refs[op[1]])
        elif k == "slice":
            _, a, s, e, b = op
            self.bounds[b] = {x - s for x in self.bounds[a] if s <= x <= e} | {0, max(0, e - s)}
            self.rebind(b, ())
        elif k == "concretize":
            self.bounds[op[2]] = set(self.bounds[op[1]])
            self.rebind(op[2], ())
        for n in NAMES:
            if len(self.bounds[n]) > 24:
                self.bounds[n] = set(sorted(self.bounds[n])[:24])

    def valid(self, op):
        """generator-side guard (ASSUMPTIONS): no whole-self value, no reference cycles"""
        if op[0] in ("append", "setslice"):
            d = op[-1]
            if d[0] == "obj":
                a = op[1]
                if d[1] == a:
                    return False
                if op[0] == "setslice" and not self.can_ref(a, d[1]):
                    return False
        return True

    def history(self, n):
        self.reset()
        out = []
        while len(out) < n:
            op = self.op()
            if not self.valid(op):
                continue
            out.append(op)
            self.commit(op)
        return out


# the alphabet of the exhaustive small scope --------------------------------------------------------------

PREAMBLE = [
    ("append", "a", ("raw", ("c", bytes.fromhex("a0a1a2a3"), 0, 4))),
    ("append", "a", ("raw", ("s", "x4", 4, 0, 4))),
    ("append", "a", ("raw", ("c", bytes.fromhex("b0b1b2b3"), 0, 4))),
    ("append", "b", ("raw", ("s", "y4", 4, 0, 4))),
    ("append", "b", ("raw", ("c", bytes.fromhex("c0c1"), 0, 2))),
]
GRID = [0, 1, 4, 5, 8, 11, 12, 14]  # around the chunk boundaries 0,4,8,12 of `a`


def alphabet():
    A = []
    cb = lambda n, v=0xE0: ("c", bytes((v + i) & 0xFF for i in range(n)), 0, n)  # noqa: E731
    for off in GRID:
        A.append(("setbyte", "a", off, cb(1, 0xEE)))
    for off in (0, 4, 7, 12):
        A.append(("setbyte", "a", off, ("s", "z1", 1, 0, 1)))
    # slices: concrete 1 and 4 bytes on the grid, symbolic 4, whole b (6 bytes), slice of b, slice of a itself, mixed fresh vec
    for s in GRID:
        A.append(("setslice", "a", s, s + 4, ("raw", cb(4))))
    for s in (0, 4, 5, 11):
        A.append(("setslice", "a", s, s + 1, ("raw", cb(1, 0xD0))))
        A.append(("setslice", "a", s, s + 4, ("raw", ("s", "w4", 4, 0, 4))))
    for s in (0, 1, 4, 8, 12):
        A.append(("setslice", "a", s, s + 6, ("obj", "b")))
    for s in (0, 4, 8):
        A.append(("setslice", "a", s, s + 4, ("objslice", "b", 0, 4)))
        A.append(("setslice", "a", s, s + 4, ("objslice", "a", 2, 6)))
        A.append(("setslice", "a", s, s + 4, ("vec", [cb(2, 0x70), ("s", "w4", 4, 1, 2)])))
    A.append(("setslice", "a", 0, 12, ("objslice", "a", 4, 16)))
    A.append(("setslice", "a", 4, 8, ("raw", cb(3))))  # length mismatch
    A.append(("setslice", "a", 8, 4, ("raw", cb(4))))  # start > stop
    A.append(("setslice", "a", 4, 4, ("raw", cb(4))))  # empty range
    A.append(("setword", "a", 0, cb(32, 0x10)))
    A.append(("setword", "a", 4, ("s", "v32", 32, 0, 32)))
    A.append(("setword", "a", 14, cb(32, 0x30)))
    A.append(("append", "a", ("raw", cb(2, 0x50))))
    A.append(("append", "a", ("obj", "b")))
    A.append(("append", "b", ("raw", cb(1, 0x60))))
    # mutations of the value object / copies
    A.append(("setbyte", "b", 1, cb(1, 0x24)))
    A.append(("setslice", "b", 0, 4, ("raw", cb(4, 0x40))))
    A.append(("setslice", "b", 1, 3, ("raw", cb(2, 0x24))))
    A.append(("setslice", "b", 0, 6, ("objslice", "a", 3, 9)))
    A.append(("copy", "a", "c"))
    A.append(("copy", "b", "c"))
    A.append(("setbyte", "c", 0, cb(1, 0x99)))
    A.append(("setslice", "c", 0, 4, ("raw", cb(4, 0x90))))
    A.append(("setslice", "a", 0, 6, ("obj", "c")))
    A.append(("slice", "a", 2, 10, "c"))
    A.append(("slice", "a", 4, 8, "b"))
    A.append(("slice", "a", 11, 14, "c"))
    A.append(("concretize", "a", "c", {"x4": [1, 2, 3, 4]}))
    A.append(("getword", "a", 4))
    return A


# ----------------------------------------------------------------------------------------------------------
# running and comparing


def position_class(op, flat_before, layout_before):
    """coarse class of where a write lands relative to the target's chunk layout (for distinct-case keys)"""
    k = op[0]
    if k not in ("setbyte", "setslice", "setword"):
        return ""
    a = op[1]
    s = op[2]
    e = {"setbyte": s + 1, "setword": s + 32}.get(k) or op[3]
    L = len(flat_before[a])
    bounds = set()
    lay = layout_before.get(a, "-")
    if lay != "-":
        for it in lay.split(","):
            o, _, ln = it.split("/")
            bounds |= {int(o), int(o) + int(ln)}
    if e <= s:
        return "empty"
    cls = []
    cls.append("past" if s >= L else ("grow" if e > L else ("to-end" if e == L else "inside")))
    cls.append("sB" if s in bounds else "sM")
    cls.append("eB" if e in bounds else "eM")
    n_inner = len([b for b in bounds if s < b < e])
    cls.append(f"x{min(n_inner, 2)}")
    return "-".join(cls)


def parse_layouts(digest):
    out = {}
    for part in digest.split(" "):
        name, rest = part.split("=", 1)
        f = rest.split(":")
        out[name] = f[2] if len(f) > 2 else "-"
    return out


class Runner:
    def __init__(self, ctx, alias_live):
        self.ctx = ctx
        self.alias_live = alias_live
        self.lines = []
        self.records = []  # per line: None (reset) or dict
        self.histories = []

    def save_preamble(self, pre):
        """make the Lean side remember the pool after `pre` (compared like any history)"""
        self.add_history(list(pre), "preamble")
        self.lines.append("save")
        self.records.append(None)

    def add_history(self, ops, tag, restored_preamble=None, force=()):
        """run on the real code + PyFlat now, queue the lines for Lean.
        restored_preamble: operations already checked once (save_preamble) that are re-applied to the real code
        without being compared again; the Lean side returns to the saved pool instead"""
        ctx = self.ctx
        mode = "alias" if self.alias_live else "noalias"
        impl = Impl(ctx.rng, ctx, force)
        flat = PyFlat()
        if restored_preamble is None:
            self.lines.append(f"reset {mode} " + " ".join(NAMES))
        else:
            self.lines.append("restore")
            quiet = Impl(None)
            quiet.pool = impl.pool
            for op in restored_preamble:
                quiet.step(op)
                flat.step(op)
            ops = list(restored_preamble) + list(ops)
        self.records.append(None)
        skip = len(restored_preamble) if restored_preamble is not None else 0
        hist = {"ops": ops, "tag": tag, "first": len(self.lines)}
        self.histories.append(hist)
        lay_before = parse_layouts(impl.digest()) if skip else {n: "-" for n in NAMES}
        for i, op in enumerate(ops):
            if i < skip:
                continue
            flat_before = {n: flat.pool[n] for n in NAMES}
            pos = position_class(op, flat_before, lay_before)
            r_impl = impl.step(op)
            route = impl.last_route
            d_impl = impl.digest()
            r_flat = flat.step(op)
            d_flat = flat.digest()
            self.lines.append(op_line(op))
            self.records.append({
                "hist": hist, "i": i, "op": op, "impl": (r_impl, d_impl), "flat": (r_flat, d_flat),
                "pos": pos, "route": route,
            })
            lay_before = parse_layouts(d_impl)

    def finish(self):
        ctx = self.ctx
        replies = ctx.lean("Bytes").ask(self.lines)
        dead = set()  # histories (by id) no longer compared
        spec_dead = set()  # histories that diverged from the Spec through the known aliasing defect
        self.post_mismatch = []
        for line, rec, rep in zip(self.lines, self.records, replies):
            if rec is None:
                if rep != "ok":
                    raise RuntimeError(f"driver: {line!r} -> {rep!r}")
                continue
            hist = rec["hist"]
            if id(hist) in dead:
                continue
            if id(hist) in spec_dead:
                # the history already left the flat semantics through the known aliasing defect: the aliasing
                # model must still predict the real code exactly
                m_part = rep[2:].split(" | S ")[0]
                m_reply, m_digest = m_part.split(" ; ")
                self.ctx.count("post-divergence-steps")
                if (m_reply, m_digest) != rec["impl"]:
                    dead.add(id(hist))
                    self.ctx.count("post-divergence-model-mismatch")
                    self.post_mismatch.append((line, [op_line(o) for o in hist["ops"][: rec["i"] + 1]], rec["impl"], (m_reply, m_digest)))
                continue
            if not rep.startswith("M "):
                raise RuntimeError(f"driver: {line!r} -> {rep!r}")
            m_part, s_part = rep[2:].split(" | S ")
            m_reply, m_digest = m_part.split(" ; ")
            s_reply, s_digest = s_part.split(" ; ")
            r_impl, d_impl = rec["impl"]
            r_flat, d_flat = rec["flat"]
            op = rec["op"]
            # harness sanity: PyFlat == Lean Spec
            if (r_flat, d_flat) != (s_reply, s_digest):
                raise RuntimeError(
                    f"PyFlat and Lean Spec disagree on {line!r}: {r_flat} ; {d_flat}  vs  {s_reply} ; {s_digest}"
                )
            dkind = op[-1][0] if op[0] in ("append", "setslice") else (op[3][0] if op[0] in ("setbyte", "setword") else "")
            if op[0] in ("slice", "getbyte", "len", "copy"):
                dkind = rec["route"]  # which wrapper served the read
            shape = ",".join(sorted({x.split("/")[1] for x in parse_layouts(d_impl).get(op[1], "-").split(",") if "/" in x}))
            ctx.case((op[0], dkind, rec["pos"], rec["route"], shape, r_impl.split(" ")[0] + r_impl[3:12] if r_impl.startswith("err") else ""))
            ctx.count(f"op:{op[0]}")
            if dkind:
                ctx.count(f"data:{dkind}")
            if rec["pos"]:
                ctx.count(f"pos:{rec['pos']}")
            if r_impl.startswith("err"):
                ctx.count(f"reply:{r_impl}")

            impl_vs_spec = (r_impl == s_reply) and (strip_layout(d_impl) == s_digest)
            impl_vs_model = (r_impl == m_reply) and (d_impl == m_digest)
            if impl_vs_spec and impl_vs_model:
                continue
            replay = {
                "kind": "history", "ops": [op_to_json(o) for o in hist["ops"][: rec["i"] + 1]],
                "line": line, "impl": [r_impl, d_impl], "model": [m_reply, m_digest], "spec": [s_reply, s_digest],
                "transcript": [op_line(o) for o in hist["ops"][: rec["i"] + 1]],
                "force_routes": [rec["route"]] if rec["route"] else [],
            }
            if not impl_vs_spec:
                if impl_vs_model and self.alias_live:
                    spec_dead.add(id(hist))
                    key = KNOWN_ALIAS_KEY
                    what = (
                        "ByteVec.set_slice on a range aligned exactly on an existing chunk stores the value ByteVec object "
                        "itself as a chunk (bytevec.py:584-586); a later mutation of the value object changes the "
                        f"destination too. First divergence from the flat array at step {rec['i']} `{line}` of history "
                        f"[{hist['tag']}]: real `{r_impl} ; {strip_layout(d_impl)}` vs flat `{s_reply} ; {s_digest}`"
                    )
                else:
                    dead.add(id(hist))
                    aspect = "reply" if r_impl != s_reply else ("length" if [p.split(":")[0] for p in strip_layout(d_impl).split(" ")] != [p.split(":")[0] for p in s_digest.split(" ")] else "content")
                    victim = ""
                    if aspect != "reply":
                        for pi, ps in zip(strip_layout(d_impl).split(" "), s_digest.split(" ")):
                            if pi != ps:
                                victim = "target" if pi.split("=")[0] == op[1] or (op[0] in ("copy", "concretize") and pi.split("=")[0] == op[2]) or (op[0] == "slice" and pi.split("=")[0] == op[4]) else "other-object"
                                break
                    key = f"{op[0]}:{dkind or '-'}:{rec['pos'] or '-'}:{aspect}{':' + victim if victim else ''}"
                    what = (
                        f"real ByteVec differs from the flat array at step {rec['i']} `{line}` (route {rec['route'] or '-'}) "
                        f"of history [{hist['tag']}]: real `{r_impl} ; {strip_layout(d_impl)}` vs flat `{s_reply} ; {s_digest}`"
                    )
                ctx.violation(key, what, replay)
                continue
            # implementation agrees with the Spec but not with the Model: the model is stale
            raise RuntimeError(
                f"Model.ByteVec ({'alias' if self.alias_live else 'noalias'} variant) disagrees with the real code where the Spec "
                f"agrees with it, at `{line}` (step {rec['i']} of {[op_line(o) for o in hist['ops'][: rec['i'] + 1]]}): "
                f"real `{r_impl} ; {d_impl}` vs model `{m_reply} ; {m_digest}`"
            )
        import os
        if os.environ.get("C07_DEBUG") and self.post_mismatch:
            for pm in self.post_mismatch[:5]:
                print("POST-MISMATCH", pm)
        n = len(self.lines)
        self.lines, self.records, self.histories = [], [], []
        return n


def run_history_python_only(ops, rng=None, force=()):
    """replay oracle: real code vs PyFlat; returns index and description of the first divergence or None"""
    impl = Impl(rng, force=force)
    flat = PyFlat()
    for i, op in enumerate(ops):
        r_impl = impl.step(op)
        d_impl = impl.digest(with_layout=False)
        r_flat = flat.step(op)
        d_flat = flat.digest()
        if (r_impl, d_impl) != (r_flat, d_flat):
            return i, f"{op_line(op)}: real `{r_impl} ; {d_impl}` vs flat `{r_flat} ; {d_flat}`"
    return None


# ----------------------------------------------------------------------------------------------------------
# directed checks (no Lean): size limits, negative offsets, set_word value kinds, copy independence


def directed(ctx, max_mem_src, alias_live=None):
    if alias_live is None:
        alias_live = probe_alias()[0]
    rng = ctx.rng
    from halmos.constants import MAX_MEMORY_SIZE as MAXM

    if max_mem_src is not None and max_mem_src != MAXM:
        raise RuntimeError("MAX_MEMORY_SIZE read from source differs from the imported one")
    M = MAXM

    def viol(key, what, rep):
        ctx.violation(key, what, {"kind": "directed", **rep})

    base = b"\x11\x22\x33\x44\x55\x66\x77\x88"
    # --- mslice / calldata_slice / ret: error iff (size != 0 and loc+size > MAX) resp. size > MAX; else zero-extended read
    locs = sorted({0, 1, 7, 8, 9, M - 33, M - 32, M - 31, M - 9, M - 8, M - 1, M, M + 1, 2 * M})
    sizes = sorted({0, 1, 8, 9, 31, 32, 33, M - 1, M, M + 1})
    for loc in locs:
        for size in sizes:
            if size > 4096 and loc not in (0, 1, M):
                continue
            for which in ("mslice", "calldata_slice", "ret"):
                mem = ByteVec(base)
                if which == "mslice":
                    should_fail = size != 0 and loc + size > M
                    f = lambda: State(memory=mem).mslice(loc, size)  # noqa: E731
                elif which == "ret":
                    # an empty range does not touch memory (EVM: no expansion for size 0), whatever the offset
                    should_fail = size != 0 and loc + size > M
                    f = lambda: State(stack=[BV(size, size=256), BV(loc, size=256)], memory=mem).ret()  # noqa: E731
                else:
                    should_fail = size > M
                    f = lambda: _msg(mem).calldata_slice(loc, size)  # noqa: E731
                try:
                    v = f()
                    err = None
                except Exception as e:  # noqa: BLE001
                    v, err = None, err_name(e)
                ctx.case(("limit", which, loc - M if loc > 4096 else loc, size - M if size > 4096 else size))
                ctx.count(f"limit:{which}:{'err' if err else 'ok'}")
                if should_fail != (err == "OutOfGas"):
                    viol(f"{which}:size-limit", f"{which}(loc={loc}, size={size}) with MAX_MEMORY_SIZE={M}: expected "
                         f"{'OutOfGasError' if should_fail else 'a zero-extended read'}, got {err or 'a result'}",
                         {"which": which, "loc": loc, "size": size})
                    continue
                if err is None:
                    ok = len(v) == size
                    if ok and size <= 4096:
                        exp = [base[i] if i < len(base) else 0 for i in range(loc, loc + size)]
                        ok = value_tokens(v) == exp if size else len(v) == 0
                    elif ok:
                        ok = v.get_byte(0) == (base[loc] if loc < len(base) else 0) and v.get_byte(size - 1) == (base[loc + size - 1] if loc + size - 1 < len(base) else 0)
                    if not ok or len(mem) != len(base):
                        viol(f"{which}:content", f"{which}(loc={loc}, size={size}) returned wrong content/length or changed the source",
                             {"which": which, "loc": loc, "size": size})
    # --- set_mslice / copy_returndata_to_memory: error iff len != 0 and loc+len > MAX, and no mutation on error
    for loc in [0, 3, 8, 9, M - 9, M - 8, M - 7, M - 1, M, M + 1]:
        for n in [0, 1, 8]:
            for which in ("set_mslice", "returndata"):
                mem = ByteVec(base)
                data = ByteVec(bytes(range(0xA0, 0xA0 + n)))
                should_fail = n != 0 and loc + n > M
                try:
                    if which == "set_mslice":
                        State(memory=mem).set_mslice(loc, data)
                    else:
                        copy_returndata_to_memory(data, loc, n + rng.choice([0, 1, 100]), SimpleNamespace(st=State(memory=mem)))
                    err = None
                except Exception as e:  # noqa: BLE001
                    err = err_name(e)
                ctx.case(("limit", which, loc - M if loc > 4096 else loc, n))
                ctx.count(f"limit:{which}:{'err' if err else 'ok'}")
                if should_fail != (err == "OutOfGas"):
                    viol(f"{which}:size-limit", f"{which}(loc={loc}, len={n}) with MAX_MEMORY_SIZE={M}: got {err or 'ok'}",
                         {"which": which, "loc": loc, "n": n})
                    continue
                exp_len = len(base) if (err or n == 0) else max(len(base), loc + n)
                good = len(mem) == exp_len
                if good and not err and n:
                    good = [mem.get_byte(loc + i) for i in range(n)] == list(range(0xA0, 0xA0 + n))
                    good = good and mem.get_byte(0) == (0xA0 if loc == 0 else 0x11)
                    if loc > len(base):
                        good = good and mem.get_byte(loc - 1) == 0 and mem.get_byte(len(base)) == 0
                if good and err:
                    good = mem.unwrap() == base
                if not good:
                    viol(f"{which}:effect", f"{which}(loc={loc}, len={n}): wrong resulting memory (len {len(mem)}, expected {exp_len})",
                         {"which": which, "loc": loc, "n": n})
    # --- copy_returndata_to_memory with ret_size smaller than the data: only ret_size bytes are written
    for ret_size in [0, 1, 3, 5, 6, 40]:
        for loc in [0, 2, 8, 11]:
            mem = ByteVec(base)
            rd = ByteVec([b"\xa0\xa1", var("y4", 4)])  # 6 bytes
            copy_returndata_to_memory(rd, loc, ret_size, SimpleNamespace(st=State(memory=mem)))
            eff = min(ret_size, 6)
            exp = PyFlat.write(list(base), loc, ([0xA0, 0xA1] + [("y4", i) for i in range(4)])[:eff])
            got = Impl.chunk_tokens(mem)
            ctx.case(("returndata-partial", ret_size, loc))
            if got != exp or len(mem) != len(exp) or value_tokens(mem) != exp:
                viol("returndata:partial", f"copy_returndata_to_memory(ret_size={ret_size}, loc={loc}) wrote {tok_str(got)} expected {tok_str(exp)}",
                     {"ret_size": ret_size, "loc": loc})
    # --- Contract (the code wrapper): slice / unwrapped_slice / __getitem__ / __len__ read the same flat array
    sym = var("y4", 4)
    sym32 = var("x32", 32)
    pre = bytes(range(0x60, 0x66))
    tail = bytes([0xF0, 0xF1, 0xF2])
    codes = [
        ("concrete-hex", Contract.from_hexcode(pre.hex()), list(pre)),
        ("concrete-bytes", Contract(pre + tail), list(pre + tail)),
        ("two-concrete-chunks", Contract(ByteVec([pre, tail])), list(pre + tail)),
        ("prefix-sym-tail", Contract(ByteVec([pre, sym, tail])), list(pre) + [("y4", i) for i in range(4)] + list(tail)),
        ("prefix-word-tail", Contract(ByteVec([pre, sym32, tail])), list(pre) + [("x32", i) for i in range(32)] + list(tail)),
        ("prefix-sym", Contract(ByteVec([pre, sym])), list(pre) + [("y4", i) for i in range(4)]),
        ("sym-first", Contract(ByteVec([sym, pre])), [("y4", i) for i in range(4)] + list(pre)),
        ("one-byte-prefix", Contract(ByteVec([b"\x60", sym, tail])), [0x60] + [("y4", i) for i in range(4)] + list(tail)),
        ("empty", Contract(ByteVec()), []),
    ]
    for cname, code, ref in codes:
        n = len(ref)
        # length of the concrete first chunk (what Contract caches as its fast-path prefix)
        first = code._code.chunks.peekitem(0)[1] if code._code.chunks else None
        npre = len(first) if isinstance(first, ConcreteChunk) else 0
        if len(code) != n:
            viol("contract:len", f"len(Contract {cname}) = {len(code)}, expected {n}", {"code": cname})
        starts = sorted({0, 1, max(0, npre - 2), max(0, npre - 1), npre, npre + 1, max(0, n - 1), n, n + 1, n + 40, M, 2 * M})
        csizes = sorted({0, 1, 2, 4, 31, 32, 33, n, n + 7, npre})
        for st in starts:
            # single bytes
            if st <= n + 40:
                try:
                    gb = code[st]
                    gbt = [gb] if isinstance(gb, int) else term_tokens(gb)
                except Exception as e:  # noqa: BLE001
                    gbt = "err " + err_name(e)
                exp1 = PyFlat.read(ref, st, st + 1)
                ctx.case(("contract-getitem", cname, st))
                if gbt != exp1:
                    viol(f"contract:getitem:{'prefix' if st < npre else 'past-prefix' if st < n else 'past-end'}",
                         f"Contract({cname})[{st}] = {gbt}, flat array gives {exp1}", {"code": cname, "start": st})
            for size in csizes:
                where = ("empty" if size == 0 else "inside-prefix" if st + size <= npre else "straddles-prefix-end" if st < npre
                         else "past-end" if st >= n else "after-prefix")
                if where == "straddles-prefix-end" and st + size > n:
                    where = "prefix-to-past-end"
                exp = PyFlat.read(ref, st, st + size)
                try:
                    v = code.slice(st, size)
                    got = value_tokens(v) if len(v) else []
                    glen = len(v)
                    err = None
                except Exception as e:  # noqa: BLE001
                    got, glen, err = None, None, err_name(e)
                ctx.case(("contract-slice", cname, where, st if st < 4096 else st - M, size))
                ctx.count(f"contract:slice:{where}")
                if err is not None or got != exp or glen != size:
                    viol(f"contract:slice:{where}",
                         f"Contract({cname}).slice(start={st}, size={size}) = {err or tok_str(got)} (length {glen}), "
                         f"flat zero-extended array gives {tok_str(exp)} (length {size})",
                         {"code": cname, "start": st, "size": size})
                if size:
                    try:
                        u = code.unwrapped_slice(st, st + size)
                        ut = list(int.to_bytes(u.value, u.size // 8, "big")) if u.is_concrete else term_tokens(u.value)
                    except Exception as e:  # noqa: BLE001
                        ut = "err " + err_name(e)
                    if ut != exp:
                        viol(f"contract:unwrapped_slice:{where}",
                             f"Contract({cname}).unwrapped_slice({st}, {st + size}) = {ut if isinstance(ut, str) else tok_str(ut)}, "
                             f"flat array gives {tok_str(exp)}", {"code": cname, "start": st, "size": size})
        # the size limit of code reads: size > MAX_MEMORY_SIZE is refused, a large start is not
        for st, size, should_fail in [(0, M + 1, True), (n + 5, M + 1, True), (2 * M, 8, False), (0, M, False)]:
            try:
                v = code.slice(st, size)
                err = None
            except Exception as e:  # noqa: BLE001
                err = err_name(e)
            ctx.case(("contract-limit", cname, st, size))
            if should_fail != (err == "OutOfGas") or (err is None and len(v) != size):
                viol("contract:slice:size-limit", f"Contract({cname}).slice({st}, {size}) -> {err or len(v)}", {"code": cname, "start": st, "size": size})
    # --- negative offsets are rejected and change nothing
    for which, f in [
        ("get_byte", lambda m: m.get_byte(-1)),
        ("getitem", lambda m: m[-1]),
        ("slice", lambda m: m.slice(-1, 3)),
        ("slice2", lambda m: m.slice(-3, -1)),
        ("set_slice", lambda m: m.set_slice(-1, 2, b"abc")),
        ("set_slice2", lambda m: m.set_slice(-2, -1, b"a")),
        ("set_byte", lambda m: m.set_byte(-1, 1)),
        ("get_word", lambda m: m.get_word(-1)),
        ("set_word", lambda m: m.set_word(-1, 1)),
    ]:
        for init in (b"", base):
            mem = ByteVec(init) if init else ByteVec()
            try:
                f(mem)
                err = None
            except Exception as e:  # noqa: BLE001
                err = err_name(e)
            ctx.case(("negative", which, len(init)))
            if which == "slice2":
                ok = err is None or err == "IndexError"  # stop <= start: empty result is acceptable
            else:
                ok = err is not None
            if not ok or mem.unwrap() != init or len(mem) != len(init):
                viol(f"negative-offset:{which}", f"{which} with a negative offset on a {len(init)}-byte ByteVec: {err or 'accepted'}; "
                     f"content now {mem.unwrap()!r}", {"which": which, "init": init.hex()})
    # --- set_word value kinds (incl. z3 Bool -> If(b, 1, 0)) read back through get_word, compared by evaluation
    p = Bool("p_flag")
    x = var("x32", 32)
    vals = [
        ("int", 0x1234, lambda env: 0x1234),
        ("int-max", (1 << 256) - 1, lambda env: (1 << 256) - 1),
        ("bytes", bytes(range(32)), lambda env: int.from_bytes(bytes(range(32)), "big")),
        ("bvval", BitVecVal(77, 256), lambda env: 77),
        ("BVcon", BV(99, size=256), lambda env: 99),
        ("bvref", x, lambda env: env["x32"]),
        ("BVsym", BV(x), lambda env: env["x32"]),
        ("bool", p, lambda env: 1 if env["p_flag"] else 0),
        ("bool-not", z3.Not(p), lambda env: 0 if env["p_flag"] else 1),
    ]
    envs = [{"x32": rng.getrandbits(256), "p_flag": bool(i & 1)} for i in range(4)]
    for name, v, ref in vals:
        for off in [0, 3, 8, 40]:
            mem = ByteVec(base)
            mem.set_word(off, v)
            got = mem.get_word(off)
            ctx.case(("set_word", name, off))
            ctx.count(f"set_word:{name}")
            for env in envs:
                g = got if isinstance(got, int) else zeval.evaluate(got, env)
                if g != ref(env) or len(mem) != max(len(base), off + 32):
                    viol(f"set_word:{name}", f"set_word({off}, <{name}>) then get_word({off}) = {got} under {env}, expected {ref(env)}",
                         {"name": name, "off": off})
                    break
            # surrounding bytes: before = old content / zeros
            before = [mem.get_byte(i) for i in range(off)]
            exp_before = [base[i] if i < len(base) else 0 for i in range(off)]
            if before != exp_before:
                viol(f"set_word:{name}:frame", f"set_word({off}, <{name}>) changed bytes before the word: {before}", {"name": name, "off": off})
    # --- set_byte rejects values that are not one byte
    for bad in (256, -1, b"ab", b"", var("y2", 2)):
        mem = ByteVec(base)
        try:
            mem.set_byte(2, bad)
            err = None
        except Exception as e:  # noqa: BLE001
            err = err_name(e)
        ctx.case(("set_byte-bad", str(bad)))
        if err is None or mem.unwrap() != base:
            viol("set_byte:not-a-byte", f"set_byte(2, {bad!r}) -> {err or 'accepted'}, content {mem.unwrap()!r}", {"bad": str(bad)})
    # --- _well_formed agrees with the layout invariant on random states (it is the code's own statement of WF)
    import contextlib
    import io

    g = Gen(rng, set(), 64)
    for _ in range(ctx.scale(30, 300)):
        ops = g.history(rng.randrange(1, 25))
        impl = Impl(rng)
        for op in ops:
            impl.step(op)
        for n in NAMES:
            bv = impl.pool[n]
            cum, wf = 0, True
            for st, ch in bv.chunks.items():
                if len(ch) == 0 or st != cum:
                    wf = False
                cum += len(ch)
            wf = wf and cum == len(bv)
            try:
                with contextlib.redirect_stdout(io.StringIO()):
                    said = bv._well_formed()
            except ValueError:
                said = False
            ctx.case(("well_formed", Impl.layout(bv)))
            if said != wf:
                viol("_well_formed:verdict", f"_well_formed() = {said} on layout {Impl.layout(bv)} len {len(bv)}", {"ops": [op_to_json(o) for o in ops]})
            elif not wf and not alias_live:
                viol("wf:broken-layout", f"ill-formed layout {Impl.layout(bv)} (length {len(bv)}) after {[op_line(o) for o in ops]}",
                     {"kind": "history", "ops": [op_to_json(o) for o in ops]})



# ----------------------------------------------------------------------------------------------------------
# instruction level: the copy instructions of the real SEVM against the flat arrays
#   program = [MSTORE / MSTORE8 of known values] ; <copy instruction with pushed operands> ; PUSH m ; MLOAD ; STOP
#   on a (possibly dirty, partly symbolic) memory; sources: calldata, code, another account's code (existing / empty),
#   return data (injected sub-call output, or produced by STATICCALL to the identity precompile), memory itself.

INSN_OPS = {"CALLDATACOPY": 0x37, "CODECOPY": 0x39, "EXTCODECOPY": 0x3C, "RETURNDATACOPY": 0x3E, "MCOPY": 0x5E}
EXT_ADDR = 0xABCDEF
EMPTY_ADDR = 0x777777


def _p2(n):
    return bytes([0x61]) + int(n).to_bytes(2, "big")


def insn_source(kind):
    """(list of python values for ByteVec(...), tokens) of a source byte sequence"""
    if kind == "concrete":
        data = bytes(range(1, 38))  # 37 bytes
        return [data], list(data)
    pieces = [bytes([0xC1, 0xC2, 0xC3, 0xC4, 0xC5]), var("s8", 8), bytes(range(0xD0, 0xD7)), var("t32", 32), bytes([0xE1, 0xE2, 0xE3])]
    toks = [0xC1, 0xC2, 0xC3, 0xC4, 0xC5] + [("s8", i) for i in range(8)] + list(range(0xD0, 0xD7)) + [("t32", i) for i in range(32)] + [0xE1, 0xE2, 0xE3]
    return pieces, toks


def insn_dirty(kind):
    if not kind:
        return [], []
    pieces = [b"\xee" * 20, var("m12", 12), b"\xdd" * 45]
    return pieces, [0xEE] * 20 + [("m12", i) for i in range(12)] + [0xDD] * 45


_INSN_SEVM = None


def insn_run(case):
    """run one case on the real SEVM; returns dict(error, mem_tokens, mem_len, public_tokens, top_tokens) and the flat expectation"""
    global _INSN_SEVM
    from vlib import sevmdrv
    from halmos.sevm import CallContext, CallOutput
    from halmos.utils import EVM, con_addr

    if _INSN_SEVM is None:
        _INSN_SEVM = sevmdrv.mk_sevm()
    sevm, args = _INSN_SEVM
    op = case["op"]
    dst, off, size = case["dst"], case["off"], case["size"]
    src_pieces, src_toks = insn_source(case.get("src", "concrete"))
    mem_pieces, mem = insn_dirty(case.get("dirty"))
    mem = list(mem)

    prog = b""
    # MSTORE / MSTORE8 before the copy
    for kind, loc, val in case.get("pre", []):
        if kind == "MSTORE":
            prog += b"\x7f" + int(val).to_bytes(32, "big") + _p2(loc) + b"\x52"
            mem = PyFlat.write(mem, loc, list(int(val).to_bytes(32, "big")))
        else:
            prog += bytes([0x60, val & 0xFF]) + _p2(loc) + b"\x53"
            mem = PyFlat.write(mem, loc, [val & 0xFF])
    route = case.get("route", "inject")
    if op == "RETURNDATACOPY" and route == "precompile":
        # return data := memory[0:rlen] echoed by the identity precompile (STATICCALL to 0x04, retSize 0)
        rlen = case.get("rlen", 32)
        prog += _p2(0) + _p2(0) + _p2(rlen) + _p2(0) + bytes([0x60, 4]) + b"\x5a" + b"\xfa" + b"\x50"
        src_toks = PyFlat.read(mem, 0, rlen)
    if op == "EXTCODECOPY":
        addr = EXT_ADDR if case.get("account", "existing") == "existing" else EMPTY_ADDR
        prog += _p2(size) + _p2(off) + _p2(dst) + b"\x73" + addr.to_bytes(20, "big") + bytes([INSN_OPS[op]])
        if case.get("account", "existing") != "existing":
            src_toks = []
    else:
        prog += _p2(size) + _p2(off) + _p2(dst) + bytes([INSN_OPS[op]])
    mload_at = case.get("mload", dst)
    prog += _p2(mload_at) + b"\x51" + b"\x00"

    code_pieces = [prog]
    if op == "CODECOPY":
        # the source is the running code itself: program (concrete prefix) followed by the source pieces;
        # `off` is relative to the end of the program minus 3, so that windows straddle the prefix end
        code_pieces = [prog] + src_pieces
        base = len(prog) - 3
        real_off = base + off
        src_toks = list(prog) + src_toks
        # patch the pushed offset (PUSH2 off is the second push of the copy sequence)
        marker = _p2(size) + _p2(off) + _p2(dst) + bytes([INSN_OPS[op]])
        i = prog.rindex(marker)
        prog2 = prog[:i] + _p2(size) + _p2(real_off) + _p2(dst) + bytes([INSN_OPS[op]]) + prog[i + len(marker):]
        assert len(prog2) == len(prog)
        code_pieces[0] = prog2
        src_toks = list(prog2) + src_toks[len(prog):]
        off = real_off
    ex = sevmdrv.mk_ex(
        sevm, args, Contract(ByteVec(code_pieces)),
        calldata=ByteVec(list(src_pieces)) if op == "CALLDATACOPY" else ByteVec(),
        extra_code={con_addr(EXT_ADDR): Contract(ByteVec(list(src_pieces)))} if op == "EXTCODECOPY" else None,
    )
    for piece in mem_pieces:
        ex.st.memory.append(piece)
    if op == "RETURNDATACOPY" and route == "inject":
        sub = CallContext(
            Message(target=con_addr(EXT_ADDR), caller=sevmdrv.THIS, origin=sevmdrv.ORIGIN, value=0, data=ByteVec(), call_scheme=EVM.STATICCALL),
            output=CallOutput(data=ByteVec(list(src_pieces))),
        )
        ex.context.trace.append(sub)
    if op == "MCOPY":
        src_toks = mem  # zero-extended reads of the memory before the copy

    # flat expectation
    fail = op == "RETURNDATACOPY" and off + size > len(src_toks)
    exp_mem = mem if (size == 0 or fail) else PyFlat.write(mem, dst, PyFlat.read(src_toks, off, off + size))
    exp_top = PyFlat.read(exp_mem, mload_at, mload_at + 32)

    signal.setitimer(signal.ITIMER_REAL, 10.0)
    try:
        exs = list(sevm.run(ex))
    except OpTimeout:
        return {"crash": "Timeout"}, {"fail": fail, "mem": exp_mem, "top": exp_top}
    except Exception as e:  # noqa: BLE001
        return {"crash": err_name(e) + ": " + str(e)[:80]}, {"fail": fail, "mem": exp_mem, "top": exp_top}
    finally:
        signal.setitimer(signal.ITIMER_REAL, 0)
    got = {"paths": len(exs)}
    if len(exs) == 1:
        e0 = exs[0]
        err = e0.context.output.error
        got["error"] = type(err).__name__ if err is not None else None
        if err is None:
            m = e0.st.memory
            got["mem_len"] = len(m)
            try:
                got["mem"] = Impl.chunk_tokens(m)
                got["mem_public"] = value_tokens(m) if len(m) else []
                top = e0.st.stack[-1] if e0.st.stack else None
                tv = top.value if isinstance(top, BV) else top
                got["top"] = list(int(tv).to_bytes(32, "big")) if isinstance(tv, int) else term_tokens(tv)
            except (Uncanonical, RecursionError) as e:
                got["crash"] = "uncanonical " + str(e)
    return got, {"fail": fail, "mem": exp_mem, "top": exp_top}


def insn_class(case, src_len):
    off, size = case["off"], case["size"]
    if size == 0:
        w = "size0"
    elif off == 0:
        w = "off0"
    elif size <= off:
        w = "size-le-off"
    else:
        w = "size-gt-off"
    if size and off >= src_len:
        w += "-past-end"
    elif size and off + size > src_len:
        w += "-straddles-end"
    kind = case["op"]
    if kind == "EXTCODECOPY":
        kind += "-" + case.get("account", "existing")
        if case.get("account", "existing") != "existing" and size:
            w = "nonzero-offset" if off else "off0"  # an empty account: every window is past the end
    if kind == "RETURNDATACOPY" and case.get("route") == "precompile":
        kind += "-precompile"
    return kind, w


def insn_check(ctx, case, tag):
    got, exp = insn_run(case)
    src_len = {"EXTCODECOPY": 0 if case.get("account", "existing") != "existing" else len(insn_source(case.get("src", "concrete"))[1])}.get(
        case["op"], len(insn_source(case.get("src", "concrete"))[1]))
    if case["op"] == "RETURNDATACOPY" and case.get("route") == "precompile":
        src_len = case.get("rlen", 32)
    kind, where = insn_class(case, src_len)
    ctx.case(("insn", kind, where, case.get("src"), bool(case.get("dirty")), case["dst"] % 32 == 0, len(case.get("pre", []))))
    ctx.count(f"insn:{kind}")
    ctx.count(f"insn-window:{where}")
    problem = None
    if "crash" in got:
        problem = ("crash", f"the run raised {got['crash']}")
    elif got["paths"] != 1:
        problem = ("paths", f"{got['paths']} paths for a straight-line program")
    elif exp["fail"]:
        if got["error"] is None:
            problem = ("accepted-out-of-bounds", "an out-of-bounds RETURNDATACOPY did not fail")
    elif got["error"] is not None:
        problem = ("error", f"unexpected {got['error']}")
    else:
        if got["mem_len"] != len(exp["mem"]) or got["mem"] != exp["mem"]:
            problem = ("memory", f"memory after the copy is {tok_str(got['mem'])} (length {got['mem_len']}), the flat array gives "
                                 f"{tok_str(exp['mem'])} (length {len(exp['mem'])})")
        elif got["mem_public"] != exp["mem"]:
            problem = ("memory-unwrap", f"memory.unwrap() gives {tok_str(got['mem_public'])}, the flat array {tok_str(exp['mem'])}")
        elif got["top"] != exp["top"]:
            problem = ("mload", f"MLOAD({case.get('mload', case['dst'])}) after the copy gives {tok_str(got['top'])}, the flat array {tok_str(exp['top'])}")
    if problem:
        key = f"insn:{kind}:{where}:{problem[0]}"
        ctx.violation(key, f"{case['op']}(dst={case['dst']}, offset={case['off']}, size={case['size']}) "
                           f"[{tag}; source {case.get('src', 'concrete')}, {'dirty' if case.get('dirty') else 'empty'} memory, "
                           f"{case.get('account', '')} {case.get('route', '')}]: {problem[1]}", {"kind": "insn", "case": case})
        return False
    return True


def insn_corpus(ctx):
    corpus = VERIF / "corpus" / ID
    n = 0
    if corpus.is_dir():
        for p in sorted(corpus.glob("*.json")):
            for case in json.loads(p.read_text()).get("insn_cases", []):
                insn_check(ctx, case, f"corpus:{p.name}")
                n += 1
    ctx.count("insn-corpus-cases", n)


def insn_section(ctx):
    rng = ctx.rng
    kinds = [
        {"op": "CALLDATACOPY"}, {"op": "CODECOPY"}, {"op": "EXTCODECOPY", "account": "existing"},
        {"op": "EXTCODECOPY", "account": "empty"}, {"op": "RETURNDATACOPY", "route": "inject"}, {"op": "MCOPY"},
    ]
    budget = ctx.scale(9000, 60000)
    cases = []
    for k in kinds:
        for src in ("concrete", "mixed"):
            L = len(insn_source(src)[1])
            if k["op"] == "MCOPY":
                L = 77
            offs = sorted({0, 1, 4, 5, 12, 13, 31, 33, L - 1, L, L + 3})
            for dirty in (False, True):
                for dst in (0, 3, 32, 70):
                    for off in offs:
                        for size in (0, 1, 4, 5, 8, 32, 33, 60):
                            cases.append({**k, "src": src, "dirty": dirty, "dst": dst, "off": off, "size": size})
    rng.shuffle(cases)
    full = len(cases) <= budget
    for c in cases[:budget]:
        # MSTORE / MSTORE8 around: sometimes write known values first, and read a word near the destination afterwards
        r = rng.random()
        if r < 0.3:
            c["pre"] = [("MSTORE", rng.choice([0, 5, 31, 40, 64, 90]), rng.getrandbits(256))]
        elif r < 0.5:
            c["pre"] = [("MSTORE8", rng.choice([0, 7, 33, 69, 100]), rng.randrange(256)), ("MSTORE", rng.choice([2, 32, 66]), rng.getrandbits(256))]
        c["mload"] = max(0, c["dst"] + rng.choice([0, 0, -3, 5, c["size"] - 4, c["size"], 31]))
        insn_check(ctx, c, "grid")
    # return data produced by a real sub-call (identity precompile), concrete and symbolic
    for symbolic in (False, True):
        for off in (0, 1, 4, 12, 16, 31, 32, 33):
            for size in (0, 1, 4, 8, 16, 20, 32):
                for dst in (0x40, 0x45):
                    c = {"op": "RETURNDATACOPY", "route": "precompile", "rlen": 32, "dst": dst, "off": off, "size": size,
                         "dirty": True, "src": "concrete",
                         "pre": [("MSTORE8", 3, 0x5A)] if symbolic else [("MSTORE", 0, int.from_bytes(bytes(range(1, 33)), "big"))]}
                    insn_check(ctx, c, "precompile")
    ctx.extra["insn_grid_cases"] = min(len(cases), budget)
    ctx.extra["insn_grid_complete"] = full


# ----------------------------------------------------------------------------------------------------------
# the return-data buffer after every kind of sub-context ending (EIP-211), observed through RETURNDATASIZE and
# RETURNDATACOPY on the real SEVM and compared with a flat byte array:
#   CALL / STATICCALL / DELEGATECALL returning or reverting with n bytes  -> buffer = those n bytes
#   CREATE / CREATE2 whose init code returns n bytes (success)            -> buffer empty
#   CREATE / CREATE2 whose init code reverts with n bytes                 -> buffer = those n bytes
#   no sub-context                                                       -> buffer empty

RD_MAIN = 0xAAAA
RD_CALLEE = 0x2000


def _payload(n):
    return bytes((0xA0 + 7 * i) & 0xFF for i in range(n))


def _emit_code(n, revert):
    """code that copies its own n-byte tail to memory[0:n] and RETURNs / REVERTs it"""
    head_len = 3 + 3 + 2 + 1 + 3 + 2 + 1
    head = _p2(n) + _p2(head_len) + b"\x60\x00" + b"\x39" + _p2(n) + b"\x60\x00" + (b"\xfd" if revert else b"\xf3")
    assert len(head) == head_len
    return head + _payload(n)


ECHO_RETURN = bytes.fromhex("365f5f37365ff3")  # calldatacopy(0,0,cds); return(0,cds)
ECHO_REVERT = bytes.fromhex("365f5f37365ffd")


def rd_run(case):
    global _INSN_SEVM
    from vlib import sevmdrv
    from halmos.utils import con_addr
    from z3 import BitVecVal as _BVV

    if _INSN_SEVM is None:
        _INSN_SEVM = sevmdrv.mk_sevm()
    sevm, args = _INSN_SEVM
    import logging

    logging.getLogger("halmos").setLevel(logging.ERROR)  # "unknown deployed bytecode" warnings of every CREATE
    kind, outcome, n = case["kind"], case["outcome"], case["n"]
    dst, off, size = case["dst"], case["off"], case["size"]
    revert = outcome == "revert"
    mem_pieces, mem = [], []
    extra = {}
    observe = b"\x3d" + _p2(size) + _p2(off) + _p2(dst) + b"\x3e" + b"\x00"   # RETURNDATASIZE; RETURNDATACOPY; STOP
    if kind == "none":
        prog = b"\x60\x01" + observe          # a dummy "status" so that the stack shape is the same
        payload = []
        expect_status_nonzero = True
    elif kind in ("CREATE", "CREATE2"):
        init = _emit_code(n, revert)
        # parent: codecopy(0, tail, len(init)); create(0, 0, len(init)) / create2(0, 0, len(init), salt)
        create = (b"\x60\x2a" if kind == "CREATE2" else b"") + _p2(len(init)) + b"\x60\x00\x60\x00" + (b"\xf5" if kind == "CREATE2" else b"\xf0")
        head_len = 3 + 3 + 2 + 1 + len(create) + len(observe)
        prog = _p2(len(init)) + _p2(head_len) + b"\x60\x00" + b"\x39" + create + observe
        assert len(prog) == head_len
        prog += init
        mem = list(init)
        payload = list(_payload(n)) if revert else []
        expect_status_nonzero = not revert
    else:
        opc = {"CALL": 0xF1, "STATICCALL": 0xFA, "DELEGATECALL": 0xF4}[kind]
        if case.get("sym"):
            # the callee echoes its input: memory[0:n] of the caller, which holds symbolic bytes
            mem_pieces, mem = insn_dirty(True)
            mem = list(mem)
            extra[con_addr(RD_CALLEE)] = Contract(ECHO_REVERT if revert else ECHO_RETURN)
            payload = PyFlat.read(mem, 0, n)
            argsize = n
        else:
            extra[con_addr(RD_CALLEE)] = Contract(_emit_code(n, revert))
            payload = list(_payload(n))
            argsize = 0
        # (gas, addr, [value], argsOffset, argsSize, retOffset, retSize) pushed in reverse
        prog = b"\x60\x00\x60\x00" + _p2(argsize) + b"\x60\x00" + (b"\x60\x00" if kind == "CALL" else b"") + _p2(RD_CALLEE) + b"\x5a" + bytes([opc]) + observe
        expect_status_nonzero = not revert
    ex = sevmdrv.mk_ex(sevm, args, Contract(prog), this=_BVV(RD_MAIN, 160), caller=_BVV(0xCCCC, 160), origin=_BVV(0xDDDD, 160),
                       value=_BVV(0, 256), extra_code=extra or None)
    for piece in mem_pieces:
        ex.st.memory.append(piece)
    fail = off + size > len(payload)
    exp_mem = mem if (size == 0 or fail) else PyFlat.write(mem, dst, PyFlat.read(payload, off, off + size))
    exp = {"fail": fail, "mem": exp_mem, "size": len(payload), "status_nonzero": expect_status_nonzero, "payload": payload}
    signal.setitimer(signal.ITIMER_REAL, 20.0)
    try:
        exs = list(sevm.run(ex))
    except OpTimeout:
        return {"crash": "Timeout"}, exp
    except Exception as e:  # noqa: BLE001
        return {"crash": err_name(e) + ": " + str(e)[:100]}, exp
    finally:
        signal.setitimer(signal.ITIMER_REAL, 0)
    got = {"paths": len(exs)}
    if len(exs) == 1:
        e0 = exs[0]
        err = e0.context.output.error
        got["error"] = type(err).__name__ if err is not None else None
        st = e0.st.stack

        def as_int(w):
            v = w.value if isinstance(w, BV) else w
            if hasattr(v, "as_long") and is_bv_value(v):
                v = v.as_long()
            return v if isinstance(v, int) else None

        if len(st) >= 2:
            got["status"] = as_int(st[0])
            got["size"] = as_int(st[1])
        if err is None:
            m = e0.st.memory
            got["mem_len"] = len(m)
            try:
                got["mem"] = Impl.chunk_tokens(m)
            except (Uncanonical, RecursionError) as e:
                got["crash"] = "uncanonical " + str(e)
    return got, exp


def rd_check(ctx, case, tag):
    got, exp = rd_run(case)
    n = case["n"]
    ncls = "empty" if n == 0 else "nonempty"
    off, size = case["off"], case["size"]
    plen = exp["size"]
    window = "size0" if size == 0 else "inside" if off + size < plen else "to-end" if off + size == plen else "one-past" if off + size == plen + 1 else "beyond"
    fam = f"{case['kind']}:{case['outcome']}:{ncls}{':sym' if case.get('sym') else ''}"
    ctx.case(("returndata", fam, n, window, off > 0, case["dst"]))
    ctx.count(f"returndata:{case['kind']}:{case['outcome']}")
    ctx.count(f"returndata-window:{window}")
    problem = None
    if "crash" in got:
        problem = ("crash", f"the run raised {got['crash']}")
    elif got["paths"] != 1:
        problem = ("paths", f"{got['paths']} paths for a straight-line program")
    elif got.get("size") != exp["size"]:
        problem = ("size", f"RETURNDATASIZE = {got.get('size')}, the buffer holds {exp['size']} bytes ({tok_str(exp['payload'])})")
    elif got.get("status") is None or (got["status"] != 0) != exp["status_nonzero"]:
        problem = ("status", f"the sub-context pushed {got.get('status')}, expected {'non-zero' if exp['status_nonzero'] else '0'}")
    elif exp["fail"]:
        if got["error"] is None:
            problem = ("accepted-out-of-bounds", "an out-of-bounds RETURNDATACOPY did not fail")
    elif got["error"] is not None:
        problem = ("error", f"RETURNDATACOPY of an in-bounds window failed with {got['error']}")
    elif got.get("mem_len") != len(exp["mem"]) or got.get("mem") != exp["mem"]:
        problem = ("memory", f"memory after RETURNDATACOPY is {tok_str(got.get('mem') or [])} (length {got.get('mem_len')}), the flat array gives "
                             f"{tok_str(exp['mem'])} (length {len(exp['mem'])})")
    if problem:
        key = f"returndata:{fam}:{problem[0]}"
        ctx.violation(key, f"return-data buffer after {case['kind']} ({case['outcome']}, {n}-byte payload{', symbolic' if case.get('sym') else ''}), then "
                           f"RETURNDATASIZE; RETURNDATACOPY(dst={case['dst']}, offset={off}, size={size}) [{tag}]: {problem[1]}",
                      {"kind": "returndata", "case": case})
        return False
    return True


def rd_cases():
    out = []
    for n in (0, 1, 4, 32, 33, 100):
        windows = {(0, 0), (0, n), (0, n + 1), (n, 0), (n, 1), (max(0, n - 1), 1), (n // 2, n - n // 2), (1, max(0, n - 2)), (0, min(n, 4)), (n + 1, 0), (3, 40)}
        for kind in ("CALL", "STATICCALL", "DELEGATECALL", "CREATE", "CREATE2"):
            for outcome in ("success", "revert"):
                for off, size in sorted(windows):
                    for dst in (0, 0x85):
                        out.append({"kind": kind, "outcome": outcome, "n": n, "off": off, "size": size, "dst": dst})
                        if kind in ("CALL", "STATICCALL", "DELEGATECALL") and n in (4, 33) and dst == 0x85:
                            out.append({"kind": kind, "outcome": outcome, "n": n, "off": off, "size": size, "dst": dst, "sym": True})
    for off, size in ((0, 0), (0, 1), (1, 0)):
        out.append({"kind": "none", "outcome": "success", "n": 0, "off": off, "size": size, "dst": 0})
    return out


def rd_corpus(ctx):
    corpus = VERIF / "corpus" / ID
    if corpus.is_dir():
        for p in sorted(corpus.glob("*.json")):
            for case in json.loads(p.read_text()).get("returndata_cases", []):
                rd_check(ctx, case, f"corpus:{p.name}")
                ctx.count("returndata-corpus-cases")


def rd_section(ctx):
    cases = rd_cases()
    for c in cases:
        rd_check(ctx, c, "grid")
    ctx.extra["returndata_cases"] = len(cases)

# ----------------------------------------------------------------------------------------------------------


def correspond(ctx):
    lits, max_mem = harvest_literals()
    ctx.note(f"harvested integer literals: {sorted(v for v in lits if abs(v) < 10**7)}; MAX_MEMORY_SIZE={max_mem}")
    alias_live, got = probe_alias()
    ctx.extra["alias_variant_live"] = alias_live
    ctx.note(f"aligned set_slice stores the value object by reference: {alias_live} (probe read back {got!r})")
    ctx.count(f"variant:{'alias' if alias_live else 'noalias'}")

    runner = Runner(ctx, alias_live)

    # 0. the witness of the Lean counterexample theorem, then the stored corpus
    runner.add_history(WITNESS, "witness")
    corpus = VERIF / "corpus" / ID
    if corpus.is_dir():
        for p in sorted(corpus.glob("*.json")):
            data = json.loads(p.read_text())
            for h in data.get("histories", [data] if "ops" in data else []):
                runner.add_history([op_from_json(o) for o in h["ops"]], f"corpus:{p.name}",
                                   force=h.get("force_routes", ()))
                ctx.count("corpus-history")
    runner.finish()
    insn_corpus(ctx)
    rd_corpus(ctx)

    # 1. exhaustive small scope
    A = alphabet()
    g = Gen(ctx.rng, lits, 64)  # only used for its validity guard
    ctx.extra["alphabet_size"] = len(A)

    def admissible(seq):
        g.reset()
        for op in PREAMBLE:
            g.commit(op)
        for op in seq:
            if not g.valid(op):
                return False
            g.commit(op)
        return True

    full3 = ctx.tier == "thorough"
    n_exh = 0
    runner.save_preamble(PREAMBLE)
    for L in (1, 2):
        for seq in itertools.product(A, repeat=L):
            if admissible(seq):
                runner.add_history(list(seq) + [("unwrap", "a"), ("slice", "a", 0, 17, "c")], f"exh{L}", PREAMBLE)
                n_exh += 1
    runner.finish()
    if full3:
        batch = 0
        runner.save_preamble(PREAMBLE)
        for seq in itertools.product(A, repeat=3):
            if admissible(seq):
                runner.add_history(list(seq) + [("unwrap", "a")], "exh3", PREAMBLE)
                n_exh += 1
                batch += 1
                if batch >= 40000:
                    runner.finish()
                    runner.save_preamble(PREAMBLE)
                    batch = 0
        runner.finish()
    else:
        runner.save_preamble(PREAMBLE)
        for _ in range(ctx.scale(6000, 0)):
            seq = [ctx.rng.choice(A) for _ in range(3)]
            if admissible(seq):
                runner.add_history(seq + [("unwrap", "a")], "exh3-sample", PREAMBLE)
                n_exh += 1
        runner.finish()
    ctx.extra["exhaustive_histories"] = n_exh
    ctx.extra["exhaustive_scope"] = f"all histories of length <= {'3' if full3 else '2'} over an alphabet of {len(A)} operations on the offset grid {GRID}"

    # 2. random histories
    n_rand = ctx.scale(4000, 8000)
    max_len = ctx.scale(40, 60)
    max_off = ctx.scale(96, 1024)
    gen = Gen(ctx.rng, lits, max_off)
    batch = 0
    for i in range(n_rand):
        n = ctx.rng.randrange(1, max_len + 1)
        ops = gen.history(n)
        runner.add_history(ops, f"random#{i}")
        batch += len(ops)
        if batch >= 60000:
            runner.finish()
            batch = 0
    runner.finish()
    ctx.extra["random_histories"] = n_rand

    # 3. directed checks
    directed(ctx, max_mem, alias_live)

    # 4. instruction level: the copy instructions on the real SEVM
    insn_section(ctx)

    # 5. the return-data buffer after every kind of sub-context ending
    rd_section(ctx)

    ctx.sample({"witness": [op_line(o) for o in WITNESS]})
    ctx.sample({"exhaustive_example": [op_line(o) for o in PREAMBLE + A[:2]]})
    ctx.sample({"random_example": [op_line(o) for o in gen.history(8)]})


def replay(ctx, data) -> bool:
    rep = data.get("replay", data)
    if rep.get("kind") == "history" or "ops" in rep:
        ops = [op_from_json(o) for o in rep["ops"]]
        for seed in range(8):  # the routes are chosen by an rng: try several
            import random

            r = run_history_python_only(ops, random.Random(seed), force=rep.get("force_routes", ()))
            if r is not None:
                print(f"  diverges at step {r[0]}: {r[1]}")
                return True
        return False
    if rep.get("kind") == "returndata":
        sub = type(ctx)(ctx.pid, ctx.tier, ctx.seed)
        return not rd_check(sub, rep["case"], "replay")
    if rep.get("kind") == "insn":
        sub = type(ctx)(ctx.pid, ctx.tier, ctx.seed)
        return not insn_check(sub, rep["case"], "replay")
    # directed cases: re-run the directed block and see whether the same key shows up again
    sub = type(ctx)(ctx.pid, ctx.tier, ctx.seed)
    directed(sub, None)
    return any(v["key"] == data.get("key") for v in sub.violations)
